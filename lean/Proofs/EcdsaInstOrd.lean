import Model.EcdsaCurve
/-!
# Proofs.EcdsaInstOrd — the `order` / `generator` fields of the results of point operations (structural facts about
`Model/Curve.lean`): a result is INFINITY, one of the operands, or a fresh `PointJacobi` carrying the first operand's
`order` and `generator = False`.  Needed to chain operations (the point-layer theorems speak of denotations only).
-/
namespace Ecdsa.OnCurve
open Curve

/-- no legacy `Point`; a `PointJacobi` has declared order `n`, or none and is not a generator -/
def OrdInv (n : Int) : Pt → Prop
  | .infinity => True
  | .jac J => J.order = some n ∨ (J.order = none ∧ J.generator = false)
  | .aff _ => False

theorem ordInv_fresh {n : Int} {P J : PJ} (hP : OrdInv n (.jac P)) (ho : J.order = P.order) (hg : J.generator = false) :
    OrdInv n (.jac J) := by
  rcases hP with h | ⟨h, _⟩
  · left; rw [ho, h]
  · right; exact ⟨by rw [ho, h], hg⟩

theorem coordsOut_ord {n : Int} {P : PJ} (hP : OrdInv n (.jac P)) (c : CurveFp) (t : Int × Int × Int) :
    OrdInv n (coordsOut c P.order t) := by
  unfold coordsOut
  split
  · trivial
  · exact ordInv_fresh hP rfl rfl

theorem pjScale_fields {P S : PJ} (h : pjScale P = .ok S) : S.order = P.order ∧ S.generator = P.generator ∧ S.curve = P.curve := by
  unfold pjScale at h
  split at h
  · injection h with h; subst h; exact ⟨rfl, rfl, rfl⟩
  · simp only [bind, Except.bind] at h
    split at h
    · cases h
    · injection h with h; subst h; exact ⟨rfl, rfl, rfl⟩

theorem pjMulWith_ord {n : Int} {pre : List (Int × Int)} {P : PJ} {k : Int} {R : Pt} (hP : OrdInv n (.jac P))
    (h : pjMulWith pre P k = .ok R) : OrdInv n R := by
  unfold pjMulWith at h
  split at h
  · injection h with h; subst h; trivial
  · split at h
    · injection h with h; subst h; exact hP
    · simp only [bind, Except.bind] at h
      split at h
      · cases h
      · split at h
        · injection h with h; subst h
          exact coordsOut_ord hP _ _
        · split at h
          · cases h
          · rename_i S hS
            injection h with h; subst h
            obtain ⟨ho, _, _⟩ := pjScale_fields hS
            rw [ho]
            exact coordsOut_ord hP _ _

theorem pjAddCore_ord {n : Int} {P Q : PJ} {R : Pt} (hP : OrdInv n (.jac P)) (h : pjAddCore P Q = .ok R) : OrdInv n R := by
  unfold pjAddCore at h
  split at h
  · cases h
  · injection h with h; subst h; exact coordsOut_ord hP _ _

theorem pjAdd_ord {n : Int} {P : PJ} {o R : Pt} (hP : OrdInv n (.jac P)) (ho : OrdInv n o) (h : pjAdd P o = .ok R) :
    OrdInv n R := by
  unfold pjAdd at h
  split at h
  · injection h with h; subst h; exact ho
  · cases o with
    | infinity => injection h with h; subst h; exact hP
    | jac Q =>
      simp only at h
      split at h
      · injection h with h; subst h; exact hP
      · exact pjAddCore_ord hP h
    | aff A => exact absurd ho (by simp [OrdInv])

theorem ptAdd_ord {n : Int} {A B R : Pt} (hA : OrdInv n A) (hB : OrdInv n B) (h : ptAdd A B = .ok R) : OrdInv n R := by
  cases A with
  | jac P => exact pjAdd_ord hA hB h
  | infinity =>
    cases B with
    | infinity => injection h with h; subst h; trivial
    | jac Q => exact pjAdd_ord (o := .infinity) hB (by simp [OrdInv]) h
    | aff _ => exact absurd hB (by simp [OrdInv])
  | aff _ => exact absurd hA (by simp [OrdInv])

theorem ptMulWith_ord {n : Int} {pre : List (Int × Int)} {A R : Pt} {k : Int} (hA : OrdInv n A)
    (h : ptMulWith pre A k = .ok R) : OrdInv n R := by
  cases A with
  | infinity => injection h with h; subst h; trivial
  | jac P => exact pjMulWith_ord hA h
  | aff _ => exact absurd hA (by simp [OrdInv])

theorem pjMulAddWith_ord {n : Int} {preP preQ : List (Int × Int)} {P : PJ} {other R : Pt} {sm om : Int}
    (hP : OrdInv n (.jac P)) (hO : OrdInv n other) (h : pjMulAddWith preP preQ P sm other om = .ok R) : OrdInv n R := by
  unfold pjMulAddWith at h
  split at h
  · exact pjMulWith_ord hP h
  · split at h
    · exact ptMulWith_ord hO h
    · cases other with
      | infinity => exact pjMulWith_ord hP h
      | aff _ => exact absurd hO (by simp [OrdInv])
      | jac Q =>
        simp only [bind, Except.bind] at h
        split at h
        · cases h
        · split at h
          · cases h
          · split at h
            · -- both tables: two multiplications and an addition
              split at h
              · cases h
              · rename_i r1 h1
                split at h
                · cases h
                · rename_i r2 h2
                  exact ptAdd_ord (pjMulWith_ord hP h1) (pjMulWith_ord hO h2) h
            · split at h
              · cases h
              · rename_i SP hSP
                split at h
                · cases h
                · rename_i SQ hSQ
                  obtain ⟨oP, gP, _⟩ := pjScale_fields hSP
                  obtain ⟨oQ, gQ, _⟩ := pjScale_fields hSQ
                  have hSP' : OrdInv n (.jac SP) := by
                    rcases hP with hh | ⟨hh, hg⟩
                    · left; rw [oP, hh]
                    · right; exact ⟨by rw [oP, hh], by rw [gP, hg]⟩
                  have hSQ' : OrdInv n (.jac SQ) := by
                    rcases hO with hh | ⟨hh, hg⟩
                    · left; rw [oQ, hh]
                    · right; exact ⟨by rw [oQ, hh], by rw [gQ, hg]⟩
                  split at h
                  · split at h
                    · cases h
                    · rename_i r1 h1
                      split at h
                      · cases h
                      · rename_i r2 h2
                        exact ptAdd_ord (pjMulWith_ord hSP' h1) (pjMulWith_ord hSQ' h2) h
                  · injection h with h; subst h
                    exact coordsOut_ord hP _ _

end Ecdsa.OnCurve
