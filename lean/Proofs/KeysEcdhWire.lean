import Model.EcdhWire
import Proofs.KeysEcdh
import Proofs.KeysDerCanon
import Proofs.KeysInst
/-!
# Proofs.KeysEcdhWire — the six ECDH loaders of the environment the model driver actually runs (`EcdhWire.env cs`)

`EcdhWire.env cs` (hist's `Model/EcdhWire.lean`) identifies `Curve` OBJECTS with their index in the history's curve list
`cs` and builds its key constructors from `Model/Keys.lean` with `KeysWire.modelExt`: the byte-string loaders on `cs[c]`,
the DER / PEM loaders followed by `locate` (the decoded key's curve is looked up in `cs`; a curve that is not in the
history is a driver artefact `.other`).  Because its curve type is `Nat`, it is not an instance of `LoadersAreKeys`
(curve type `Keys.Curve`); the totality statement is proved for it directly, from the same loader lemmas.
-/
namespace KeysP
open Keys Ecdh

theorem fromString_curve (E : Ext) (c : Curve) (s : Bytes) (v : Bool) (k : VK) (h : VK.fromString E c s v = .ok k) :
    k.curve = c := by
  unfold VK.fromString at h
  split at h
  · cases h
  · rename_i x y _
    unfold fromPublicPoint at h
    split at h
    · cases h
    · split at h
      · cases h
      · split at h
        · cases h
        · split at h
          · cases h
          · injection h with h; subst h; rfl

theorem vk_fromDer_curve_mem (E : Ext) (s : Bytes) (k : VK) (h : VK.fromDer E s = .ok k) : k.curve ∈ Gen.curveTable := by
  obtain ⟨c, hc, pt, _, _, hfs⟩ := vk_fromDer_ok E s k h
  rw [fromString_curve E c pt true k hfs]; exact hc

theorem vk_fromPem_curve_mem (E : Ext) (s : Bytes) (k : VK) (h : VK.fromPem E s = .ok k) : k.curve ∈ Gen.curveTable := by
  unfold VK.fromPem at h
  split at h
  · cases h
  · exact vk_fromDer_curve_mem E _ k h

theorem sk_fromString_curve (E : Ext) (c : Curve) (s : Bytes) (k : SK) (h : SK.fromString E c s = .ok k) : k.curve = c := by
  unfold SK.fromString at h
  split at h
  · cases h
  · split at h
    · cases h
    · exact (fromSecretExponent_wf E c _ k h).2.1

theorem tail_curve_mem (E : Ext) (version : Nat) (s : Bytes) (curve : Option Curve)
    (hcv : ∀ c, curve = some c → c ∈ Gen.curveTable) (k : SK) (h : SK.ecPrivateKeyTail E version s curve = .ok k) :
    k.curve ∈ Gen.curveTable := by
  unfold SK.ecPrivateKeyTail at h
  split at h
  · cases h
  obtain ⟨⟨privkeyStr, s'⟩, _, h⟩ := bind_ok h
  simp only at h
  obtain ⟨c, hc, h⟩ := bind_ok h
  have hmem : c ∈ Gen.curveTable := by
    cases curve with
    | some c0 =>
      simp only at hc
      injection hc with hc; subst hc
      exact hcv _ rfl
    | none =>
      simp only at hc
      obtain ⟨⟨tag, curveOidStr, rest⟩, _, hc⟩ := bind_ok hc
      simp only at hc
      split at hc
      · cases hc
      obtain ⟨⟨curveOid, empty⟩, _, hc⟩ := bind_ok hc
      simp only at hc
      split at hc
      · cases hc
      · exact (findCurve_ok hc).1
  rw [sk_fromString_curve E c _ k h]; exact hmem

theorem sk_fromDer_curve_mem (E : Ext) (s : Bytes) (k : SK) (h : SK.fromDer E s = .ok k) : k.curve ∈ Gen.curveTable := by
  unfold SK.fromDer at h
  obtain ⟨⟨s1, empty⟩, _, h⟩ := bind_ok h
  simp only at h
  split at h
  · cases h
  obtain ⟨⟨version, s2⟩, _, h⟩ := bind_ok h
  simp only at h
  split at h
  · split at h
    · cases h
    obtain ⟨⟨sequence, s3⟩, _, h⟩ := bind_ok h
    simp only at h
    obtain ⟨⟨algorithmOid, algorithmIdentifier⟩, _, h⟩ := bind_ok h
    simp only at h
    obtain ⟨⟨curveOid, empty2⟩, _, h⟩ := bind_ok h
    simp only at h
    obtain ⟨curve, hcv, h⟩ := bind_ok h
    split at h
    · cases h
    split at h
    · cases h
    obtain ⟨⟨s4, _⟩, _, h⟩ := bind_ok h
    simp only at h
    obtain ⟨⟨s5, empty3⟩, _, h⟩ := bind_ok h
    simp only at h
    split at h
    · cases h
    obtain ⟨⟨version2, s6⟩, _, h⟩ := bind_ok h
    simp only at h
    refine tail_curve_mem E version2 s6 (some curve) ?_ k h
    intro c hc; injection hc with hc; subst hc; exact (findCurve_ok hcv).1
  · exact tail_curve_mem E version s2 none (fun c hc => by cases hc) k h

theorem sk_fromPem_curve_mem (E : Ext) (s : Bytes) (k : SK) (h : SK.fromPem E s = .ok k) : k.curve ∈ Gen.curveTable := by
  unfold SK.fromPem at h
  simp only at h
  split at h
  · cases h
  · split at h
    · cases h
    · exact sk_fromDer_curve_mem E _ k h

/-- every curve of the generated table is one of the curve objects of the history -/
def CoversTable (cs : Array EcdhWire.CParams) : Prop :=
  ∀ c ∈ Gen.curveTable, (EcdhWire.indexOfCurve cs c).isSome = true

theorem locate_err {α β : Type} (cs : Array EcdhWire.CParams) (hcov : CoversTable cs) (r : Res α) (crv : α → Keys.Curve)
    (f : Nat → α → β) (hmem : ∀ k, r = .ok k → crv k ∈ Gen.curveTable) (hr : ∀ e, r = .error e → Documented e) (e : PyErr)
    (h : EcdhWire.locate cs r crv f = .error e) : Documented e := by
  unfold EcdhWire.locate at h
  cases r with
  | error e' => simp only at h; injection h with h; subst h; exact hr _ rfl
  | ok k =>
    simp only at h
    have := hcov _ (hmem k rfl)
    cases hi : EcdhWire.indexOfCurve cs (crv k) with
    | none => rw [hi] at this; cases this
    | some i => rw [hi] at h; cases h

theorem loadPrivateN_err (s : Ecdh.State Nat EcdhWire.WPt) (sk : Ecdh.SKey Nat EcdhWire.WPt) (e : PyErr)
    (h : (Ecdh.loadPrivate s sk).2 = .error e) : e = .invalidCurve := by
  unfold Ecdh.loadPrivate at h
  cases hc : s.curve with
  | none =>
    simp only [hc] at h
    split at h
    · injection h with h; exact h.symm
    · cases h
  | some c =>
    simp only [hc] at h
    split at h
    · injection h with h; exact h.symm
    · cases h

theorem loadPublicN_err (s : Ecdh.State Nat EcdhWire.WPt) (vk : Ecdh.VKey Nat EcdhWire.WPt) (e : PyErr)
    (h : (Ecdh.loadPublic s vk).2 = .error e) : e = .invalidCurve := by
  unfold Ecdh.loadPublic at h
  cases hc : s.curve with
  | none =>
    simp only [hc] at h
    split at h
    · injection h with h; exact h.symm
    · cases h
  | some c =>
    simp only [hc] at h
    split at h
    · injection h with h; exact h.symm
    · cases h

theorem viaLoaderN_err {K : Type} (s : Ecdh.State Nat EcdhWire.WPt) (r : Res K)
    (load : Ecdh.State Nat EcdhWire.WPt → K → Ecdh.State Nat EcdhWire.WPt × Res (Ecdh.Out Nat EcdhWire.WPt))
    (hr : ∀ e, r = .error e → Documented e) (hl : ∀ s k e, (load s k).2 = .error e → e = .invalidCurve) (e : PyErr)
    (h : (Ecdh.viaLoader s r load).2 = .error e) : EcdhDocumented e := by
  cases r with
  | error e' =>
    simp only [Ecdh.viaLoader] at h
    injection h with h; subst h
    exact Or.inl (hr _ rfl)
  | ok k =>
    simp only [Ecdh.viaLoader] at h
    exact Or.inr (hl _ _ _ h)

theorem map_err {α β : Type} {r : Res α} {f : α → β} {e : PyErr} (h : r.map f = .error e) : r = .error e := by
  cases r with
  | error e' => simp only [Except.map] at h; injection h with h; rw [h]
  | ok a => simp only [Except.map] at h; cases h

/-- **the six ECDH loaders of the driver's environment**: hypotheses — the field primes of the table are prime (for the
square-root contract), the history's curve objects are rows of the table and cover it -/
theorem ecdh_driver_loaders_err (cs : Array EcdhWire.CParams) (hprime : ∀ c ∈ Gen.curveTable, c.p.Prime)
    (hrows : ∀ i, i < cs.size → cs[i]! ∈ Gen.curveTable) (hcov : CoversTable cs)
    (s : Ecdh.State Nat EcdhWire.WPt) (b : Bytes) (e : PyErr) :
    ((Ecdh.step (EcdhWire.env cs) s (.loadPrivDer b)).2 = .error e → EcdhDocumented e) ∧
    ((Ecdh.step (EcdhWire.env cs) s (.loadPrivPem b)).2 = .error e → EcdhDocumented e) ∧
    ((Ecdh.step (EcdhWire.env cs) s (.loadPubDer b)).2 = .error e → EcdhDocumented e) ∧
    ((Ecdh.step (EcdhWire.env cs) s (.loadPubPem b)).2 = .error e → EcdhDocumented e) ∧
    (∀ c, s.curve = some c →
      ((Ecdh.step (EcdhWire.env cs) s (.loadPrivBytes b)).2 = .error e → EcdhDocumented e) ∧
      (c < cs.size → (Ecdh.step (EcdhWire.env cs) s (.loadPubBytes b)).2 = .error e → EcdhDocumented e)) ∧
    (s.curve = none → (Ecdh.step (EcdhWire.env cs) s (.loadPrivBytes b)).2 = .error .noCurve) := by
  have hsq : ∀ c ∈ Gen.curveTable, SqrtSpec KeysWire.modelExt.sqrtModP c.p := by
    intro c hc
    have hp := hprime c hc
    have hpos := table_p_pos c hc
    have hodd : c.p ≠ 2 := by
      have : ∀ c ∈ Gen.curveTable, c.p ≠ 2 := by decide +kernel
      exact this c hc
    exact sqrtSpec_modelExt c.p hp hodd
  refine ⟨?_, ?_, ?_, ?_, ?_, ?_⟩
  · intro h
    simp only [Ecdh.step, EcdhWire.env] at h
    exact viaLoaderN_err s _ _ (fun e he => locate_err cs hcov _ _ _
      (fun k hk => sk_fromDer_curve_mem _ b k hk) (fun e he => sk_fromDer_err' _ b e he) e he) loadPrivateN_err e h
  · intro h
    simp only [Ecdh.step, EcdhWire.env] at h
    exact viaLoaderN_err s _ _ (fun e he => locate_err cs hcov _ _ _
      (fun k hk => sk_fromPem_curve_mem _ b k hk) (fun e he => sk_fromPem_err' _ b e he) e he) loadPrivateN_err e h
  · intro h
    simp only [Ecdh.step, EcdhWire.env] at h
    exact viaLoaderN_err s _ _ (fun e he => locate_err cs hcov _ _ _
      (fun k hk => vk_fromDer_curve_mem _ b k hk) (fun e he => vk_fromDer_err _ hsq b e he) e he) loadPublicN_err e h
  · intro h
    simp only [Ecdh.step, EcdhWire.env] at h
    exact viaLoaderN_err s _ _ (fun e he => locate_err cs hcov _ _ _
      (fun k hk => vk_fromPem_curve_mem _ b k hk) (fun e he => vk_fromPem_err _ hsq b e he) e he) loadPublicN_err e h
  · intro c hc
    constructor
    · intro h
      simp only [Ecdh.step, hc, EcdhWire.env] at h
      exact viaLoaderN_err s _ _
        (fun e he => Or.inr (Or.inl (sk_fromString_err' _ _ b e (map_err he)))) loadPrivateN_err e h
    · intro hlt h
      simp only [Ecdh.step, hc, EcdhWire.env, if_pos hlt] at h
      have hm := hrows c hlt
      exact viaLoaderN_err s _ _
        (fun e he => Or.inr (Or.inl (fromString_err _ _ (table_p_pos _ hm) (hsq _ hm) b true e (map_err he))))
        loadPublicN_err e h
  · intro hc
    simp only [Ecdh.step, hc]

end KeysP
