import Proofs.EcdsaInstToy
import Proofs.EcdsaInstRecover
import Proofs.EcdsaInstNt
import Proofs.EcdsaRecover2
/-!
# Proofs.EcdsaInstToyRec — closed, kernel-evaluated instances of the ECDSA theorems on the model of the REAL point classes
(toy curve y² = x³ + x + 6 over 𝔽₁₁, G = (2, 7), n = 13, driver token `11,1,6,2,7,13,1,j`)
-/

namespace Ecdsa.OnCurve
open Curve Jac GroupInterface WeierstrassCurve

/-- the abscissa of `k • G` read off the model: if the model's `k * G` is an object whose `x()` is `x`, then `x(k•G) = x` -/
theorem xc_of_model {p : ℕ} [Fact p.Prime] {a b : ℤ} (c : Affine.Crv) (C : Ctx p a b) (M : Matches c C) (k : ℤ) (hk : ¬ c.n ∣ k)
    (R : Pt) (x : ℤ) (hR : (ops c).mulG k = .ok R) (hx : (ops c).xOf R = .ok x) : xcOf (k • C.G) = some x := by
  have PC := pointOpsCorrect c C M
  obtain ⟨R', hR', vR, dR⟩ := PC.mulG k
  rw [hR] at hR'; injection hR' with hR'; subst hR'
  have hne : den C R ≠ 0 := by rw [dR]; exact fun h => hk ((PC.smul_eq_zero_iff k).mp h)
  obtain ⟨x', hx', hxc⟩ := PC.xOf R vR hne
  rw [hx] at hx'; injection hx' with hx'; subst hx'
  rw [← dR]; exact hxc

set_option maxRecDepth 4000 in
/-- a closed honest signature on the REAL point model (toy curve F₁₁, G = (2,7), n = 13): secret 3, e = 5, nonce 2,
2•G = (5, 2), signature (5, 10) — evaluated by the kernel through `PointJacobi.__mul__` with the generator table -/
theorem toy_honest : ∃ C : Ctx 11 1 6, Matches toyCrv C ∧ Honest (ops toyCrv) C.G xcOf 3 5 2 5 10 5 := by
  obtain ⟨C, M⟩ := toy_matches
  refine ⟨C, M, ⟨by decide, by decide, by decide +kernel, ?_, by decide⟩⟩
  exact xc_of_model toyCrv C M 2 (by decide) (.jac ⟨crvOf toyCrv, 5, 2, 1, some 13, false⟩) 5 (by decide +kernel) (by decide +kernel)

end Ecdsa.OnCurve
