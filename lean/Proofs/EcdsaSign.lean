import Proofs.EcdsaGroup
/-!
# Proofs.EcdsaSign — `Private_key.sign` computes the standard (r, s)
-/
namespace Ecdsa

variable {P : Type} {𝔾 : Type} [AddCommGroup 𝔾]
variable {ops : PointOps P} {G : 𝔾} {den : P → 𝔾} {xc : 𝔾 → Option ℤ} {valid : P → Prop}

/-- the nonce point: whichever of `kt * G`, `ks * G` the bit-length test selects, it denotes `k • G` -/
theorem noncePoint_spec (C : PointOpsCorrect ops G den xc valid) (k : ℤ) :
    ∃ R, noncePoint ops k = .ok R ∧ valid R ∧ den R = k • G := by
  unfold noncePoint
  simp only
  split
  · obtain ⟨R, h1, h2, h3⟩ := C.mulG (Gen.Ecdsa.sign_kt (Gen.Ecdsa.sign_ks k ops.order) ops.order)
    refine ⟨R, h1, h2, ?_⟩
    rw [h3]; simp only [Gen.Ecdsa.sign_kt, Gen.Ecdsa.sign_ks]
    rw [add_smul, add_smul, C.nG, add_zero, add_zero]
  · obtain ⟨R, h1, h2, h3⟩ := C.mulG (Gen.Ecdsa.sign_ks k ops.order)
    refine ⟨R, h1, h2, ?_⟩
    rw [h3]; simp only [Gen.Ecdsa.sign_ks]
    rw [add_smul, C.nG, add_zero]

/-- the standard signature integers for nonce `k`, nonce-point abscissa `x`: `r = x mod n`, `s = k⁻¹ (e + r d) mod n` -/
noncomputable def stdR (n x : ℤ) : ℤ := x % n
noncomputable def stdS (n k e r d : ℤ) : ℤ := invZ n k * (e + r * d) % n

/-- **C03 core.** For every secret `d`, every hash integer `e` and every nonce not divisible by `n`:
`Private_key.sign` returns exactly the standard pair, or `RSZeroError` exactly when the standard `r` or `s` is 0.
(The `k + n` / `k + 2n` blinding is irrelevant: both denote `k • G`.) -/
theorem sign_spec (C : PointOpsCorrect ops G den xc valid) (d e randomK : ℤ) (hk : ¬ ops.order ∣ randomK) :
    ∃ x, xc (randomK • G) = some x ∧
      sign ops d e randomK =
        (if stdR ops.order x = 0 ∨ stdS ops.order (randomK % ops.order) e (stdR ops.order x) d = 0 then .error .rsZero
         else .ok (stdR ops.order x, stdS ops.order (randomK % ops.order) e (stdR ops.order x) d)) := by
  have hn := C.n_pos
  obtain ⟨R, hR, hv, hden⟩ := noncePoint_spec C (randomK % ops.order)
  rw [C.smul_mod] at hden
  have hne : den R ≠ 0 := by rw [hden]; exact fun h => hk ((C.smul_eq_zero_iff _).mp h)
  obtain ⟨x, hx, hxc⟩ := C.xOf R hv hne
  rw [hden] at hxc
  refine ⟨x, hxc, ?_⟩
  have hkk : Gen.Ecdsa.sign_k randomK ops.order = randomK % ops.order := pmod_eq_emod _ _ hn
  have hk1 : 1 ≤ randomK % ops.order := by
    have := Int.emod_nonneg randomK (ne_of_gt hn)
    have : randomK % ops.order ≠ 0 := fun h => hk (Int.dvd_of_emod_eq_zero h)
    omega
  have hk2 : randomK % ops.order < ops.order := Int.emod_lt_of_pos _ hn
  obtain ⟨hinv, _, _, _⟩ := inverseMod_eq_invZ C.n_prime hk1 hk2
  have hs : Gen.Ecdsa.sign_s (invZ ops.order (randomK % ops.order)) e d (Gen.Ecdsa.sign_r x ops.order) ops.order
      = stdS ops.order (randomK % ops.order) e (stdR ops.order x) d := by
    simp only [Gen.Ecdsa.sign_s, Gen.Ecdsa.sign_r, stdS, stdR]
    change pmod _ _ = _
    rw [pmod_eq_emod _ _ hn]
    change _ * (e + pmod _ _) % _ = _
    rw [pmod_eq_emod _ _ hn]
    change _ * (e + d * pmod _ _ % _) % _ = _
    rw [pmod_eq_emod _ _ hn]
    apply Int.ModEq.mul_left
    apply Int.ModEq.add_left
    rw [mul_comm]
    exact Int.mod_modEq _ _
  have hr : Gen.Ecdsa.sign_r x ops.order = stdR ops.order x := by
    simp only [Gen.Ecdsa.sign_r, stdR]; exact pmod_eq_emod _ _ hn
  rw [hr] at hs
  unfold sign
  simp only [hkk, hR, hx, hinv, bind, Except.bind, hs, Gen.Ecdsa.sign_r_zero, Gen.Ecdsa.sign_s_zero, hr]
  by_cases h1 : stdR ops.order x = 0
  · simp [h1]
  · by_cases h2 : stdS ops.order (randomK % ops.order) e (stdR ops.order x) d = 0
    · simp [h1, h2]
    · simp [h1, h2]

end Ecdsa
