import Model.NumberTheory
/-! boolean check used to DECIDE exactness of `is_prime` on a small range above the table (kernel evaluation) -/
namespace NTSmall
open NT

/-- trial division by the primes below 64: exact for `n < 4096` -/
def tdB (n : Nat) : Bool :=
  2 ≤ n && [2, 3, 5, 7, 11, 13, 17, 19, 23, 29, 31, 37, 41, 43, 47, 53, 59, 61].all fun d => n % d != 0 || n == d

def okIs (r : Res Bool) (b : Bool) : Bool :=
  match r with
  | .ok v => v == b
  | .error _ => false

/-- `is_prime` with 40 rounds (`lg = 0`) agrees with trial division on `[lo, hi)` -/
def agree (lo hi : Nat) : Bool :=
  (List.range (hi - lo)).all fun i => okIs (isPrime (fun _ => 0) ((lo + i : Nat) : Int)) (tdB (lo + i))

end NTSmall
