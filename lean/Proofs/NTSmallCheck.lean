import Model.NumberTheory
/-! boolean check used to DECIDE exactness of `is_prime` on a small range above the table (kernel evaluation) -/
namespace NTSmall
open NT

/-- trial division by the primes below 64: exact for `n < 4096` -/
def tdB (n : Nat) : Bool :=
  2 ≤ n && [2, 3, 5, 7, 11, 13, 17, 19, 23, 29, 31, 37, 41, 43, 47, 53, 59, 61].all fun d => n % d != 0 || n == d

def okIs (r : Res Bool) (b : Bool) : Bool :=
  match r with
  | .ok v => v == b
  | .error _ => false

/-- `is_prime` with 40 rounds (`lg = 0`) agrees with trial division on `[lo, hi)` -/
def agree (lo hi : Nat) : Bool :=
  (List.range (hi - lo)).all fun i => okIs (isPrime (fun _ => 0) ((lo + i : Nat) : Int)) (tdB (lo + i))

/-- trial division by the primes below 256: exact for `n < 65536` -/
def tdC (n : Nat) : Bool :=
  2 ≤ n && [2, 3, 5, 7, 11, 13, 17, 19, 23, 29, 31, 37, 41, 43, 47, 53, 59, 61, 67, 71, 73, 79, 83, 89, 97, 101, 103, 107, 109, 113, 127, 131, 137, 139, 149, 151, 157, 163, 167, 173, 179, 181, 191, 193, 197, 199, 211, 223, 227, 229, 233, 239, 241, 251].all fun d => n % d != 0 || n == d

/-- `is_prime` with 40 rounds (`lg = 0`) agrees with trial division (primes below 256) on `[lo, hi)` -/
def agreeC (lo hi : Nat) : Bool :=
  (List.range (hi - lo)).all fun i => okIs (isPrime (fun _ => 0) ((lo + i : Nat) : Int)) (tdC (lo + i))

/-- the statement a chunk establishes -/
def GoodC (lo hi : Nat) : Prop := ∀ n : Nat, lo ≤ n → n < hi → isPrime (fun _ => 0) (n : Int) = .ok (tdC n)

theorem goodC_of_agree {lo hi : Nat} (h : agreeC lo hi = true) : GoodC lo hi := by
  intro n h1 h2
  simp only [agreeC, List.all_eq_true, List.mem_range] at h
  have := h (n - lo) (by omega)
  rw [show lo + (n - lo) = n by omega] at this
  unfold okIs at this
  split at this
  · rename_i v hv; rw [hv]; simp at this; rw [this]
  · cases this

theorem GoodC.trans {a b c : Nat} (h1 : GoodC a b) (h2 : GoodC b c) : GoodC a c := by
  intro n hn1 hn2
  by_cases h : n < b
  · exact h1 n hn1 h
  · exact h2 n (by omega) hn2

end NTSmall
