import Proofs.EcdsaGroup
/-!
# Proofs.EcdsaVerify — `Public_key.verifies` decides the FIPS 186-4 / SEC 1 verification rule
-/
namespace Ecdsa

variable {P : Type} {𝔾 : Type} [AddCommGroup 𝔾]
variable {ops : PointOps P} {G : 𝔾} {den : P → 𝔾} {xc : 𝔾 → Option ℤ} {valid : P → Prop}

/-- FIPS 186-4 §6.4.2 / SEC 1 §4.1.4: `1 ≤ r, s ≤ n−1`, `w = s⁻¹ mod n`, `u₁ = e·w mod n`, `u₂ = r·w mod n`,
`R = u₁G + u₂Q ≠ 𝒪`, `x(R) mod n = r` -/
def Fips (n : ℤ) (G Q : 𝔾) (xc : 𝔾 → Option ℤ) (e r s : ℤ) : Prop :=
  1 ≤ r ∧ r ≤ n - 1 ∧ 1 ≤ s ∧ s ≤ n - 1 ∧
    ((e * invZ n s) % n) • G + ((r * invZ n s) % n) • Q ≠ 0 ∧
    ∃ x, xc (((e * invZ n s) % n) • G + ((r * invZ n s) % n) • Q) = some x ∧ x % n = r

theorem combine_spec (C : PointOpsCorrect ops G den xc valid) (u1 u2 : ℤ) (Q : P) (hQ : valid Q) :
    ∃ R, combine ops u1 Q u2 = .ok R ∧ valid R ∧ den R = u1 • G + u2 • den Q := by
  unfold combine
  split
  · rename_i h; exact C.mulAddG h u1 Q u2 hQ
  · obtain ⟨A, hA, vA, dA⟩ := C.mulG u1
    obtain ⟨B, hB, vB, dB⟩ := C.mul u2 Q hQ
    obtain ⟨R, hR, vR, dR⟩ := C.add A B vA vB
    refine ⟨R, ?_, vR, by rw [dR, dA, dB]⟩
    simp [hA, hB, hR, bind, Except.bind]

/-- **C02 core.** `verifies` never fails and returns `True` exactly on the FIPS predicate -/
theorem verifies_spec (C : PointOpsCorrect ops G den xc valid) (Q : P) (hQ : valid Q) (e r s : ℤ) :
    ∃ b, verifies ops Q e r s = .ok b ∧ (b = true ↔ Fips ops.order G (den Q) xc e r s) := by
  have hn := C.n_pos
  unfold verifies
  simp only
  by_cases hr : Gen.Ecdsa.verifies_r_out r ops.order = true
  · refine ⟨false, by simp [hr], ?_⟩
    simp only [Gen.Ecdsa.verifies_r_out, Bool.or_eq_true, decide_eq_true_eq] at hr
    simp only [Bool.false_eq_true, false_iff]
    rintro ⟨h1, h2, -⟩; omega
  by_cases hs : Gen.Ecdsa.verifies_s_out s ops.order = true
  · refine ⟨false, by simp [hr, hs], ?_⟩
    simp only [Gen.Ecdsa.verifies_s_out, Bool.or_eq_true, decide_eq_true_eq] at hs
    simp only [Bool.false_eq_true, false_iff]
    rintro ⟨-, -, h1, h2, -⟩; omega
  have hr' : 1 ≤ r ∧ r ≤ ops.order - 1 := by
    simp only [Gen.Ecdsa.verifies_r_out, Bool.or_eq_true, decide_eq_true_eq] at hr; omega
  have hs' : 1 ≤ s ∧ s ≤ ops.order - 1 := by
    simp only [Gen.Ecdsa.verifies_s_out, Bool.or_eq_true, decide_eq_true_eq] at hs; omega
  obtain ⟨hinv, _, _, _⟩ := inverseMod_eq_invZ C.n_prime hs'.1 (by omega)
  have hu1 : Gen.Ecdsa.verifies_u1 e (invZ ops.order s) ops.order = (e * invZ ops.order s) % ops.order :=
    pmod_eq_emod _ _ hn
  have hu2 : Gen.Ecdsa.verifies_u2 r (invZ ops.order s) ops.order = (r * invZ ops.order s) % ops.order :=
    pmod_eq_emod _ _ hn
  obtain ⟨R, hR, vR, dR⟩ := combine_spec C ((e * invZ ops.order s) % ops.order) ((r * invZ ops.order s) % ops.order) Q hQ
  simp only [hr, hs, hinv, hu1, hu2, hR, bind, Except.bind, Bool.false_eq_true, if_false]
  by_cases hinf : ops.isInfinity R = true
  · refine ⟨false, by simp [hinf], ?_⟩
    simp only [Bool.false_eq_true, false_iff]
    rintro ⟨-, -, -, -, hne, -⟩
    exact hne (by rw [← dR]; exact (C.isInf R vR).mp hinf)
  · have hne : den R ≠ 0 := fun h => hinf ((C.isInf R vR).mpr h)
    obtain ⟨x, hx, hxc⟩ := C.xOf R vR hne
    refine ⟨Gen.Ecdsa.verifies_ret (Gen.Ecdsa.verifies_v x ops.order) r, by simp [hinf, hx], ?_⟩
    have hv : Gen.Ecdsa.verifies_v x ops.order = x % ops.order := pmod_eq_emod _ _ hn
    simp only [Gen.Ecdsa.verifies_ret, hv, decide_eq_true_eq]
    rw [dR] at hne hxc
    constructor
    · intro h
      exact ⟨hr'.1, hr'.2, hs'.1, hs'.2, hne, x, hxc, h⟩
    · rintro ⟨-, -, -, -, -, x', hx', h⟩
      rw [hxc] at hx'
      cases hx'
      exact h

end Ecdsa
