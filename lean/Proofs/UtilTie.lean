import Generated.UtilGuards
import Proofs.UtilSkel
import Proofs.UtilNum
/-!
# Proofs.UtilTie — the tests and integer expressions of the codec part of `Model/Util.lean` are the ones
`harness/translate/gen_der.py` extracts from the current `src/ecdsa/util.py` (`Generated/UtilGuards.lean`).
-/
set_option linter.unusedSimpArgs false
namespace C12.Tie
open Gen.UtilCodec Util

theorem skeleton :
    skel_orderlen = Util.Skel.orderlen ∧ skel_number_to_string = Util.Skel.number_to_string
    ∧ skel_number_to_string_crop = Util.Skel.number_to_string_crop ∧ skel_string_to_number = Util.Skel.string_to_number
    ∧ skel_string_to_number_fixedlen = Util.Skel.string_to_number_fixedlen
    ∧ skel_sigencode_strings = Util.Skel.sigencode_strings ∧ skel_sigencode_string = Util.Skel.sigencode_string
    ∧ skel_sigencode_der = Util.Skel.sigencode_der ∧ skel_sigdecode_string = Util.Skel.sigdecode_string
    ∧ skel_sigdecode_strings = Util.Skel.sigdecode_strings ∧ skel_sigdecode_der = Util.Skel.sigdecode_der :=
  ⟨rfl, rfl, rfl, rfl, rfl, rfl, rfl, rfl, rfl, rfl, rfl⟩

/-- `orderlen` is the generated expression at `len("%x" % order) = hexLen order` -/
theorem orderlen_expr (order : Nat) : ((orderlen order : Nat) : Int) = orderlen_ret0 (hexLen order) := by
  simp only [orderlen, orderlen_ret0]
  rw [Int.fdiv_eq_ediv_of_nonneg _ (by omega)]
  omega

/-- the format width `2 * l` and the `assert len(string) == l` of `number_to_string` / `string_to_number_fixedlen` -/
theorem number_to_string_guards (l len : Nat) :
    ((2 * l : Nat) : Int) = number_to_string_e0 l ∧ ((2 * l : Nat) : Int) = number_to_string_crop_e0 l
    ∧ decide (len = l) = number_to_string_assert0 len l
    ∧ decide (len = l) = string_to_number_fixedlen_assert0 len l := by
  simp only [number_to_string_e0, number_to_string_crop_e0, number_to_string_assert0, string_to_number_fixedlen_assert0]
  refine ⟨by omega, by omega, ?_, ?_⟩ <;> by_cases a : len = l <;> simp [a] <;> omega

/-- the length tests of the raw decoders -/
theorem sigdecode_guards (len l : Nat) :
    decide (len ≠ 2 * l) = sigdecode_string_if0 len l
    ∧ decide (len ≠ 2) = sigdecode_strings_if0 len
    ∧ decide (len ≠ l) = sigdecode_strings_if1 len l
    ∧ decide (len ≠ l) = sigdecode_strings_if2 len l := by
  simp only [sigdecode_string_if0, sigdecode_strings_if0, sigdecode_strings_if1, sigdecode_strings_if2]
  refine ⟨?_, ?_, ?_, ?_⟩
  · by_cases a : len = 2 * l <;> simp [a] <;> omega
  · by_cases a : len = 2 <;> simp [a] <;> omega
  · by_cases a : len = l <;> simp [a] <;> omega
  · by_cases a : len = l <;> simp [a] <;> omega

end C12.Tie
