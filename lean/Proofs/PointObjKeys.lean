import Proofs.PointObjOps
/-!
# Proofs.PointObjKeys — copies (pickle, copy.copy) and the key operations refine their abstract counterparts
-/
set_option linter.unusedSectionVars false
namespace PointObj
open Curve

variable {G : Type} [AddCommGroup G] [DecidableEq G]
variable {sp : ASpec G} {HS : PJ → List (Int × Int) → G → Prop} {HA : AffPt → G → Prop}

theorem SimOn.bind {α β α' β'} {pre : AHeap G → Prop} {R : α → β → Prop} {R' : α' → β' → Prop} {m : M α} {am : AM G β}
    {f : α → M α'} {af : β → AM G β'} (h1 : SimOn (HS := HS) (HA := HA) pre R m am)
    (h2 : ∀ a b, R a b → Sim (HS := HS) (HA := HA) R' (f a) (af b)) :
    SimOn (HS := HS) (HA := HA) pre R' (M.bind m f) (AM.bind am af) := by
  intro h ah hi hp
  have := h1 h ah hi hp
  unfold M.bind AM.bind
  rcases hm : m h with ⟨_ | a, h'⟩ <;> rcases ham : am ah with ⟨_ | b, ah'⟩ <;> simp only [hm, ham, Outcome] at this ⊢ <;>
    first | exact this | exact h2 a b this.1 h' ah' this.2

/-! ### copies -/

theorem copyPoint_sim (r : Ref) : SimEq HS HA (copyPoint r) (acopyPoint (G := G) r) := by
  intro h ah hi
  unfold copyPoint acopyPoint
  cases r with
  | inf => exact alloc_sim Rel.infc h ah hi
  | obj i =>
    simp only [M.bind_eq, AM.bind_eq, getHeap_bind_run, agetHeap_bind_run]
    rcases hi.get i with ⟨h1, h2⟩ | ⟨o, a, h1, h2, hr⟩
    · simp only [h1, h2]; exact Sim.raise (HS := HS) (HA := HA) (α := Ref) (β := Ref) (R := fun a b => a = b) _ h ah hi
    · simp only [h1, h2]
      cases hr with
      | pj hs => exact alloc_sim (Rel.pj hs) h ah hi
      | aff ha => exact alloc_sim (Rel.aff ha) h ah hi
      | infc => exact alloc_sim Rel.infc h ah hi
      | key g q => exact Sim.raise (HS := HS) (HA := HA) (α := Ref) (β := Ref) (R := fun a b => a = b) _ h ah hi
      | skey d vk => exact Sim.raise (HS := HS) (HA := HA) (α := Ref) (β := Ref) (R := fun a b => a = b) _ h ah hi

theorem copyKey_sim (k : Nat) : SimEq HS HA (copyKey k) (acopyKey (G := G) k) := by
  intro h ah hi
  unfold copyKey acopyKey
  simp only [M.bind_eq, AM.bind_eq, getHeap_bind_run, agetHeap_bind_run]
  have hraise := Sim.raise (HS := HS) (HA := HA) (α := Nat) (β := Nat) (R := fun a b => a = b) PyErr.other h ah hi
  rcases hi.get k with ⟨h1, h2⟩ | ⟨o, a, h1, h2, hr⟩
  · simp only [h1, h2]; exact hraise
  · simp only [h1, h2]
    cases hr with
    | pj hs => exact hraise
    | aff ha => exact hraise
    | infc => exact hraise
    | skey d vk => exact hraise
    | key g q =>
      refine Sim.bind (copyPoint_sim g) ?_ h ah hi
      rintro g' _ rfl
      have tail : ∀ q' : Ref, SimEq HS HA
          (do match ← M.alloc (.key g' q') with
              | .obj n => M.pure n
              | .inf => M.raise .other : M Nat)
          (do match ← AM.alloc (G := G) (.key g' q') with
              | .obj n => AM.pure n
              | .inf => AM.raise .other : AM G Nat) := by
        intro q'
        refine Sim.bind (alloc_sim (Rel.key g' q')) ?_
        rintro n _ rfl
        cases n with
        | inf => exact Sim.raise _
        | obj n => exact Sim.pure rfl
      by_cases hq : q = g
      · simp only [hq, if_true, M.bind_eq, AM.bind_eq, M.pure_bind, AM.pure_bind]
        exact tail g'
      · simp only [hq, if_false]
        refine Sim.bind (copyPoint_sim q) ?_
        rintro q' _ rfl
        exact tail q'

theorem pickleObj_sim (r : Ref) : SimEq HS HA (pickleObj r) (apickleObj (G := G) r) := by
  intro h ah hi
  unfold pickleObj apickleObj
  cases r with
  | inf => dsimp only; exact copyPoint_sim Ref.inf h ah hi
  | obj i =>
    simp only [M.bind_eq, AM.bind_eq, getHeap_bind_run, agetHeap_bind_run]
    rcases hi.get i with ⟨h1, h2⟩ | ⟨o, a, h1, h2, hr⟩
    · simp only [h1, h2]; exact Sim.raise (HS := HS) (HA := HA) (α := Ref) (β := Ref) (R := fun a b => a = b) _ h ah hi
    · simp only [h1, h2]
      cases hr with
      | pj hs => exact copyPoint_sim _ h ah hi
      | aff ha => exact copyPoint_sim _ h ah hi
      | infc => exact copyPoint_sim _ h ah hi
      | key g q =>
        refine Sim.bind (copyKey_sim i) ?_ h ah hi
        rintro n _ rfl
        exact Sim.pure rfl
      | skey d vk =>
        refine Sim.bind (copyKey_sim vk) ?_ h ah hi
        rintro n _ rfl
        exact alloc_sim (Rel.skey d n)

/-! ### keys -/

theorem keyPoint_sim (k : Nat) :
    SimEq HS HA (do let (_, q) ← getKey k; M.pure q) (do let (_, q) ← agetKey (G := G) k; AM.pure q) := by
  refine Sim.bind (getKey_sim k) ?_
  rintro ⟨g, q⟩ _ rfl
  exact Sim.pure rfl

theorem skVerifyingKey_sim (sk : Nat) :
    SimEq HS HA (do
      let h ← M.getHeap
      match h[sk]? with
      | some (.skey _ vk) => M.pure (Ref.obj vk)
      | _ => M.raise .other)
    (do
      let h ← AM.getHeap (G := G)
      match h[sk]? with
      | some (.skey _ vk) => AM.pure (Ref.obj vk)
      | _ => AM.raise .other) := by
  intro h ah hi
  simp only [M.bind_eq, AM.bind_eq, getHeap_bind_run, agetHeap_bind_run]
  rcases hi.get sk with ⟨h1, h2⟩ | ⟨o, a, h1, h2, hr⟩
  · simp only [h1, h2]; sim_same hi
  · simp only [h1, h2]
    cases hr <;> sim_same hi

theorem keyEqObj_sim (hyp : RepIndep sp HS HA) (k1 k2 : Nat) :
    SimEq HS HA (keyEqObj k1 k2) (akeyEqObj (G := G) k1 k2) := by
  unfold keyEqObj akeyEqObj
  refine Sim.bind (getKey_sim k1) ?_
  rintro ⟨g1, q1⟩ _ rfl
  refine Sim.bind (getKey_sim k2) ?_
  rintro ⟨g2, q2⟩ _ rfl
  exact eqObj_sim hyp q1 q2

/-- `mkKeyObj` after the point object `q` of the key is determined -/
theorem mkKey_rest_sim (hyp : RepIndep sp HS HA) (g q : Ref) :
    SimEq HS HA
      (do
        let some x ← readX q | M.raise .other
        let some y ← readY q | M.raise .other
        let .jac G ← getPt g | M.raise .other
        let p := G.curve.p
        if Gen.Ecdsa.pubkey_x_out x p || Gen.Ecdsa.pubkey_y_out y p then M.raise .malformedPoint
        else if (match G.order with | some n => Gen.Ecdsa.pubkey_no_order n | none => true) then M.raise .malformedPoint
        else M.alloc (.key g q) : M Ref)
      (do
        let some x ← areadX sp q | AM.raise .other
        let some y ← areadY sp q | AM.raise .other
        let .jac _ go _ ← agetPt g | AM.raise .other
        let p := sp.c.p
        if Gen.Ecdsa.pubkey_x_out x p || Gen.Ecdsa.pubkey_y_out y p then AM.raise .malformedPoint
        else if (match go with | some n => Gen.Ecdsa.pubkey_no_order n | none => true) then AM.raise .malformedPoint
        else AM.alloc (.key g q) : AM G Ref) := by
  refine Sim.bind (readX_sim hyp q) ?_
  rintro x _ rfl
  cases x with
  | none => exact Sim.raise _
  | some x =>
    refine Sim.bind (readY_sim hyp q) ?_
    rintro y _ rfl
    cases y with
    | none => exact Sim.raise _
    | some y =>
      refine Sim.bind (getPt_sim g) ?_
      intro a b hab
      cases hab with
      | inf => exact Sim.raise _
      | aff ha => exact Sim.raise _
      | @jac P t gg hs =>
        dsimp only
        rw [hyp.hs_curve hs]
        by_cases h1 : (Gen.Ecdsa.pubkey_x_out x sp.c.p || Gen.Ecdsa.pubkey_y_out y sp.c.p) = true
        · simp only [h1, if_true]; exact Sim.raise _
        · simp only [h1, Bool.false_eq_true, if_false]
          by_cases h2 : (match P.order with | some n => Gen.Ecdsa.pubkey_no_order n | none => true) = true
          · simp only [h2, if_true]; exact Sim.raise _
          · simp only [h2, Bool.false_eq_true, if_false]; exact alloc_sim (Rel.key g q)

theorem mkKeyObj_sim (hyp : RepIndep sp HS HA) (g r : Ref) : SimEq HS HA (mkKeyObj g r) (amkKeyObj sp g r) := by
  unfold mkKeyObj amkKeyObj
  refine Sim.bind (getPt_sim r) ?_
  intro a b hab
  cases hab with
  | inf => exact Sim.raise _
  | jac hs => exact mkKey_rest_sim hyp g r
  | aff ha =>
    refine Sim.bind (fromAffineObj_sim hyp r false) ?_
    rintro q _ rfl
    exact mkKey_rest_sim hyp g q

theorem keyPrecompute_lazy_sim (hyp : RepIndep sp HS HA) (k : Nat) :
    Sim (HS := HS) (HA := HA) (fun _ _ => True) (keyPrecomputeObj k true) (akeyPrecomputeObj (G := G) k true) := by
  unfold keyPrecomputeObj akeyPrecomputeObj
  refine Sim.bind (getKey_sim k) ?_
  rintro ⟨g, q⟩ _ rfl
  refine Sim.bind (fromAffineObj_sim hyp q true) ?_
  rintro q' _ rfl
  refine Sim.bind (setCell_sim k (Rel.key g q')) ?_
  rintro _ _ _
  exact Sim.pure trivial

theorem keySerObj_sim (hyp : RepIndep sp HS HA) (k enc : Nat) :
    SimEq HS HA (keySerObj k enc) (akeySerObj sp k enc) := by
  unfold keySerObj akeySerObj
  refine Sim.bind (getKey_sim k) ?_
  rintro ⟨g, q⟩ _ rfl
  refine Sim.bind (getPt_sim q) ?_
  intro a b hab
  cases hab with
  | inf => exact Sim.raise _
  | aff ha => exact Sim.raise _
  | @jac P t gg hs =>
    dsimp only
    rw [hyp.hs_curve hs]
    refine Sim.bind (readX_sim hyp q) ?_
    rintro x _ rfl
    cases x with
    | none => exact Sim.raise _
    | some x =>
      refine Sim.bind Sim.lift ?_
      rintro xs _ rfl
      refine Sim.bind (readY_sim hyp q) ?_
      rintro y _ rfl
      cases y with
      | none => exact Sim.raise _
      | some y =>
        dsimp only
        by_cases h2 : enc = 2
        · simp only [h2, if_true]; exact Sim.pure rfl
        · simp only [h2, if_false]
          refine Sim.bind Sim.lift ?_
          rintro ys _ rfl
          by_cases h0 : enc = 0
          · simp only [h0, if_true]; exact Sim.pure rfl
          · by_cases h1 : enc = 1
            · simp only [h1, if_true]; simp; exact Sim.pure rfl
            · simp only [h0, h1, if_false]; exact Sim.pure rfl

/-- reading a `PointJacobi` operand and then multiplying it: the precondition of `mulObj_sim` holds by what was read -/
theorem mulObj_at (hyp : RepIndep sp HS HA) {h : Heap} {ah : AHeap G} (hi : Inv HS HA h ah) (r : Ref) (k : Int)
    {g : G} {o : Option Int} {gen : Bool} (hr : aptOf ah r = some (.jac g o gen)) :
    Outcome HS HA (fun a b => a = b) (mulObj r k h) (amulObj (G := G) r k ah) :=
  mulObj_sim hyp r k h ah hi (by intro g' o' hc; rw [hr] at hc; cases hc)

theorem M.bind_assoc' {α β γ} (m : M α) (f : α → M β) (g : β → M γ) :
    M.bind (M.bind m f) g = M.bind m (fun a => M.bind (f a) g) := by
  funext h
  unfold M.bind
  rcases m h with ⟨_ | a, h'⟩ <;> rfl

theorem AM.bind_assoc' {α β γ} (m : AM G α) (f : α → AM G β) (g : β → AM G γ) :
    AM.bind (AM.bind m f) g = AM.bind m (fun a => AM.bind (f a) g) := by
  funext h
  unfold AM.bind
  rcases m h with ⟨_ | a, h'⟩ <;> rfl

/-- continuing after a step whose outcome is known -/
theorem Outcome.bind {α β α' β'} {R : α → β → Prop} {R' : α' → β' → Prop} {m : M α} {am : AM G β}
    {f : α → M α'} {af : β → AM G β'} {h : Heap} {ah : AHeap G}
    (ho : Outcome HS HA R (m h) (am ah)) (h2 : ∀ a b, R a b → Sim (HS := HS) (HA := HA) R' (f a) (af b)) :
    Outcome HS HA R' (M.bind m f h) (AM.bind am af ah) := by
  unfold M.bind AM.bind
  rcases hm : m h with ⟨_ | a, h'⟩ <;> rcases ham : am ah with ⟨_ | b, ah'⟩ <;> simp only [hm, ham, Outcome] at ho ⊢ <;>
    first | exact ho | exact h2 a b ho.1 h' ah' ho.2

theorem getKey_bind_run {α} (h : Heap) (k : Nat) (f : Ref × Ref → M α) :
    M.bind (getKey k) f h = match h[k]? with
      | some (.key g q) => f (g, q) h
      | _ => (.error .other, h) := by
  unfold M.bind getKey
  rcases h[k]? with _ | o
  · rfl
  · cases o <;> rfl

theorem agetKey_bind_run {α} (ah : AHeap G) (k : Nat) (f : Ref × Ref → AM G α) :
    AM.bind (agetKey k) f ah = match ah[k]? with
      | some (.key g q) => f (g, q) ah
      | _ => (.error .other, ah) := by
  unfold AM.bind agetKey
  rcases ah[k]? with _ | o
  · rfl
  · cases o <;> rfl

/-- the tail of `Private_key.sign` once the nonce point `p1` is there -/
theorem sign_tail_sim (hyp : RepIndep sp HS HA) (p1 : Ref) (n d hash k : Int) :
    SimEq HS HA
      (do
        let some x ← readX p1 | M.raise .typeError
        let r := Gen.Ecdsa.sign_r x n
        if Gen.Ecdsa.sign_r_zero r then M.raise .rsZero
        else do
          let kinv ← M.lift (inverseMod k n)
          let s := Gen.Ecdsa.sign_s kinv hash d r n
          if Gen.Ecdsa.sign_s_zero s then M.raise .rsZero else M.pure (r, s) : M (Int × Int))
      (do
        let some x ← areadX sp p1 | AM.raise .typeError
        let r := Gen.Ecdsa.sign_r x n
        if Gen.Ecdsa.sign_r_zero r then AM.raise .rsZero
        else do
          let kinv ← AM.lift (inverseMod k n)
          let s := Gen.Ecdsa.sign_s kinv hash d r n
          if Gen.Ecdsa.sign_s_zero s then AM.raise .rsZero else AM.pure (r, s) : AM G (Int × Int)) := by
  refine Sim.bind (readX_sim hyp p1) ?_
  rintro x _ rfl
  cases x with
  | none => exact Sim.raise _
  | some x =>
    dsimp only
    by_cases hr : Gen.Ecdsa.sign_r_zero (Gen.Ecdsa.sign_r x n) = true
    · simp only [hr, if_true]; exact Sim.raise _
    · simp only [hr, Bool.false_eq_true, if_false]
      refine Sim.bind Sim.lift ?_
      rintro kinv _ rfl
      by_cases hs : Gen.Ecdsa.sign_s_zero (Gen.Ecdsa.sign_s kinv hash d (Gen.Ecdsa.sign_r x n) n) = true
      · simp only [hs, if_true]; exact Sim.raise _
      · simp only [hs, Bool.false_eq_true, if_false]; exact Sim.pure rfl

theorem skSignObj_sim (hyp : RepIndep sp HS HA) (sk : Nat) (hash rk : Int) :
    SimEq HS HA (skSignObj sk hash rk) (askSignObj sp sk hash rk) := by
  intro h ah hi
  unfold skSignObj askSignObj
  simp only [M.bind_eq, AM.bind_eq, getHeap_bind_run, agetHeap_bind_run]
  have hraise : ∀ e, Outcome HS HA (fun (a b : Int × Int) => a = b) (M.raise e h) (AM.raise (G := G) e ah) :=
    fun e => ⟨rfl, hi⟩
  rcases hi.get sk with ⟨h1, h2⟩ | ⟨o, a, h1, h2, hr⟩
  · simp only [h1, h2]; exact hraise _
  · simp only [h1, h2]
    cases hr with
    | pj hs => exact hraise _
    | aff ha => exact hraise _
    | infc => exact hraise _
    | key g q => exact hraise _
    | skey d vk =>
      dsimp only
      rw [getKey_bind_run, agetKey_bind_run]
      rcases hi.get vk with ⟨k1, k2⟩ | ⟨o, a, k1, k2, hr⟩
      · simp only [k1, k2]; exact hraise _
      · simp only [k1, k2]
        cases hr with
        | pj hs => exact hraise _
        | aff ha => exact hraise _
        | infc => exact hraise _
        | skey d vk => exact hraise _
        | key g q =>
          dsimp only
          rw [getPt_bind_run, agetPt_bind_run]
          rcases ptOf_rel hi g with ⟨p1, p2⟩ | ⟨v, b, p1, p2, hv⟩
          · simp only [p1, p2]; exact hraise _
          · simp only [p1, p2]
            cases hv with
            | inf => exact hraise _
            | aff ha => exact hraise _
            | @jac P t gg hs =>
              dsimp only
              cases hn : P.order with
              | none => exact hraise _
              | some n =>
                dsimp only
                by_cases hc : Gen.Ecdsa.sign_use_kt (Gen.Ecdsa.sign_ks (Gen.Ecdsa.sign_k rk n) n) n bitLen = true
                · simp only [hc, if_true]
                  exact Outcome.bind (mulObj_at hyp hi g _ p2) (by rintro p1' _ rfl; exact sign_tail_sim hyp p1' n d hash _)
                · simp only [hc, Bool.false_eq_true, if_false]
                  exact Outcome.bind (mulObj_at hyp hi g _ p2) (by rintro p1' _ rfl; exact sign_tail_sim hyp p1' n d hash _)

/-- the tail of `from_secret_exponent` once `generator * secexp` is there -/
theorem mkSKey_tail_sim (hyp : RepIndep sp HS HA) (g pt : Ref) (d : Int) :
    SimEq HS HA
      (do
        let pt ← (match ← getPt pt with
          | .jac _ => scaleObj pt
          | _ => (M.pure pt : M Ref))
        match ← mkKeyObj g pt with
        | .obj vk => M.alloc (.skey d vk)
        | .inf => M.raise .other : M Ref)
      (do
        let pt ← (match ← agetPt pt with
          | .jac _ _ _ => ascaleObj pt
          | _ => (AM.pure pt : AM G Ref))
        match ← amkKeyObj sp g pt with
        | .obj vk => AM.alloc (.skey d vk)
        | .inf => AM.raise .other : AM G Ref) := by
  have tail : ∀ pt' : Ref, SimEq HS HA
      (do match ← mkKeyObj g pt' with
          | .obj vk => M.alloc (.skey d vk)
          | .inf => M.raise .other : M Ref)
      (do match ← amkKeyObj sp g pt' with
          | .obj vk => AM.alloc (.skey d vk)
          | .inf => AM.raise .other : AM G Ref) := by
    intro pt'
    refine Sim.bind (mkKeyObj_sim hyp g pt') ?_
    rintro k _ rfl
    cases k with
    | inf => exact Sim.raise _
    | obj vk => exact alloc_sim (Rel.skey d vk)
  refine Sim.bind (getPt_sim pt) ?_
  intro a b hab
  cases hab with
  | inf => simp only [M.bind_eq, AM.bind_eq, M.pure_bind, AM.pure_bind]; exact tail pt
  | aff ha => simp only [M.bind_eq, AM.bind_eq, M.pure_bind, AM.pure_bind]; exact tail pt
  | jac hs =>
    refine Sim.bind (scaleObj_sim hyp pt) ?_
    rintro pt' _ rfl
    exact tail pt'

theorem mkSKeyObj_sim (hyp : RepIndep sp HS HA) (g : Ref) (d : Int) :
    SimEq HS HA (mkSKeyObj g d) (amkSKeyObj sp g d) := by
  intro h ah hi
  unfold mkSKeyObj amkSKeyObj
  simp only [M.bind_eq, AM.bind_eq]
  rw [getPt_bind_run, agetPt_bind_run]
  have hraise : ∀ e, Outcome HS HA (fun (a b : Ref) => a = b) (M.raise e h) (AM.raise (G := G) e ah) :=
    fun e => ⟨rfl, hi⟩
  rcases ptOf_rel hi g with ⟨p1, p2⟩ | ⟨v, b, p1, p2, hv⟩
  · simp only [p1, p2]; sim_same hi
  · simp only [p1, p2]
    cases hv with
    | inf => exact hraise _
    | aff ha => exact hraise _
    | @jac P t gg hs =>
      dsimp only
      cases hn : P.order with
      | none => exact hraise _
      | some n =>
        dsimp only
        by_cases hc : Gen.Ecdsa.secexp_bad d n = true
        · simp only [hc, if_true]; exact hraise _
        · simp only [hc, Bool.false_eq_true, if_false]
          exact Outcome.bind (mulObj_at hyp hi g d p2) (by rintro pt _ rfl; exact mkSKey_tail_sim hyp g pt d)

theorem getElem?_set_append_last {α} (l : List α) (x y : α) (k : Nat) (hk : k < l.length) :
    ((l ++ [x]).set k y)[l.length]? = some x := by
  rw [List.getElem?_set_ne (by omega)]
  simp

/-- `vk.precompute()` (eager): the point is replaced by a generator-flagged copy and multiplied once -/
theorem keyPrecompute_eager_sim (hyp : RepIndep sp HS HA) (k : Nat) :
    Sim (HS := HS) (HA := HA) (fun _ _ => True) (keyPrecomputeObj k false) (akeyPrecomputeObj (G := G) k false) := by
  intro h ah hi
  unfold keyPrecomputeObj akeyPrecomputeObj
  simp only [M.bind_eq, AM.bind_eq, Bool.false_eq_true, if_false]
  rw [getKey_bind_run, agetKey_bind_run]
  have hraise : ∀ e, Outcome HS HA (fun (_ _ : Unit) => True) (M.raise e h) (AM.raise (G := G) e ah) :=
    fun e => ⟨rfl, hi⟩
  rcases hi.get k with ⟨k1, k2⟩ | ⟨o, a, k1, k2, hr⟩
  · simp only [k1, k2]; sim_same hi
  · simp only [k1, k2]
    cases hr with
    | pj hs => exact hraise _
    | aff ha => exact hraise _
    | infc => exact hraise _
    | skey d vk => exact hraise _
    | key g q =>
      dsimp only
      have hk : k < ah.length := by
        rcases Nat.lt_or_ge k ah.length with hlt | hge
        · exact hlt
        · rw [List.getElem?_eq_none hge] at k2; cases k2
      unfold fromAffineObj afromAffineObj
      simp only [M.bind_eq, AM.bind_eq]
      rw [M.bind_assoc', AM.bind_assoc', getPt_bind_run, agetPt_bind_run]
      rcases ptOf_rel hi q with ⟨p1, p2⟩ | ⟨v, b, p1, p2, hv⟩
      · simp only [p1, p2]; sim_same hi
      · simp only [p1, p2]
        -- in both remaining cases a generator-flagged object `o'` (abstractly `a'`) is appended, cell `k` is
        -- redirected to it, and it is multiplied by 2
        have core : ∀ (o' : PJObj) (gg : G), HS o'.val o'.table gg →
            Outcome HS HA (fun (_ _ : Unit) => True)
              (M.bind (M.alloc (.pj o')) (fun q' => M.bind (M.setCell k (.key g q'))
                (fun _ => M.bind (mulObj q' 2) (fun _ => M.pure ()))) h)
              (AM.bind (AM.alloc (.pj gg o'.val.order o'.val.generator)) (fun q' => AM.bind (AM.setCell k (.key g q'))
                (fun _ => AM.bind (amulObj (G := G) q' 2) (fun _ => AM.pure ()))) ah) := by
          intro o' gg hs'
          have hlen := hi.length
          have hi1 := hi.append (Rel.pj hs')
          have hi2 := hi1.set k (Rel.key (HS := HS) (HA := HA) g (Ref.obj h.length))
          have hap : aptOf ((ah ++ [AObj.pj gg o'.val.order o'.val.generator]).set k (.key g (.obj h.length))) (.obj h.length)
              = some (.jac gg o'.val.order o'.val.generator) := by
            rw [hlen]
            show (match ((ah ++ [AObj.pj gg o'.val.order o'.val.generator]).set k (.key g (.obj ah.length)))[ah.length]? with
              | some (.pj g o gen) => some (AVal.jac g o gen)
              | some (.aff g o) => some (.aff g o)
              | some .infc => some .inf
              | _ => none) = _
            rw [getElem?_set_append_last _ _ _ _ hk]
          have := mulObj_at hyp hi2 (.obj h.length) 2 hap
          show Outcome HS HA _ (M.bind (mulObj (.obj h.length) 2) (fun _ => M.pure ()) ((h ++ [Obj.pj o']).set k (.key g (.obj h.length))))
            (AM.bind (amulObj (G := G) (.obj ah.length) 2) (fun _ => AM.pure ())
              ((ah ++ [AObj.pj gg o'.val.order o'.val.generator]).set k (.key g (.obj ah.length))))
          rw [← hlen]
          exact Outcome.bind this (fun _ _ _ => Sim.pure trivial)
        cases hv with
        | inf => exact hraise _
        | @jac P t gg hs =>
          simp only [(hyp.hs_xy hs).1, (hyp.hs_xy hs).2, M.lift_ok, M.bind_eq, M.pure_bind]
          exact core ⟨⟨P.curve, sp.ax gg, sp.ay gg, 1, P.order, true⟩, []⟩ gg (hyp.hs_fromXY true hs)
        | @aff A gg ha =>
          exact core ⟨pjFromAffine A true, []⟩ gg (hyp.ha_fromAffine true ha)

end PointObj
