import Proofs.EcdsaKeys
import Proofs.EcdsaRoundTrip
/-!
# Proofs.EcdsaRecoverBase — what public-key recovery needs of the point layer and of the square root,
the candidate ordinates, and the group algebra of recovery
-/
namespace Ecdsa

variable {P : Type} {𝔾 : Type} [AddCommGroup 𝔾]

/-- `(x, y)` satisfies the curve equation modulo `p` -/
def OnC (p a b x y : ℤ) : Prop := (y * y - (x ^ 3 + a * x + b)) % p = 0

/-- additional requirements for `Signature.recover_public_keys`: the constructor `PointJacobi(curve, x, y, 1, n)` on
in-range curve points, the curve equation behind `contains_point` and the x-coordinate, and canonical outputs -/
structure RecoverOpsCorrect (ops : PointOps P) (G : 𝔾) (den : P → 𝔾) (xc : 𝔾 → Option ℤ) (valid : P → Prop) : Prop
    extends PointOpsCorrect ops G den xc valid where
  containsPoint_iff : ∀ x y, ops.containsPoint x y = true ↔ OnC ops.p ops.a ops.b x y
  /-- a reduced pair on the curve **whose abscissa is that of a multiple of G** makes a valid, non-zero point object with
  that abscissa (no cofactor assumption: such a pair is ±(k•G)) -/
  mkPoint_valid : ∀ x y, 0 ≤ x → x < ops.p → 0 ≤ y → y < ops.p → ops.containsPoint x y = true →
    (∃ k : ℤ, xc (k • G) = some x) →
    valid (ops.mkPoint x y) ∧ den (ops.mkPoint x y) ≠ 0 ∧ xc (den (ops.mkPoint x y)) = some x
  /-- opposite ordinates: opposite points -/
  mkPoint_neg : ∀ x y y', 0 ≤ x → x < ops.p → 0 ≤ y → y < ops.p → 0 ≤ y' → y' < ops.p → ops.containsPoint x y = true →
    (∃ k : ℤ, xc (k • G) = some x) →
    (y + y') % ops.p = 0 → den (ops.mkPoint x y') = - den (ops.mkPoint x y)
  /-- two points with the same abscissa are equal or opposite -/
  xc_inj : ∀ R R', R ≠ 0 → xc R = xc R' → R' = R ∨ R' = -R
  /-- an abscissa of a group element has an ordinate -/
  xc_curve : ∀ R x, xc R = some x → ∃ y, OnC ops.p ops.a ops.b x y
  /-- the coordinates a valid non-zero point object reports satisfy `contains_point` -/
  on_curve : ∀ A, valid A → den A ≠ 0 → ∀ x y, ops.xOf A = .ok x → ops.yOf A = .ok y → ops.containsPoint x y = true

/-- what recovery needs of `numbertheory.square_root_mod_prime(a, p)` for `0 ≤ a < p`: a root whenever there is one -/
def SqrtSpec (sqrt : ℤ → ℤ → Res ℤ) (p : ℤ) : Prop :=
  ∀ a, 0 ≤ a → a < p → (∃ y : ℤ, (y * y - a) % p = 0) →
    ∃ β, sqrt a p = .ok β ∧ 0 ≤ β ∧ β < p ∧ (β * β - a) % p = 0

theorem emod_zero_iff_modEq (p u v : ℤ) : (u - v) % p = 0 ↔ u ≡ v [ZMOD p] := by
  rw [Int.modEq_comm, Int.modEq_iff_dvd]; exact ⟨Int.dvd_of_emod_eq_zero, Int.emod_eq_zero_of_dvd⟩

/-- `alpha = (pow(x, 3, p) + a*x + b) % p` is the right-hand side of the curve equation -/
theorem alpha_modEq (x p a b : ℤ) (hp : 0 < p) :
    Gen.Ecdsa.recover_alpha x p a b ≡ x ^ 3 + a * x + b [ZMOD p] ∧
    0 ≤ Gen.Ecdsa.recover_alpha x p a b ∧ Gen.Ecdsa.recover_alpha x p a b < p := by
  have h1 : Gen.Ecdsa.recover_alpha x p a b = ((x ^ 3 % p) + a * x + b) % p := by
    unfold Gen.Ecdsa.recover_alpha
    change pmod (pmod _ _ + _ + _) _ = _
    rw [pmod_eq_emod _ _ hp, pmod_eq_emod _ _ hp]
  rw [h1]
  refine ⟨?_, Int.emod_nonneg _ hp.ne', Int.emod_lt_of_pos _ hp⟩
  exact (Int.mod_modEq _ _).trans (((Int.mod_modEq _ _).add_right _).add_right _)

/-- the first candidate ordinate `y = beta if beta % 2 == 0 else p - beta` and the second `-y % p` -/
theorem candidate_ordinates (x p a b β : ℤ) (hp : 0 < p) (h0 : 0 ≤ β) (h1 : β < p) (hβ : OnC p a b x β) :
    let y := Gen.Ecdsa.recover_y β p
    let y2 := Gen.Ecdsa.recover_y2 y p
    0 ≤ y ∧ y < p ∧ OnC p a b x y ∧ 0 ≤ y2 ∧ y2 < p ∧ OnC p a b x y2 ∧ (y + y2) % p = 0 := by
  intro y y2
  have hy2 : y2 = (-y) % p := by
    show Gen.Ecdsa.recover_y2 y p = _
    unfold Gen.Ecdsa.recover_y2; exact pmod_eq_emod _ _ hp
  have hy : (y = β) ∨ (y = p - β ∧ β ≠ 0) := by
    show (Gen.Ecdsa.recover_y β p = β) ∨ (Gen.Ecdsa.recover_y β p = p - β ∧ β ≠ 0)
    unfold Gen.Ecdsa.recover_y
    split
    · left; rfl
    · rename_i h
      right; refine ⟨rfl, ?_⟩
      rintro rfl; simp at h
  have hyr : 0 ≤ y ∧ y < p := by rcases hy with h | ⟨h, h'⟩ <;> rw [h] <;> omega
  have sq : ∀ z : ℤ, z ≡ β [ZMOD p] ∨ z ≡ -β [ZMOD p] → OnC p a b x z := by
    intro z hz
    unfold OnC at hβ ⊢
    rw [emod_zero_iff_modEq] at hβ ⊢
    have : z * z ≡ β * β [ZMOD p] := by
      rcases hz with h | h
      · exact h.mul h
      · have := h.mul h; simpa using this
    exact this.trans hβ
  have hyβ : y ≡ β [ZMOD p] ∨ y ≡ -β [ZMOD p] := by
    rcases hy with h | ⟨h, -⟩
    · left; rw [h]
    · right; rw [h]; exact Int.modEq_iff_dvd.mpr ⟨-1, by ring⟩
  have hy2y : y2 ≡ -y [ZMOD p] := by rw [hy2]; exact Int.mod_modEq _ _
  refine ⟨hyr.1, hyr.2, sq y hyβ, ?_, ?_, sq y2 ?_, ?_⟩
  · rw [hy2]; exact Int.emod_nonneg _ hp.ne'
  · rw [hy2]; exact Int.emod_lt_of_pos _ hp
  · rcases hyβ with h | h
    · right; exact hy2y.trans h.neg
    · left; exact hy2y.trans (by simpa using h.neg)
  · have : y + y2 ≡ 0 [ZMOD p] := by
      have := (Int.ModEq.refl y).add hy2y
      simpa using this
    exact this

variable {ops : PointOps P} {G : 𝔾} {den : P → 𝔾} {xc : 𝔾 → Option ℤ} {valid : P → Prop}

/-- the square root step of recovery succeeds on the abscissa of a group element, with a root on the curve -/
theorem sqrt_step (C : RecoverOpsCorrect ops G den xc valid) (sqrt : ℤ → ℤ → Res ℤ) (hsq : SqrtSpec sqrt ops.p)
    (R : 𝔾) (x : ℤ) (hx : xc R = some x) :
    ∃ β, sqrt (Gen.Ecdsa.recover_alpha x ops.p ops.a ops.b) ops.p = .ok β ∧ 0 ≤ β ∧ β < ops.p ∧ OnC ops.p ops.a ops.b x β := by
  have hp : 0 < ops.p := by have := C.xc_range R x hx; omega
  obtain ⟨y, hy⟩ := C.xc_curve R x hx
  obtain ⟨hα, h0, h1⟩ := alpha_modEq x ops.p ops.a ops.b hp
  have : (y * y - Gen.Ecdsa.recover_alpha x ops.p ops.a ops.b) % ops.p = 0 := by
    unfold OnC at hy
    rw [emod_zero_iff_modEq] at hy ⊢
    exact hy.trans hα.symm
  obtain ⟨β, hβ, b0, b1, hb⟩ := hsq _ h0 h1 ⟨y, this⟩
  refine ⟨β, hβ, b0, b1, ?_⟩
  unfold OnC
  rw [emod_zero_iff_modEq] at hb ⊢
  exact hb.trans hα

/-- recovered candidate verifies: `Q = r⁻¹(sR − eG)` ⇒ `(e/s)G + (r/s)Q = R` -/
theorem recover_core {G R : 𝔾} {n : ℤ} (hn : n • G = 0) (hR : n • R = 0) (e r s w ri : ℤ)
    (hw : w * s ≡ 1 [ZMOD n]) (hri : ri * r ≡ 1 [ZMOD n]) :
    ((e * w) % n) • G + ((r * w) % n) • (ri • (s • R + ((-e) % n) • G)) = R := by
  have hG : ∀ a b : ℤ, a ≡ b [ZMOD n] → a • G = b • G := fun _ _ h => zsmul_congr_mod hn h
  have hRR : ∀ a b : ℤ, a ≡ b [ZMOD n] → a • R = b • R := fun _ _ h => zsmul_congr_mod hR h
  rw [hG _ _ (Int.mod_modEq (e * w) n), hG _ _ (Int.mod_modEq (-e) n)]
  have hQ : n • (ri • (s • R + (-e) • G)) = 0 := by
    rw [smul_comm, smul_add, smul_comm n s, smul_comm n (-e), hn, hR]; simp
  rw [zsmul_congr_mod hQ (Int.mod_modEq (r * w) n)]
  rw [smul_add, smul_add, ← mul_smul, ← mul_smul, ← mul_smul, ← mul_smul]
  have e1 : (r * w * ri * s) • R = (1 : ℤ) • R := hRR _ _ (by
    calc r * w * ri * s = (ri * r) * (w * s) := by ring
      _ ≡ 1 * 1 [ZMOD n] := hri.mul hw
      _ = 1 := by ring)
  have e2 : (r * w * ri * -e) • G = (-(e * w)) • G := hG _ _ (by
    calc r * w * ri * -e = (ri * r) * (-(e * w)) := by ring
      _ ≡ 1 * (-(e * w)) [ZMOD n] := hri.mul_right _
      _ = -(e * w) := by ring)
  rw [e1, e2, one_smul, neg_smul]; abel

end Ecdsa
