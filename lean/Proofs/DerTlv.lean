import Proofs.DerLen
/-!
# Proofs.DerTlv — the common tag-length-value reader `tlvBody`, and the OCTET STRING, SEQUENCE and
context-specific constructed codecs built on it.
-/
namespace Der

theorem drop_hdr (t : UInt8) (E r : Bytes) : (t :: (E ++ r)).drop (1 + E.length) = r := by
  rw [Nat.add_comm, List.drop_succ_cons, List.drop_left]

theorem drop_hdr_add (t : UInt8) (E r : Bytes) (n : Nat) : (t :: (E ++ r)).drop (1 + E.length + n) = r.drop n := by
  rw [← List.drop_drop, drop_hdr]

theorem tooLong_iff (length : Nat) (s : Bytes) (llen : Nat) :
    tooLong length s llen = true ↔ (length : Int) > (s.length : Int) - 1 - (llen : Int) := by
  simp [tooLong]

/-- view of a successful `read_length` + buffer check + slicing, shared by all TLV readers -/
theorem tlv_split {t : UInt8} {s : Bytes} {length llen : Nat}
    (h : readLength ((t :: s).drop 1) = .ok (length, llen)) (hl : tooLong length (t :: s) llen = false) :
    ∃ body rest, t :: s = t :: (encodeLength length ++ body ++ rest) ∧ body.length = length ∧ length < 256 ^ 127
      ∧ ((t :: s).drop (1 + llen)).take length = body ∧ (t :: s).drop (1 + llen + length) = rest := by
  simp only [List.drop_succ_cons, List.drop_zero] at h
  obtain ⟨hlt, hk, r, hs⟩ := readLength_ok h
  subst hk hs
  have hnl : ¬ ((length : Int) > (((t :: (encodeLength length ++ r)).length : Nat) : Int) - 1 - ((encodeLength length).length : Int)) := by
    intro hc; have := (tooLong_iff _ _ _).mpr hc; rw [hl] at this; cases this
  simp only [List.length_cons, List.length_append] at hnl
  have hle : length ≤ r.length := by omega
  refine ⟨r.take length, r.drop length, ?_, ?_, hlt, ?_, ?_⟩
  · rw [List.append_assoc, List.take_append_drop]
  · simp [List.length_take]; omega
  · rw [drop_hdr]
  · rw [drop_hdr_add]

theorem tlvBody_ok {t : UInt8} {s body rest : Bytes} (h : tlvBody (t :: s) = .ok (body, rest)) :
    t :: s = t :: (encodeLength body.length ++ body ++ rest) ∧ body.length < 256 ^ 127 := by
  unfold tlvBody at h
  simp only [bind, Except.bind] at h
  split at h
  · cases h
  · rename_i v hv
    obtain ⟨length, llen⟩ := v
    simp only at h
    split at h
    · cases h
    · rename_i hl
      have hl' : tooLong length (t :: s) llen = false := by simpa using hl
      obtain ⟨b, r, hs, hbl, hlt, hb, hr⟩ := tlv_split hv hl'
      simp only [Except.ok.injEq, Prod.mk.injEq] at h
      rw [hb, hr] at h
      obtain ⟨rfl, rfl⟩ := h
      rw [hbl]; exact ⟨hs, hlt⟩

theorem tlvBody_err {s : Bytes} {e : PyErr} (h : tlvBody s = .error e) : e = .unexpectedDER := by
  unfold tlvBody at h
  simp only [bind, Except.bind] at h
  split at h
  · rename_i e' he; cases h; exact readLength_err he
  · split at h
    · cases h; rfl
    · cases h

theorem tooLong_enc (t : UInt8) (body rest : Bytes) :
    tooLong body.length (t :: (encodeLength body.length ++ body ++ rest)) (encodeLength body.length).length = false := by
  apply Bool.eq_false_iff.mpr
  intro hc
  have := (tooLong_iff _ _ _).mp hc
  simp only [List.length_cons, List.length_append] at this
  omega

/-- reading back a TLV built with `encodeLength` -/
theorem tlvBody_encode (t : UInt8) (body rest : Bytes) (h : body.length < 256 ^ 127) :
    tlvBody (t :: (encodeLength body.length ++ body ++ rest)) = .ok (body, rest) := by
  unfold tlvBody
  simp only [List.drop_succ_cons, List.drop_zero, List.append_assoc]
  rw [readLength_encodeLength _ h]
  simp only [bind, Except.bind]
  have := tooLong_enc t body rest
  rw [List.append_assoc] at this
  rw [this]
  simp only [Bool.false_eq_true, if_false]
  rw [drop_hdr, drop_hdr_add]
  simp

/-- the three ways the common header of a TLV reader can go -/
theorem tlv_cases (t : UInt8) (s' : Bytes) :
    (∃ body rest0, t :: s' = t :: (encodeLength body.length ++ body ++ rest0) ∧ body.length < 256 ^ 127)
    ∨ readLength ((t :: s').drop 1) = .error .unexpectedDER
    ∨ (∃ length llen, readLength ((t :: s').drop 1) = .ok (length, llen) ∧ tooLong length (t :: s') llen = true) := by
  cases hrl : readLength ((t :: s').drop 1) with
  | error e => right; left; rw [readLength_err hrl]
  | ok v =>
    obtain ⟨length, llen⟩ := v
    cases htl : tooLong length (t :: s') llen with
    | true => right; right; exact ⟨length, llen, rfl, htl⟩
    | false =>
      left
      obtain ⟨b, r, hs, hbl, hlt, _, _⟩ := tlv_split hrl htl
      exact ⟨b, r, by rw [hbl]; exact hs, by rw [hbl]; exact hlt⟩

/-! ## OCTET STRING -/

theorem removeOctetString_encode (body rest : Bytes) (h : body.length < 256 ^ 127) :
    removeOctetString (encodeOctetString body ++ rest) = .ok (body, rest) := by
  unfold removeOctetString encodeOctetString
  simp only [List.cons_append, List.nil_append, List.append_assoc]
  rw [if_neg (by simp)]
  have := tlvBody_encode 0x04 body rest h
  rwa [List.append_assoc] at this

theorem removeOctetString_ok {s body rest : Bytes} (h : removeOctetString s = .ok (body, rest)) :
    s = encodeOctetString body ++ rest ∧ body.length < 256 ^ 127 := by
  unfold removeOctetString at h
  match s, h with
  | t :: s', h =>
    simp only at h
    split at h
    · cases h
    · rename_i ht
      have ht' : t = 0x04 := by simpa using ht
      subst ht'
      obtain ⟨h1, h2⟩ := tlvBody_ok h
      refine ⟨?_, h2⟩
      rw [h1]; simp [encodeOctetString]

theorem removeOctetString_err {s : Bytes} {e : PyErr} (h : removeOctetString s = .error e) : e = .unexpectedDER := by
  unfold removeOctetString at h
  match s, h with
  | [], h => cases h; rfl
  | t :: s', h =>
    simp only at h
    split at h
    · cases h; rfl
    · exact tlvBody_err h

/-! ## SEQUENCE -/

theorem removeSequence_encode (pieces : List Bytes) (rest : Bytes) (h : pieces.flatten.length < 256 ^ 127) :
    removeSequence (encodeSequence pieces ++ rest) = .ok (pieces.flatten, rest) := by
  unfold removeSequence encodeSequence
  simp only [List.cons_append, List.nil_append, List.append_assoc]
  rw [if_neg (by simp)]
  have := tlvBody_encode 0x30 pieces.flatten rest h
  rwa [List.append_assoc] at this

theorem removeSequence_ok {s body rest : Bytes} (h : removeSequence s = .ok (body, rest)) :
    s = encodeSequence [body] ++ rest ∧ body.length < 256 ^ 127 := by
  unfold removeSequence at h
  match s, h with
  | t :: s', h =>
    simp only at h
    split at h
    · cases h
    · rename_i ht
      have ht' : t = 0x30 := by simpa using ht
      subst ht'
      obtain ⟨h1, h2⟩ := tlvBody_ok h
      refine ⟨?_, h2⟩
      rw [h1]; simp [encodeSequence]

theorem removeSequence_err {s : Bytes} {e : PyErr} (h : removeSequence s = .error e) : e = .unexpectedDER := by
  unfold removeSequence at h
  match s, h with
  | [], h => cases h; rfl
  | t :: s', h =>
    simp only at h
    split at h
    · cases h; rfl
    · exact tlvBody_err h

/-! ## context-specific constructed -/

theorem u8_ctag : ∀ k : Fin 32, (UInt8.ofNat (0xA0 + k.val)) &&& 0xE0 = 0xA0
    ∧ ((UInt8.ofNat (0xA0 + k.val)) &&& 0x1F).toNat = k.val := by decide +kernel

theorem u8_ctag_inv : ∀ b : UInt8, b &&& 0xE0 = 0xA0 →
    (b &&& 0x1F).toNat ≤ 0x1f ∧ UInt8.ofNat (0xA0 + (b &&& 0x1F).toNat) = b := by
  apply forall_u8; decide +kernel

theorem removeConstructed_encode (tag : Nat) (body rest : Bytes) (ht : tag ≤ 0x1f) (h : body.length < 256 ^ 127) :
    removeConstructed (encodeConstructed tag body ++ rest) = .ok (tag, body, rest) := by
  unfold removeConstructed encodeConstructed
  simp only [List.cons_append, List.nil_append, List.append_assoc]
  obtain ⟨h1, h2⟩ := u8_ctag ⟨tag, by omega⟩
  simp only at h1 h2
  rw [if_neg (fun hc => hc h1)]
  have := tlvBody_encode (UInt8.ofNat (0xA0 + tag)) body rest h
  rw [List.append_assoc] at this
  rw [this]
  simp only [bind, Except.bind, h2]

theorem removeConstructed_ok {s body rest : Bytes} {tag : Nat} (h : removeConstructed s = .ok (tag, body, rest)) :
    s = encodeConstructed tag body ++ rest ∧ tag ≤ 0x1f ∧ body.length < 256 ^ 127 := by
  unfold removeConstructed at h
  match s, h with
  | t :: s', h =>
    simp only at h
    split at h
    · cases h
    · rename_i ht
      have ht' : t &&& 0xE0 = 0xA0 := by simpa using ht
      simp only [bind, Except.bind] at h
      split at h
      · cases h
      · rename_i v hv
        obtain ⟨b, r⟩ := v
        simp only [Except.ok.injEq, Prod.mk.injEq] at h
        obtain ⟨rfl, rfl, rfl⟩ := h
        obtain ⟨h1, h2⟩ := tlvBody_ok hv
        obtain ⟨h3, h4⟩ := u8_ctag_inv t ht'
        refine ⟨?_, h3, h2⟩
        rw [h1]; unfold encodeConstructed; rw [h4]; simp

theorem removeConstructed_err {s : Bytes} {e : PyErr} (h : removeConstructed s = .error e) : e = .unexpectedDER := by
  unfold removeConstructed at h
  match s, h with
  | [], h => cases h; rfl
  | t :: s', h =>
    simp only at h
    split at h
    · cases h; rfl
    · simp only [bind, Except.bind] at h
      split at h
      · rename_i e' he; cases h; exact tlvBody_err he
      · cases h

end Der
