import Model.NumberTheory
import Mathlib.Data.Int.GCD
import Mathlib.Tactic.Ring
import Mathlib.Tactic.Linarith
import Mathlib.Tactic.LinearCombination
import Mathlib.Data.Int.Basic
/-! `pow(a, -1, m)` / `inverse_mod` (C15) -/
namespace NTProofs
open NT

theorem pmod_eq_emod {a n : Int} (hn : 0 < n) : pmod a n = a % n := by
  unfold pmod; exact Int.fmod_eq_emod_of_nonneg a (le_of_lt hn)

theorem pdiv_eq_ediv {a n : Int} (hn : 0 < n) : pdiv a n = a / n := by
  unfold pdiv; exact Int.fdiv_eq_ediv_of_nonneg a (le_of_lt hn)

theorem invLoop_spec (a0 c0 : Int) :
    ∀ (fuel : Nat) (a n b c : Int), 0 ≤ n → n < fuel → (n = 0 → 0 < a) → c0 ∣ a - b * a0 → c0 ∣ n - c * a0 →
      Int.gcd a n = Int.gcd a0 c0 →
      (invLoop fuel a n b c).1 = (Int.gcd a0 c0 : Nat) ∧ c0 ∣ (invLoop fuel a n b c).1 - (invLoop fuel a n b c).2 * a0 := by
  intro fuel
  induction fuel with
  | zero => intro a n b c h0 hlt; exfalso; simp at hlt; omega
  | succ f ih =>
    intro a n b c h0 hlt hpos ha hn hg
    unfold invLoop
    by_cases hz : n = 0
    · subst hz
      simp only [↓reduceIte]
      refine ⟨?_, ha⟩
      have := hpos rfl
      rw [← hg, Int.gcd_zero_right]; omega
    · simp only [hz, ↓reduceIte]
      have hnpos : 0 < n := by omega
      rw [pmod_eq_emod hnpos, pdiv_eq_ediv hnpos]
      apply ih
      · exact Int.emod_nonneg a (by omega)
      · have := Int.emod_lt_of_pos a hnpos; push_cast at hlt; omega
      · intro _; exact hnpos
      · exact hn
      · have e : a % n - (b - a / n * c) * a0 = (a - b * a0) - (a / n) * (n - c * a0) := by
          have := Int.emod_add_mul_ediv a n; linear_combination this
        rw [e]; exact Int.dvd_sub ha (Dvd.dvd.mul_left hn _)
      · rw [← hg, Int.gcd_comm n, Int.gcd_emod]


/-- what `pow(a, -1, m)` does on every input -/
theorem powInv_spec (a m : Int) :
    (m = 0 → powInv a m = .error .valueError) ∧
    (m ≠ 0 → Int.gcd a m ≠ 1 → powInv a m = .error .valueError) ∧
    (0 < m → Int.gcd a m = 1 → ∃ i, powInv a m = .ok i ∧ 0 ≤ i ∧ i < m ∧ m ∣ a * i - 1) ∧
    (m < 0 → Int.gcd a m = 1 → ∃ i, powInv a m = .ok i ∧ m < i ∧ i ≤ 0 ∧ m ∣ a * i - 1) := by
  by_cases hm : m = 0
  · subst hm; simp [powInv]
  obtain ⟨c, hc⟩ : ∃ c : Int, c = (m.natAbs : Int) := ⟨_, rfl⟩
  have hcpos : 0 < c := by omega
  have hcm : c ∣ m ∧ m ∣ c := by
    constructor
    · rw [hc]; exact Int.natAbs_dvd.mpr (dvd_refl m)
    · rw [hc]; exact Int.dvd_natAbs.mpr (dvd_refl m)
  have hgc : Int.gcd a c = Int.gcd a m := by rw [hc]; unfold Int.gcd; rw [Int.natAbs_natCast]
  by_cases hc1 : c = 1
  · -- |m| = 1
    have hg1 : Int.gcd a m = 1 := by
      rw [← hgc, hc1]; simp
    have hp : powInv a m = .ok 0 := by
      unfold powInv; simp only [hm, ↓reduceIte, ← hc, hc1]
    refine ⟨fun h => absurd h hm, fun _ h => absurd hg1 h, fun h _ => ⟨0, hp, le_refl _, h, ?_⟩, fun h _ => ⟨0, hp, h, le_refl _, ?_⟩⟩ <;>
    · have : m ∣ 1 := by rw [← hc1]; exact hcm.2
      exact Dvd.dvd.trans this (one_dvd _)
  · have hspec := invLoop_spec a c (m.natAbs + 1) a c 1 0 (le_of_lt hcpos) (by rw [hc]; omega) (fun h => by omega)
      (by simp) (by simp) rfl
    obtain ⟨h1, h2⟩ := hspec
    have hunf : powInv a m =
        (if (invLoop (m.natAbs + 1) a c 1 0).1 ≠ 1 then Except.error PyErr.valueError
         else Except.ok (if m < 0 ∧ pmod (invLoop (m.natAbs + 1) a c 1 0).2 c ≠ 0
              then pmod (invLoop (m.natAbs + 1) a c 1 0).2 c - c else pmod (invLoop (m.natAbs + 1) a c 1 0).2 c)) := by
      unfold powInv; simp only [hm, ↓reduceIte, ← hc, hc1]
    rw [hgc] at h1
    refine ⟨fun h => absurd h hm, fun _ hg => ?_, fun hpos hg => ?_, fun hneg hg => ?_⟩
    · rw [hunf, h1, if_pos]; exact_mod_cast hg
    all_goals
      rw [hunf, h1, hg, if_neg (by simp)]
      rw [h1, hg] at h2
      set x := (invLoop (m.natAbs + 1) a c 1 0).2 with hx
      rw [pmod_eq_emod hcpos]
      have hz0 : 0 ≤ x % c := Int.emod_nonneg x (by omega)
      have hz1 : x % c < c := Int.emod_lt_of_pos x hcpos
      have hdvd : c ∣ a * (x % c) - 1 := by
        have e : a * (x % c) - 1 = -((1 : Int) - x * a) - a * c * (x / c) := by
          have := Int.emod_add_mul_ediv x c; push_cast at *; linear_combination a * this
        rw [e]; exact Int.dvd_sub (Int.dvd_neg.mpr h2) (Dvd.dvd.mul_right (Dvd.dvd.mul_left (dvd_refl c) a) _)
    · -- m > 0
      have hcm' : c = m := by omega
      refine ⟨x % c, ?_, hz0, by omega, by rw [← hcm']; exact hdvd⟩
      rw [if_neg (by omega)]
    · -- m < 0
      have hcm' : c = -m := by omega
      by_cases hz : x % c = 0
      · refine ⟨0, ?_, hneg, le_refl _, ?_⟩
        · rw [if_neg (by simp [hz]), hz]
        · rw [hz] at hdvd; simpa using Dvd.dvd.trans hcm.2 hdvd
      · refine ⟨x % c - c, ?_, by omega, by omega, ?_⟩
        · rw [if_pos ⟨hneg, hz⟩]
        · have e : a * (x % c - c) - 1 = (a * (x % c) - 1) - a * c := by ring
          rw [e]; exact Dvd.dvd.trans hcm.2 (Int.dvd_sub hdvd (Dvd.dvd.mul_left (dvd_refl c) a))

theorem inverseMod_eq (a m : Int) : inverseMod a m = if a = 0 then .ok 0 else powInv a m := by
  unfold inverseMod Gen.NT.inverse_mod; by_cases h : a = 0 <;> simp [h]

end NTProofs
