import Proofs.DerDigits
/-!
# Proofs.DerLen — the DER length codec: `read_length` inverts `encode_length` on `l < 256^127`,
accepts only the encoder's output, fails only with `UnexpectedDER`.
-/
namespace Der

theorem idx_zero_cons (b : UInt8) (t : Bytes) : idx (b :: t) 0 = .ok b := rfl
theorem idx_one_cons (a b : UInt8) (t : Bytes) : idx (a :: b :: t) 1 = .ok b := rfl

theorem pow127_ge : 128 ≤ 256 ^ 127 := by decide

/-- every value `≥ 128` has the long form -/
theorem encodeLength_long (l : Nat) (h : 128 ≤ l) :
    encodeLength l = UInt8.ofNat (0x80 ||| (hexBytes l).length) :: hexBytes l := by
  unfold encodeLength; rw [if_neg (by omega)]

theorem encodeLength_short (l : Nat) (h : l < 128) : encodeLength l = [UInt8.ofNat l] := by
  unfold encodeLength; rw [if_pos (by omega)]

theorem encodeLength_ne_nil (l : Nat) : encodeLength l ≠ [] := by
  unfold encodeLength; split <;> simp

theorem encodeLength_length_pos (l : Nat) : 0 < (encodeLength l).length :=
  List.length_pos_iff.mpr (encodeLength_ne_nil l)

/-- the structure of an accepted length field -/
theorem readLength_ok {s : Bytes} {l k : Nat} (h : readLength s = .ok (l, k)) :
    l < 256 ^ 127 ∧ k = (encodeLength l).length ∧ ∃ rest, s = encodeLength l ++ rest := by
  unfold readLength at h
  match s, h with
  | num :: rest, h =>
    simp only at h
    split at h
    · -- short form
      rename_i h0
      obtain ⟨h1, h2, _, _⟩ := u8_short num h0
      simp only [Except.ok.injEq, Prod.mk.injEq] at h
      obtain ⟨rfl, rfl⟩ := h
      rw [encodeLength_short _ h1, h2]
      exact ⟨Nat.lt_of_lt_of_le h1 pow127_ge, rfl, rest, rfl⟩
    · rename_i h0
      obtain ⟨h1, h2, _⟩ := u8_long num h0
      split at h
      · cases h
      · rename_i hz
        split at h
        · cases h
        · rename_i hlen
          match rest, hlen, h with
          | msb :: rest', hlen, h =>
            rw [idx_one_cons] at h
            simp only [bind, Except.bind] at h
            split at h
            · cases h
            · rename_i hmin
              simp only [Except.ok.injEq, Prod.mk.injEq] at h
              obtain ⟨rfl, rfl⟩ := h
              generalize hll : (num &&& 0x7f).toNat = llen at *
              have hmsb : msb ≠ 0 := fun hc => hmin (Or.inl hc)
              -- the digits
              obtain ⟨n', rfl⟩ : ∃ n', llen = n' + 1 := ⟨llen - 1, by omega⟩
              have hd : (msb :: rest').take (n' + 1) = msb :: rest'.take n' := by simp
              have hdl : ((msb :: rest').take (n' + 1)).length = n' + 1 := by
                simp only [List.length_take, List.length_cons] at *; omega
              have hno : NoLead0 ((msb :: rest').take (n' + 1)) := by
                rw [hd]; intro b t hb; simp only [List.cons.injEq] at hb; rw [← hb.1]; exact hmsb
              have hne : (msb :: rest').take (n' + 1) ≠ [] := by rw [hd]; simp
              have hhex := hexBytes_beVal _ hno hne
              have hlt := beVal_lt ((msb :: rest').take (n' + 1))
              rw [hdl] at hlt
              have hge : 128 ≤ beVal ((msb :: rest').take (n' + 1)) := by
                by_cases h1' : n' = 0
                · subst h1'
                  simp only [List.take_succ_cons, List.take_zero, beVal_singleton] at *
                  have : ¬ msb < 0x80 := fun hc => hmin (Or.inr ⟨by first | rfl | trivial, hc⟩)
                  rw [u8_lt_iff] at this
                  have : (0x80 : UInt8).toNat = 128 := rfl
                  omega
                · rw [hd]
                  have hg := beVal_ge msb (rest'.take n') hmsb
                  have hl' : (rest'.take n').length = n' := by
                    simp only [List.length_take, List.length_cons] at *; omega
                  rw [hl'] at hg
                  have : 256 ^ 1 ≤ 256 ^ n' := Nat.pow_le_pow_right (by decide) (by omega)
                  omega
              refine ⟨?_, ?_, ?_⟩
              · exact Nat.lt_of_lt_of_le hlt (Nat.pow_le_pow_right (by decide) (by omega))
              · rw [encodeLength_long _ hge, hhex, List.length_cons, hdl]; omega
              · refine ⟨(msb :: rest').drop (n' + 1), ?_⟩
                rw [encodeLength_long _ hge, hhex, hdl, h2, List.cons_append, List.take_append_drop]

/-- only `UnexpectedDER` -/
theorem readLength_err {s : Bytes} {e : PyErr} (h : readLength s = .error e) : e = .unexpectedDER := by
  unfold readLength at h
  match s, h with
  | [], h => cases h; rfl
  | num :: rest, h =>
    simp only at h
    split at h
    · cases h
    · split at h
      · cases h; rfl
      · split at h
        · cases h; rfl
        · rename_i hz hlen
          match rest, hlen, h with
          | [], hlen, h => simp only [List.length_nil] at hlen; omega
          | msb :: rest', hlen, h =>
            rw [idx_one_cons] at h
            simp only [bind, Except.bind] at h
            split at h
            · cases h; rfl
            · cases h

theorem or80_lt (k : Nat) (h : k < 128) : 0x80 ||| k < 256 := by
  have : ∀ k : Fin 128, 0x80 ||| k.val < 256 := by decide +kernel
  exact this ⟨k, h⟩

/-- round trip on `l < 256^127` -/
theorem readLength_encodeLength (l : Nat) (hl : l < 256 ^ 127) (rest : Bytes) :
    readLength (encodeLength l ++ rest) = .ok (l, (encodeLength l).length) := by
  by_cases h : l < 128
  · rw [encodeLength_short l h]
    simp only [List.cons_append, List.nil_append, readLength, List.length_singleton]
    have hb : (UInt8.ofNat l).toNat < 128 := by rw [u8_ofNat_toNat l (by omega)]; exact h
    have h0 := u8_lt128 _ hb
    obtain ⟨_, _, h3, _⟩ := u8_short _ h0
    rw [if_pos h0, h3, u8_ofNat_toNat l (by omega)]
  · have hge : 128 ≤ l := by omega
    rw [encodeLength_long l hge]
    have hlen : (hexBytes l).length ≤ 127 := hexBytes_length_le l 127 (by decide) hl
    have hpos : hexBytes l = beMin l := hexBytes_pos l (by omega)
    have hne := hexBytes_ne_nil l
    have hno : NoLead0 (hexBytes l) := by rw [hpos]; exact beMin_noLead0 l
    match hm : hexBytes l, hne with
    | msb :: t, _ =>
      rw [hm] at hlen hno
      have hk := u8_long_of_lt ⟨(msb :: t).length, by omega⟩
      simp only at hk
      obtain ⟨hk1, hk2⟩ := hk
      simp only [List.cons_append, readLength]
      rw [if_neg hk1, hk2, if_neg (by simp), if_neg (by simp), idx_one_cons]
      simp only [bind, Except.bind]
      have hmsb : msb ≠ 0 := hno msb t rfl
      have hval : beVal (msb :: t) = l := by rw [← hm, beVal_hexBytes]
      have hmin : ¬ (msb = 0 ∨ ((msb :: t).length = 1 ∧ msb < 0x80)) := by
        intro hc
        rcases hc with hc | ⟨hc1, hc2⟩
        · exact hmsb hc
        · have : t = [] := by simpa using hc1
          subst this
          rw [beVal_singleton] at hval
          rw [u8_lt_iff] at hc2
          have : (0x80 : UInt8).toNat = 128 := rfl
          omega
      rw [if_neg hmin]
      have htake : (msb :: (t ++ rest)).take (msb :: t).length = msb :: t := by
        rw [← List.cons_append]; simp
      rw [htake, hval]
      simp only [List.length_cons]; congr 2; omega

/-! ## the faithful encoder vs the total one -/

theorem int2byte_nat (n : Nat) (h : n < 256) : int2byte (n : Int) = .ok (UInt8.ofNat n) := by
  unfold int2byte; rw [if_pos (by omega)]; simp

theorem int2byte_ok {n : Int} {b : UInt8} (h : int2byte n = .ok b) : 0 ≤ n ∧ n < 256 ∧ b = UInt8.ofNat n.toNat := by
  unfold int2byte at h; split at h
  · cases h; rename_i hh; exact ⟨hh.1, hh.2, rfl⟩
  · cases h

theorem int2byte_err {n : Int} {e : PyErr} (h : int2byte n = .error e) : e = .other := by
  unfold int2byte at h; split at h
  · cases h
  · cases h; rfl

/-- whatever `encode_length` returns is `encodeLength l` -/
theorem encodeLengthPy_ok {l : Nat} {e : Bytes} (h : encodeLengthPy l = .ok e) : e = encodeLength l := by
  unfold encodeLengthPy at h
  unfold encodeLength
  split at h
  · rename_i hl
    rw [if_pos hl]
    rw [int2byte_nat l (by omega)] at h
    simp only [bind, Except.bind, Except.ok.injEq] at h
    exact h.symm
  · rename_i hl
    rw [if_neg hl]
    simp only [bind, Except.bind] at h
    split at h
    · cases h
    · rename_i b hb
      obtain ⟨_, _, rfl⟩ := int2byte_ok hb
      simp only [Except.ok.injEq] at h
      rw [← h]; simp

/-- on the round-trip domain the Python encoder does return -/
theorem encodeLengthPy_eq (l : Nat) (hl : l < 256 ^ 127) : encodeLengthPy l = .ok (encodeLength l) := by
  unfold encodeLengthPy encodeLength
  split
  · rw [int2byte_nat l (by omega)]; rfl
  · have hlen : (hexBytes l).length ≤ 127 := hexBytes_length_le l 127 (by decide) hl
    simp only []
    rw [int2byte_nat _ (or80_lt _ (by omega))]; rfl

/-- `encode_length` fails only with `struct.error`, and only for lengths `≥ 256^255` -/
theorem encodeLengthPy_err {l : Nat} {e : PyErr} (h : encodeLengthPy l = .error e) : e = .other ∧ 256 ^ 127 ≤ l := by
  refine ⟨?_, ?_⟩
  · unfold encodeLengthPy at h
    split at h
    · rw [int2byte_nat l (by omega)] at h; cases h
    · simp only [bind, Except.bind] at h
      split at h
      · rename_i e' he; cases h; exact int2byte_err he
      · cases h
  · apply Nat.le_of_not_lt; intro hl
    rw [encodeLengthPy_eq l hl] at h; cases h

end Der
