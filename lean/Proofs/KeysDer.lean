import Proofs.Asn1
import Proofs.KeysRoundTrip
import Proofs.DerBits
import Proofs.DerOid
import Proofs.DerInt
/-!
# Proofs.KeysDer — `to_der` of both key types is the canonical DER of the RFC structures (byte equality with the
spec encoder of `Proofs/Asn1.lean`)
-/
namespace KeysP
open Keys Asn1Spec

/-! ## the model's primitive encoders are the spec's `tlv` on small contents -/

theorem or80 : ∀ k : Fin 128, 0x80 ||| k.val = 128 + k.val := by decide

theorem small_lt (n : Nat) (h : n < 65536) : n < 256 ^ 127 :=
  Nat.lt_of_lt_of_le h (by decide)

theorem encodeLength_eq (l : Nat) (h : l < 256 ^ 127) : Der.encodeLength l = lenOctets l := by
  unfold Der.encodeLength lenOctets
  by_cases hs : l < 128
  · rw [if_pos (by omega), if_pos hs]
  · rw [if_neg (by omega), if_neg hs]
    simp only
    rw [Der.hexBytes_pos l (by omega)]
    have hk := Der.beMin_length_le l 127 h
    have := or80 ⟨(beMin l).length, by omega⟩
    simp only at this
    rw [this]

theorem lenOctets_length_le (n : Nat) (h : n < 65536) : (lenOctets n).length ≤ 3 := by
  unfold lenOctets
  split
  · simp
  · have := Der.beMin_length_le n 2 (by omega)
    simp; omega

theorem tlv_length (t : UInt8) (c : Bytes) : (tlv t c).length = 1 + (lenOctets c.length).length + c.length := by
  simp [tlv]; omega

theorem tlv_length_le (t : UInt8) (c : Bytes) (h : c.length < 65536) : (tlv t c).length ≤ c.length + 4 := by
  have := lenOctets_length_le c.length h
  rw [tlv_length]; omega

theorem encodeSequence_tlv (ps : List Bytes) (h : ps.flatten.length < 65536) :
    Der.encodeSequence ps = tlv 0x30 ps.flatten := by
  unfold Der.encodeSequence tlv
  simp only
  rw [encodeLength_eq _ (small_lt _ h)]
  simp

theorem encodeOctetString_tlv (s : Bytes) (h : s.length < 65536) : Der.encodeOctetString s = tlv 0x04 s := by
  unfold Der.encodeOctetString tlv
  rw [encodeLength_eq _ (small_lt _ h)]
  simp

theorem encodeConstructed_tlv (tag : Nat) (v : Bytes) (h : v.length < 65536) :
    Der.encodeConstructed tag v = tlv (UInt8.ofNat (0xA0 + tag)) v := by
  unfold Der.encodeConstructed tlv
  rw [encodeLength_eq _ (small_lt _ h)]
  simp

theorem encodeBits_tlv (s : Bytes) (h : s.length + 1 < 65536) : Der.encodeBits s 0 = tlv 0x03 (0 :: s) := by
  unfold Der.encodeBits tlv
  rw [encodeLength_eq _ (small_lt _ h)]
  simp

theorem encodeBitstring_zero (s : Bytes) (h : s.length + 1 < 65536) :
    Der.encodeBitstring s (.some 0) = .ok (tlv 0x03 (0 :: s)) := by
  have := Der.encodeBitstring_some_eq s 0 (by omega) (by simp [Der.bitsPadOK]) (small_lt _ h)
  simp only [Nat.cast_zero] at this
  rw [this, encodeBits_tlv s h]

/-! ## facts about the generated tables (kernel evaluation) -/

/-- `curve.encoded_oid` is the spec encoding of the OID arcs, for every curve of the table -/
theorem table_encodedOid : ∀ c ∈ Gen.curveTable, Curve.encodedOid c = Except.ok (Asn1.enc (.oid c.oid)) := by
  decide +kernel

/-- `find_curve(c.oid)` returns `c` for every curve of the table (the OIDs are pairwise distinct) -/
theorem table_findCurve : ∀ c ∈ Gen.curveTable, findCurve c.oid = .ok c := by decide +kernel

theorem table_oid_length : ∀ c ∈ Gen.curveTable, (Asn1.enc (.oid c.oid)).length ≤ 16 := by decide +kernel

theorem table_orderlen_le : ∀ c ∈ Gen.curveTable, Util.orderlen c.p ≤ 66 ∧ Util.orderlen c.n ≤ 66 := by decide +kernel

/-- the generated `oid_ecPublicKey` is RFC 5480's `id-ecPublicKey`, and the module constant is its encoding -/
theorem oid_ecPublicKey_spec : Gen.oid_ecPublicKey = id_ecPublicKey := by decide
theorem encoded_oid_ecPublicKey_spec : Gen.encoded_oid_ecPublicKey = Asn1.enc (.oid id_ecPublicKey) := by decide +kernel
theorem encodeOid_ecPublicKey_spec : encodeOidList Gen.oid_ecPublicKey = .ok (Asn1.enc (.oid id_ecPublicKey)) := by
  decide +kernel
theorem idPk_length : (Asn1.enc (.oid id_ecPublicKey)).length = 9 := by decide +kernel
theorem encodeInteger_one : Der.encodeInteger 1 = Asn1.enc (.int 1) := by decide +kernel
theorem int_one_length : (Asn1.enc (.int 1)).length = 3 := by decide +kernel

theorem encBytes_length_le (k : VK) (enc : PointEnc) (hl : Util.orderlen k.curve.p ≤ 66) :
    (encBytes k enc).length ≤ 133 := by
  have := encBytes_length k enc
  cases enc <;> simp only at this <;> omega

/-! ## SubjectPublicKeyInfo -/

/-- `VerifyingKey.to_der(enc)` is byte for byte the DER of RFC 5480's SubjectPublicKeyInfo -/
theorem vk_toDer_spki (k : VK) (hc : k.curve ∈ Gen.curveTable) (hx : k.x < k.curve.p) (hy : k.y < k.curve.p)
    (enc : PointEnc) (henc : enc ≠ .raw) :
    k.toDer enc = .ok (spki k.curve.oid (encBytes k enc)).enc := by
  have hpt := encBytes_length_le k enc (table_orderlen_le _ hc).1
  have ho := table_oid_length _ hc
  have hpk := idPk_length
  unfold VK.toDer
  rw [if_neg henc, toString_ok k hx hy enc, table_encodedOid _ hc]
  simp only [bind, Except.bind]
  rw [encodeBitstring_zero _ (by omega)]
  simp only
  rw [encoded_oid_ecPublicKey_spec]
  have h1 : ([Asn1.enc (.oid id_ecPublicKey), Asn1.enc (.oid k.curve.oid)] : List Bytes).flatten.length < 65536 := by
    simp; omega
  rw [encodeSequence_tlv _ h1]
  have h2 : (tlv 0x30 ([Asn1.enc (.oid id_ecPublicKey), Asn1.enc (.oid k.curve.oid)] : List Bytes).flatten).length ≤ 29 := by
    have := tlv_length_le 0x30 _ h1
    simp at this ⊢; omega
  have h3 : (tlv 0x03 (0 :: encBytes k enc)).length ≤ 138 := by
    have := tlv_length_le 0x03 (0 :: encBytes k enc) (by simp; omega)
    simp at this ⊢; omega
  rw [encodeSequence_tlv _ (by simp at h2 h3 ⊢; omega)]
  simp [spki, Asn1.enc, Asn1.encList]

/-! ## ECPrivateKey / OneAsymmetricKey -/

theorem sk_ecPrivateKeyDer_spec (k : SK) (hc : k.curve ∈ Gen.curveTable) (hd : k.d < k.curve.n)
    (hvc : k.vk.curve = k.curve) (hx : k.vk.x < k.curve.p) (hy : k.vk.y < k.curve.p) (enc : PointEnc) :
    k.ecPrivateKeyDer enc = .ok (ecPrivateKey (beFixed (Util.orderlen k.curve.n) k.d) k.curve.oid (encBytes k.vk enc)).enc
    ∧ (ecPrivateKey (beFixed (Util.orderlen k.curve.n) k.d) k.curve.oid (encBytes k.vk enc)).enc.length ≤ 245 := by
  have hol := table_orderlen_le _ hc
  have hpt := encBytes_length_le k.vk enc (by rw [hvc]; exact hol.1)
  have ho := table_oid_length _ hc
  have hdl := beFixed_length (Util.orderlen k.curve.n) k.d
  have hi := int_one_length
  have hbits : (tlv 0x03 (0 :: encBytes k.vk enc)).length ≤ 138 := by
    have := tlv_length_le 0x03 (0 :: encBytes k.vk enc) (by simp; omega)
    simp at this ⊢; omega
  have hoct : (tlv 0x04 (beFixed (Util.orderlen k.curve.n) k.d)).length ≤ 70 := by
    have := tlv_length_le 0x04 (beFixed (Util.orderlen k.curve.n) k.d) (by omega)
    omega
  have hc0 : (tlv (UInt8.ofNat (0xA0 + 0)) (Asn1.enc (.oid k.curve.oid))).length ≤ 20 := by
    have := tlv_length_le (UInt8.ofNat (0xA0 + 0)) (Asn1.enc (.oid k.curve.oid)) (by omega)
    omega
  have hc1 : (tlv (UInt8.ofNat (0xA0 + 1)) (tlv 0x03 (0 :: encBytes k.vk enc))).length ≤ 142 := by
    have := tlv_length_le (UInt8.ofNat (0xA0 + 1)) (tlv 0x03 (0 :: encBytes k.vk enc)) (by omega)
    omega
  have hbody : ([Asn1.enc (.int 1), tlv 0x04 (beFixed (Util.orderlen k.curve.n) k.d),
      tlv (UInt8.ofNat (0xA0 + 0)) (Asn1.enc (.oid k.curve.oid)),
      tlv (UInt8.ofNat (0xA0 + 1)) (tlv 0x03 (0 :: encBytes k.vk enc))] : List Bytes).flatten.length ≤ 241 := by
    simp only [List.flatten_cons, List.flatten_nil, List.length_append, List.length_nil]
    omega
  constructor
  · unfold SK.ecPrivateKeyDer
    have hx' : k.vk.x < k.vk.curve.p := by rw [hvc]; exact hx
    have hy' : k.vk.y < k.vk.curve.p := by rw [hvc]; exact hy
    rw [toString_ok k.vk hx' hy' enc, sk_toString_ok k hd, table_encodedOid _ hc]
    simp only [bind, Except.bind]
    rw [encodeBitstring_zero _ (by omega)]
    simp only
    rw [encodeInteger_one, encodeOctetString_tlv _ (by omega), encodeConstructed_tlv 0 _ (by omega),
      encodeConstructed_tlv 1 _ (by omega), encodeSequence_tlv _ (by omega)]
    simp [ecPrivateKey, Asn1.enc, Asn1.encList]
  · have : (ecPrivateKey (beFixed (Util.orderlen k.curve.n) k.d) k.curve.oid (encBytes k.vk enc)).enc
        = tlv 0x30 ([Asn1.enc (.int 1), tlv 0x04 (beFixed (Util.orderlen k.curve.n) k.d),
            tlv (UInt8.ofNat (0xA0 + 0)) (Asn1.enc (.oid k.curve.oid)),
            tlv (UInt8.ofNat (0xA0 + 1)) (tlv 0x03 (0 :: encBytes k.vk enc))] : List Bytes).flatten := by
      simp [ecPrivateKey, Asn1.enc, Asn1.encList]
    rw [this]
    have := tlv_length_le 0x30 _ (Nat.lt_of_le_of_lt hbody (by decide))
    omega

/-- `SigningKey.to_der(enc, "ssleay")` is the DER of RFC 5915's ECPrivateKey -/
theorem sk_toDer_ssleay (k : SK) (hc : k.curve ∈ Gen.curveTable) (hd : k.d < k.curve.n)
    (hvc : k.vk.curve = k.curve) (hx : k.vk.x < k.curve.p) (hy : k.vk.y < k.curve.p) (enc : PointEnc) (henc : enc ≠ .raw) :
    k.toDer enc .ssleay =
      .ok (ecPrivateKey (beFixed (Util.orderlen k.curve.n) k.d) k.curve.oid (encBytes k.vk enc)).enc := by
  unfold SK.toDer
  rw [if_neg henc, (sk_ecPrivateKeyDer_spec k hc hd hvc hx hy enc).1]
  rfl

/-- `SigningKey.to_der(enc, "pkcs8")` is the DER of RFC 5958's OneAsymmetricKey wrapping that ECPrivateKey -/
theorem sk_toDer_pkcs8 (k : SK) (hc : k.curve ∈ Gen.curveTable) (hd : k.d < k.curve.n)
    (hvc : k.vk.curve = k.curve) (hx : k.vk.x < k.curve.p) (hy : k.vk.y < k.curve.p) (enc : PointEnc) (henc : enc ≠ .raw) :
    k.toDer enc .pkcs8 =
      .ok (oneAsymmetricKey (beFixed (Util.orderlen k.curve.n) k.d) k.curve.oid (encBytes k.vk enc)).enc := by
  obtain ⟨hspec, hlen⟩ := sk_ecPrivateKeyDer_spec k hc hd hvc hx hy enc
  have ho := table_oid_length _ hc
  have hpk := idPk_length
  have hi := int_one_length
  unfold SK.toDer
  rw [if_neg henc, hspec]
  simp only [bind, Except.bind]
  rw [encodeOid_ecPublicKey_spec, table_encodedOid _ hc]
  simp only
  have h1 : ([Asn1.enc (.oid id_ecPublicKey), Asn1.enc (.oid k.curve.oid)] : List Bytes).flatten.length < 65536 := by
    simp; omega
  have h2 : (tlv 0x30 ([Asn1.enc (.oid id_ecPublicKey), Asn1.enc (.oid k.curve.oid)] : List Bytes).flatten).length ≤ 29 := by
    have := tlv_length_le 0x30 _ h1
    simp at this ⊢; omega
  have h3 := tlv_length_le 0x04
    (ecPrivateKey (beFixed (Util.orderlen k.curve.n) k.d) k.curve.oid (encBytes k.vk enc)).enc (by omega)
  rw [encodeInteger_one, encodeSequence_tlv _ h1, encodeOctetString_tlv _ (by omega),
    encodeSequence_tlv _ (by simp at h2 h3 ⊢; omega)]
  simp [oneAsymmetricKey, Asn1.enc, Asn1.encList]

end KeysP
