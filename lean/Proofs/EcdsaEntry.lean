import Proofs.EcdsaRoundTrip
import Proofs.EcdsaTruncate
/-!
# Proofs.EcdsaEntry — sign → verify through the entry points of `keys.py`
-/
namespace Ecdsa

variable {P : Type} {𝔾 : Type} [AddCommGroup 𝔾]
variable {ops : PointOps P} {G : 𝔾} {den : P → 𝔾} {xc : 𝔾 → Option ℤ} {valid : P → Prop}

/-- What sign→verify needs of an encoder/decoder pair at order `n`: whatever the encoder emits for `(r, s)` with
`0 ≤ r < n`, `1 ≤ s < n`, the decoder reads back `r` and either `s` (plain encoders: C12) or `n − s`
(the low-S encoders may reflect: C13). -/
def Codec {β σ : Type} (enc : ℤ → ℤ → ℤ → Res β) (wrap : β → σ) (dec : σ → ℕ → Res (ℕ × ℕ)) (n : ℤ) : Prop :=
  ∀ r s sig, 0 ≤ r → r < n → 1 ≤ s → s < n → enc r s n = .ok sig →
    ∃ s' : ℕ, dec (wrap sig) n.toNat = .ok (r.toNat, s') ∧ ((s' : ℤ) = s ∨ (s' : ℤ) = n - s)

/-- the range of what `sign` returns -/
theorem sign_range (C : PointOpsCorrect ops G den xc valid) (d e k r s : ℤ) (hk : ¬ ops.order ∣ k)
    (hsig : sign ops d e k = .ok (r, s)) : 1 ≤ r ∧ r < ops.order ∧ 1 ≤ s ∧ s < ops.order := by
  have hn := C.n_pos
  obtain ⟨x, hx, hspec⟩ := sign_spec C d e k hk
  rw [hspec] at hsig
  split at hsig
  · cases hsig
  · rename_i hnz
    simp only [not_or] at hnz
    injection hsig with hsig
    injection hsig with hr hs
    subst hr; subst hs
    unfold stdS stdR at *
    have h1 := Int.emod_nonneg x hn.ne'
    have h3 := Int.emod_nonneg (invZ ops.order (k % ops.order) * (e + x % ops.order * d)) hn.ne'
    refine ⟨?_, Int.emod_lt_of_pos _ hn, ?_, Int.emod_lt_of_pos _ hn⟩
    · have := hnz.1; omega
    · have := hnz.2; omega

/-- a successful `sign_number` used a nonce of `[1, n−1]` (explicit, or drawn by `randrange`: the `assert`) -/
theorem signNumber_inv (ops : PointOps P) (d e : ℤ) (k : Option ℤ) (rand : ℤ → Res ℤ) (r s : ℤ)
    (hsig : signNumber ops d e k rand = .ok (r, s)) :
    ∃ k', 1 ≤ k' ∧ k' < ops.order ∧ sign ops d e k' = .ok (r, s) := by
  have key : ∀ k' : ℤ, (if (!Gen.Ecdsa.sign_number_k_ok k' ops.order) = true then (Except.error PyErr.assertionError : Res (ℤ × ℤ))
      else sign ops d e k') = .ok (r, s) → 1 ≤ k' ∧ k' < ops.order ∧ sign ops d e k' = .ok (r, s) := by
    intro k' h
    split at h
    · cases h
    · rename_i hok
      simp only [Gen.Ecdsa.sign_number_k_ok, Bool.not_eq_true, Bool.not_eq_false', Bool.and_eq_true,
        decide_eq_true_eq] at hok
      exact ⟨hok.1, hok.2, h⟩
  unfold signNumber at hsig
  simp only [bind, Except.bind] at hsig
  cases k with
  | some k0 => exact ⟨k0, key k0 hsig⟩
  | none =>
    simp only at hsig
    cases hr : rand ops.order with
    | error err => rw [hr] at hsig; cases hsig
    | ok k0 => rw [hr] at hsig; exact ⟨k0, key k0 hsig⟩

/-- `sign_number` (explicit or drawn nonce): its result verifies -/
theorem signNumber_verifies (C : PointOpsCorrect ops G den xc valid) (d e : ℤ) (k : Option ℤ) (rand : ℤ → Res ℤ)
    (r s : ℤ) (hsig : signNumber ops d e k rand = .ok (r, s)) (Q : P) (hQ : valid Q) (hQd : den Q = d • G) :
    verifies ops Q e r s = .ok true ∧ 1 ≤ r ∧ r < ops.order ∧ 1 ≤ s ∧ s < ops.order := by
  have hn := C.n_pos
  obtain ⟨k', h1, h2, hs⟩ := signNumber_inv ops d e k rand r s hsig
  have hnd : ¬ ops.order ∣ k' := fun h => by have := Int.le_of_dvd (by omega) h; omega
  exact ⟨sign_verifies C d e k' r s hnd hs Q hQ hQd, sign_range C d e k' r s hnd hs⟩

/-- **sign_digest → verify_digest**, any nonce source, any codec pair, equal truncation flags -/
theorem signDigest_verifies {β σ : Type} (C : PointOpsCorrect ops G den xc valid) (d : ℤ) (Q : P) (hQ : valid Q)
    (hQd : den Q = d • G) (dg : Bytes) (k : Option ℤ) (rand : ℤ → Res ℤ)
    (enc : ℤ → ℤ → ℤ → Res β) (wrap : β → σ) (dec : σ → ℕ → Res (ℕ × ℕ)) (hcodec : Codec enc wrap dec ops.order)
    (allow : Bool) (sig : β) (hsig : signDigest ops d dg k rand enc allow = .ok sig) :
    verifyDigest ops Q dec (wrap sig) dg allow = .ok true := by
  have hn := C.n_pos
  unfold signDigest at hsig
  simp only [bind, Except.bind] at hsig
  cases ht : truncateAndConvertDigest dg (baselen ops) ops.order allow with
  | error err => rw [ht] at hsig; cases hsig
  | ok e =>
    rw [ht] at hsig
    simp only at hsig
    cases hs : signNumber ops d e k rand with
    | error err => rw [hs] at hsig; cases hsig
    | ok rs =>
      obtain ⟨r, s⟩ := rs
      rw [hs] at hsig
      simp only at hsig
      obtain ⟨hv, r1, r2, s1, s2⟩ := signNumber_verifies C d e k rand r s hs Q hQ hQd
      obtain ⟨s', hdec, hs'⟩ := hcodec r s sig (by omega) r2 s1 s2 hsig
      have hQn : ops.order • den Q = 0 := by rw [hQd, smul_comm, C.nG, smul_zero]
      have hv' : verifies ops Q e (r.toNat : ℤ) (s' : ℤ) = .ok true := by
        rw [Int.toNat_of_nonneg (by omega)]
        rcases hs' with h | h
        · rw [h]; exact hv
        · rw [h, verifies_neg_s_core C Q hQ hQn]; exact hv
      unfold verifyDigest
      simp only [ht, hdec, mapDecodeError, bind, Except.bind, hv']
      rfl

/-- the inner call of the RFC 6979 loop (`sigencode=simple_r_s`) against the same call with the real encoder -/
theorem signDigest_simple {β : Type} (ops : PointOps P) (d : ℤ) (dg : Bytes) (k : Option ℤ) (rand : ℤ → Res ℤ)
    (enc : ℤ → ℤ → ℤ → Res β) (allow : Bool) (r s o : ℤ)
    (h : signDigest ops d dg k rand (fun r s o => .ok (r, s, o)) allow = .ok (r, s, o)) :
    signDigest ops d dg k rand enc allow = enc r s o := by
  unfold signDigest at h ⊢
  simp only [bind, Except.bind] at h ⊢
  cases ht : truncateAndConvertDigest dg (baselen ops) ops.order allow with
  | error err => rw [ht] at h; cases h
  | ok e =>
    rw [ht] at h
    simp only at h ⊢
    cases hs : signNumber ops d e k rand with
    | error err => rw [hs] at h; cases h
    | ok rs =>
      rw [hs] at h
      simp only at h ⊢
      injection h with h
      injection h with h1 h2
      injection h2 with h2 h3
      rw [h1, h2, h3]

/-- **sign_digest_deterministic → verify_digest**: whenever the retry loop returns a signature (after any number of
`RSZeroError` retries, for any `generate_k`), it verifies -/
theorem signDigestDeterministic_verifies {β σ : Type} (C : PointOpsCorrect ops G den xc valid) (d : ℤ) (Q : P)
    (hQ : valid Q) (hQd : den Q = d • G) (dg : Bytes) (genK : ℕ → Res ℤ)
    (enc : ℤ → ℤ → ℤ → Res β) (wrap : β → σ) (dec : σ → ℕ → Res (ℕ × ℕ)) (hcodec : Codec enc wrap dec ops.order)
    (allow : Bool) (fuel retry : ℕ) (sig : β)
    (hsig : signDigestDeterministic ops d dg genK enc allow fuel retry = some (.ok sig)) :
    verifyDigest ops Q dec (wrap sig) dg allow = .ok true := by
  induction fuel generalizing retry with
  | zero => simp [signDigestDeterministic] at hsig
  | succ fuel ih =>
    unfold signDigestDeterministic at hsig
    cases hk : genK retry with
    | error err => rw [hk] at hsig; simp at hsig
    | ok k =>
      rw [hk] at hsig
      simp only at hsig
      cases hs : signDigest ops d dg (some k) (fun _ => .error .other) (fun r s o => .ok (r, s, o)) allow with
      | error err =>
        rw [hs] at hsig
        by_cases he : err = .rsZero
        · subst he; exact ih (retry + 1) hsig
        · cases err <;> simp_all
      | ok rso =>
        obtain ⟨r, s, o⟩ := rso
        rw [hs] at hsig
        simp only [Option.some.injEq] at hsig
        have := signDigest_simple ops d dg (some k) (fun _ => .error .other) enc allow r s o hs
        rw [hsig] at this
        exact signDigest_verifies C d Q hQ hQd dg (some k) _ enc wrap dec hcodec allow sig this

end Ecdsa
