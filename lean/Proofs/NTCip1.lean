import Proofs.NTInv
import Mathlib.Data.Int.Cast.Lemmas
import Mathlib.Tactic.Ring
import Mathlib.Tactic.LinearCombination
/-!
# NTCip1 — the list-based polynomial helpers of `numbertheory.py` compute in a quotient ring

Setting: `K` any commutative ring in which the integer `p` is zero (e.g. any `ZMod p`-algebra), `t : K` a root
of the monic polynomial `polymod` (length ≥ 2).  `evalL l t = Σ lᵢ tⁱ` is the value of the coefficient list `l`
at `t`.  Then `polynomial_reduce_mod` keeps the value, `polynomial_multiply_mod` multiplies values,
`polynomial_exp_mod` raises the value to the exponent; the outputs are shorter than `polymod` and their
coefficients are in `[0, p)`.  (Taking `K = 𝔽_p[x]/(f)`, `t = x` this is "the helpers compute in 𝔽_p[x]/(f)".)
-/
namespace NTCip
open NT NTProofs

variable {K : Type*} [CommRing K]

/-- value at `t` of a coefficient list, increasing powers (Horner) -/
def evalL : List Int → K → K
  | [], _ => 0
  | c :: cs, t => (c : K) + t * evalL cs t

/-- value at `t` of a coefficient list, decreasing powers (the reversed lists of the model) -/
def evalR : List Int → K → K
  | [], _ => 0
  | c :: cs, t => (c : K) * t ^ cs.length + evalR cs t

/-- every coefficient is reduced: in `[0, p)` -/
def InRange (p : Int) (l : List Int) : Prop := ∀ c ∈ l, 0 ≤ c ∧ c < p

theorem evalR_append (t : K) : ∀ xs ys : List Int,
    evalR (xs ++ ys) t = evalR xs t * t ^ ys.length + evalR ys t
  | [], ys => by simp [evalR]
  | x :: xs, ys => by
    simp only [List.cons_append, evalR, evalR_append t xs ys, List.length_append]
    ring

theorem evalR_reverse (t : K) : ∀ l : List Int, evalR l.reverse t = evalL l t
  | [] => by simp [evalR, evalL]
  | c :: cs => by
    rw [List.reverse_cons, evalR_append, evalR_reverse t cs]
    simp [evalR, evalL]; ring

theorem evalL_reverse (t : K) (l : List Int) : evalL l.reverse t = evalR l t := by
  rw [← evalR_reverse, List.reverse_reverse]

theorem cast_pmod {p : Int} (hpK : ((p : Int) : K) = 0) (x : Int) : ((pmod x p : Int) : K) = (x : K) := by
  unfold pmod; rw [Int.fmod_def]; push_cast; rw [hpK]; ring

theorem pmod_range {p : Int} (hp : 0 < p) (x : Int) : 0 ≤ pmod x p ∧ pmod x p < p := by
  rw [pmod_eq_emod hp]; exact ⟨Int.emod_nonneg _ (ne_of_gt hp), Int.emod_lt_of_pos _ hp⟩

/-! ## `polynomial_reduce_mod` -/

theorem subMul_length (top p : Int) : ∀ rs ms : List Int, (subMul top p rs ms).length = rs.length
  | [], [] => rfl
  | [], _ :: _ => rfl
  | _ :: _, [] => rfl
  | r :: rs, m :: ms => by simp [subMul, subMul_length top p rs ms]

theorem evalR_subMul {p : Int} (hpK : ((p : Int) : K) = 0) (top : Int) (t : K) : ∀ rs ms : List Int,
    ms.length ≤ rs.length →
    evalR (subMul top p rs ms) t = evalR rs t - (top : K) * t ^ (rs.length - ms.length) * evalR ms t
  | [], [], _ => by simp [subMul, evalR]
  | [], _ :: _, h => by simp at h
  | _ :: _, [], _ => by simp [subMul, evalR]
  | r :: rs, m :: ms, h => by
    have h' : ms.length ≤ rs.length := by simpa using h
    have e : t ^ (rs.length - ms.length) * t ^ ms.length = t ^ rs.length := by
      rw [← pow_add]; congr 1; omega
    simp only [subMul, evalR, subMul_length, evalR_subMul hpK top t rs ms h', cast_pmod hpK,
      List.length_cons, Nat.add_sub_add_right]
    push_cast
    linear_combination ((top : K) * (m : K)) * e

theorem subMul_inRange {p : Int} (hp : 0 < p) (top : Int) : ∀ rs ms : List Int,
    InRange p rs → InRange p (subMul top p rs ms)
  | [], [], h => h
  | [], _ :: _, _ => by simp [subMul, InRange]
  | _ :: _, [], h => h
  | r :: rs, m :: ms, h => by
    intro c hc
    simp only [subMul, List.mem_cons] at hc
    rcases hc with rfl | hc
    · exact pmod_range hp _
    · exact subMul_inRange hp top rs ms (fun c hc => h c (List.mem_cons_of_mem _ hc)) c hc

/-- one run of the `while` loop keeps the value at a root of `polymod` -/
theorem evalR_reduceLoop {p : Int} (hpK : ((p : Int) : K) = 0) (t : K) (mrest : List Int)
    (hroot : evalR (1 :: mrest) t = 0) : ∀ (fuel : Nat) (rp : List Int),
    evalR (reduceLoop p (1 :: mrest) fuel rp) t = evalR rp t
  | 0, rp => rfl
  | fuel+1, rp => by
    unfold reduceLoop
    split
    · rename_i hlen
      match rp, hlen with
      | [], hlen => simp at hlen
      | top :: rest, hlen =>
        simp only
        rw [evalR_reduceLoop hpK t mrest hroot fuel]
        have hl : mrest.length ≤ rest.length := by simpa using hlen
        have hroot' : evalR mrest t = - t ^ mrest.length := by
          simp only [evalR, Int.cast_one, one_mul] at hroot
          linear_combination hroot
        have e : t ^ (rest.length - mrest.length) * t ^ mrest.length = t ^ rest.length := by
          rw [← pow_add]; congr 1; omega
        split
        · rw [List.tail_cons, evalR_subMul hpK top t rest mrest hl, hroot']
          simp only [evalR]
          linear_combination (top : K) * e
        · rename_i h0
          have : top = 0 := by simpa using h0
          subst this
          simp [evalR]
    · rfl

theorem reduceLoop_length (p : Int) (mrest : List Int) : ∀ (fuel : Nat) (rp : List Int),
    rp.length ≤ fuel + mrest.length →
    (reduceLoop p (1 :: mrest) fuel rp).length = min rp.length mrest.length
  | 0, rp, h => by
    simp only [reduceLoop]; omega
  | fuel+1, rp, h => by
    unfold reduceLoop
    split
    · rename_i hlen
      match rp, hlen, h with
      | [], hlen, _ => simp at hlen
      | top :: rest, hlen, h =>
        simp only [List.length_cons] at hlen h ⊢
        split
        · rw [reduceLoop_length p mrest fuel _ (by rw [subMul_length]; omega), subMul_length]; omega
        · rw [reduceLoop_length p mrest fuel _ (by omega)]; omega
    · rename_i hlen
      simp only [List.length_cons, ge_iff_le, not_le] at hlen
      omega

theorem reduceLoop_inRange {p : Int} (hp : 0 < p) (rm : List Int) : ∀ (fuel : Nat) (rp : List Int),
    InRange p rp → InRange p (reduceLoop p rm fuel rp)
  | 0, rp, h => h
  | fuel+1, rp, h => by
    unfold reduceLoop
    split
    · match rp, h with
      | [], h => exact h
      | top :: rest, h =>
        simp only
        have hrest : InRange p rest := fun c hc => h c (List.mem_cons_of_mem _ hc)
        split
        · exact reduceLoop_inRange hp rm fuel _ (subMul_inRange hp top rest _ hrest)
        · exact reduceLoop_inRange hp rm fuel _ hrest
    · exact h

theorem inRange_reverse {p : Int} {l : List Int} (h : InRange p l) : InRange p l.reverse :=
  fun c hc => h c (List.mem_reverse.mp hc)

/-- `polynomial_reduce_mod(poly, polymod, p)` for `p ≠ 0`, `polymod` monic of length ≥ 2: no exception; the
value at any root `t` of `polymod` (in any commutative ring where `p = 0`) is unchanged; the result is
shorter than `polymod`; reduced coefficients stay reduced. -/
theorem polyReduceMod_spec {p : Int} (hpK : ((p : Int) : K) = 0) (hp0 : p ≠ 0) (t : K)
    (poly polymod : List Int) (hmonic : polymod.getLast? = some 1) (hlen : 2 ≤ polymod.length)
    (hroot : evalL polymod t = 0) :
    ∃ q, polyReduceMod poly polymod p = .ok q ∧ evalL q t = evalL poly t ∧
      q.length = min poly.length (polymod.length - 1) ∧ (0 < p → InRange p poly → InRange p q) := by
  obtain ⟨ini, rfl⟩ := List.getLast?_eq_some_iff.mp hmonic
  have hrev : (ini ++ [1]).reverse = 1 :: ini.reverse := by simp
  refine ⟨(reduceLoop p (1 :: ini.reverse) (poly.length + 1) poly.reverse).reverse, ?_, ?_, ?_, ?_⟩
  · unfold polyReduceMod
    rw [hmonic]
    simp only [ne_eq, not_true_eq_false, ↓reduceIte, hp0, false_and, hrev]
    rw [if_neg (by omega)]
  · rw [evalL_reverse, evalR_reduceLoop hpK t ini.reverse (by rw [← hrev, evalR_reverse]; exact hroot),
      evalR_reverse]
  · rw [List.length_reverse, reduceLoop_length _ _ _ _ (by simp; omega)]
    simp
  · intro hp h
    exact inRange_reverse (reduceLoop_inRange hp _ _ _ (inRange_reverse h))

/-! ## `polynomial_multiply_mod` -/

theorem addRow_length (c p : Int) : ∀ xs ys : List Int, (addRow c p xs ys).length = xs.length
  | [], [] => rfl
  | [], _ :: _ => rfl
  | _ :: _, [] => rfl
  | x :: xs, y :: ys => by simp [addRow, addRow_length c p xs ys]

theorem evalL_addRow {p : Int} (hpK : ((p : Int) : K) = 0) (c : Int) (t : K) : ∀ xs ys : List Int,
    ys.length ≤ xs.length → evalL (addRow c p xs ys) t = evalL xs t + (c : K) * evalL ys t
  | [], [], _ => by simp [addRow, evalL]
  | [], _ :: _, h => by simp at h
  | _ :: _, [], _ => by simp [addRow, evalL]
  | x :: xs, y :: ys, h => by
    have h' : ys.length ≤ xs.length := by simpa using h
    simp only [addRow, evalL, evalL_addRow hpK c t xs ys h', cast_pmod hpK]
    push_cast; ring

theorem addRow_inRange {p : Int} (hp : 0 < p) (c : Int) : ∀ xs ys : List Int,
    InRange p xs → InRange p (addRow c p xs ys)
  | [], [], h => h
  | [], _ :: _, _ => by simp [addRow, InRange]
  | _ :: _, [], h => h
  | x :: xs, y :: ys, h => by
    intro d hd
    simp only [addRow, List.mem_cons] at hd
    rcases hd with rfl | hd
    · exact pmod_range hp _
    · exact addRow_inRange hp c xs ys (fun c hc => h c (List.mem_cons_of_mem _ hc)) d hd

theorem mulRows_length (p : Int) (m2 : List Int) : ∀ m1 prod : List Int,
    (mulRows p m2 m1 prod).length = prod.length
  | [], prod => rfl
  | c :: cs, prod => by
    unfold mulRows
    have := addRow_length c p prod m2
    split
    · rename_i hx; rw [hx] at this; exact this
    · rename_i x xs hx
      rw [hx] at this
      simp [mulRows_length p m2 cs xs, ← this]

theorem mulRows_inRange {p : Int} (hp : 0 < p) (m2 : List Int) : ∀ m1 prod : List Int,
    InRange p prod → InRange p (mulRows p m2 m1 prod)
  | [], prod, h => h
  | c :: cs, prod, h => by
    unfold mulRows
    have := addRow_inRange hp c prod m2 h
    split
    · simp [InRange]
    · rename_i x xs hx
      rw [hx] at this
      intro d hd
      rcases List.mem_cons.mp hd with rfl | hd
      · exact this _ List.mem_cons_self
      · exact mulRows_inRange hp m2 cs xs (fun c hc => this c (List.mem_cons_of_mem _ hc)) d hd

theorem evalL_mulRows {p : Int} (hpK : ((p : Int) : K) = 0) (t : K) (m2 : List Int) : ∀ m1 prod : List Int,
    (m1 = [] ∨ m1.length + m2.length ≤ prod.length + 1) →
    evalL (mulRows p m2 m1 prod) t = evalL prod t + evalL m1 t * evalL m2 t
  | [], prod, _ => by simp [mulRows, evalL]
  | c :: cs, prod, h => by
    have h : cs.length + 1 + m2.length ≤ prod.length + 1 := by simpa using h
    have hadd := evalL_addRow hpK c t prod m2 (by omega)
    have hlen := addRow_length c p prod m2
    unfold mulRows
    split
    · rename_i hx
      rw [hx] at hadd hlen
      have hm2 : m2 = [] := by
        have : m2.length = 0 := by simp at hlen; omega
        exact List.length_eq_zero_iff.mp this
      have hprod : prod = [] := List.length_eq_zero_iff.mp (by simpa using hlen.symm)
      subst hm2 hprod
      simp [evalL]
    · rename_i x xs hx
      rw [hx] at hadd hlen
      have ih := evalL_mulRows hpK t m2 cs xs (Or.inr (by simp at hlen; omega))
      simp only [evalL] at hadd ⊢
      rw [ih]
      linear_combination hadd

theorem evalL_replicate_zero (t : K) : ∀ n : Nat, evalL (List.replicate n 0) t = 0
  | 0 => rfl
  | n+1 => by simp [List.replicate_succ, evalL, evalL_replicate_zero t n]

theorem inRange_replicate_zero {p : Int} (hp : 0 < p) (n : Nat) : InRange p (List.replicate n 0) := by
  intro c hc
  have := (List.mem_replicate.mp hc).2
  omega

/-- `polynomial_multiply_mod(m1, m2, polymod, p)`: no exception, the value at `t` is the product of the
values, the length is `min (len m1 + len m2 - 1) (len polymod - 1)`, all coefficients are in `[0, p)`. -/
theorem polyMulMod_spec {p : Int} (hpK : ((p : Int) : K) = 0) (hp0 : p ≠ 0) (t : K)
    (m1 m2 polymod : List Int) (hmonic : polymod.getLast? = some 1) (hlen : 2 ≤ polymod.length)
    (hroot : evalL polymod t = 0) :
    ∃ q, polyMulMod m1 m2 polymod p = .ok q ∧ evalL q t = evalL m1 t * evalL m2 t ∧
      q.length = min (m1.length + m2.length - 1) (polymod.length - 1) ∧ (0 < p → InRange p q) := by
  obtain ⟨q, hq, hev, hl, hr⟩ := polyReduceMod_spec hpK hp0 t
    (mulRows p m2 m1 (List.replicate (m1.length + m2.length - 1) 0)) polymod hmonic hlen hroot
  refine ⟨q, ?_, ?_, ?_, ?_⟩
  · unfold polyMulMod
    simp only [hp0, false_and, ↓reduceIte]
    exact hq
  · rw [hev, evalL_mulRows hpK t m2 m1 _ ?_, evalL_replicate_zero, zero_add]
    rcases m1 with _ | ⟨c, cs⟩
    · exact Or.inl rfl
    · right; simp only [List.length_cons, List.length_replicate]; omega
  · rw [hl, mulRows_length, List.length_replicate]
  · intro hp
    exact hr hp (mulRows_inRange hp m2 m1 _ (inRange_replicate_zero hp _))

/-! ## `polynomial_exp_mod` -/

/-- the `while k > 1` loop (right-to-left binary exponentiation): `s · G^(2·⌊k/2⌋)` is invariant.
`P` is any property of coefficient lists that products inherit (e.g. `True`, or "reduced and short"). -/
theorem polyExpLoop_spec {p : Int} (hpK : ((p : Int) : K) = 0) (hp0 : p ≠ 0) (t : K)
    (polymod : List Int) (hmonic : polymod.getLast? = some 1) (hlen : 2 ≤ polymod.length)
    (hroot : evalL polymod t = 0) (P : List Int → Prop)
    (hP : ∀ m1 m2 q, P m1 → P m2 → polyMulMod m1 m2 polymod p = .ok q → P q) :
    ∀ (fuel k : Nat) (G s : List Int), k < fuel → P G → P s →
      ∃ q, polyExpLoop polymod p fuel (k : Int) G s = .ok q ∧
        evalL q t = evalL s t * evalL G t ^ (2 * (k / 2)) ∧ P q
  | 0, k, G, s, h, _, _ => by omega
  | fuel+1, k, G, s, h, hG, hs => by
    unfold polyExpLoop
    by_cases hk : 2 ≤ k
    · have hk' : (k : Int) > 1 := by omega
      have hdiv : pdiv (k : Int) 2 = ((k / 2 : Nat) : Int) := by rw [pdiv_eq_ediv (by norm_num)]; omega
      obtain ⟨G', hG', hevG, -, -⟩ := polyMulMod_spec hpK hp0 t G G polymod hmonic hlen hroot
      have hPG' := hP G G G' hG hG hG'
      simp only [hk', ↓reduceIte, hdiv, hG', bind, Except.bind]
      have hmod : pmod ((k / 2 : Nat) : Int) 2 = (((k / 2) % 2 : Nat) : Int) := by
        rw [pmod_eq_emod (by norm_num)]; omega
      have hsplit : k / 2 = (k / 2) % 2 + 2 * (k / 2 / 2) := by omega
      have hpow : evalL G t ^ (2 * (k / 2)) = (evalL G t * evalL G t) ^ ((k / 2) % 2) *
          (evalL G t * evalL G t) ^ (2 * (k / 2 / 2)) := by
        rw [← pow_add, ← hsplit, ← pow_two, ← pow_mul]
      by_cases hodd : (k / 2) % 2 = 1
      · have : pmod ((k / 2 : Nat) : Int) 2 = 1 := by rw [hmod, hodd]; rfl
        obtain ⟨s', hs', hevs, -, -⟩ := polyMulMod_spec hpK hp0 t G' s polymod hmonic hlen hroot
        have hPs' := hP G' s s' hPG' hs hs'
        simp only [this, ↓reduceIte, hs']
        obtain ⟨q, hq, hevq, hPq⟩ := polyExpLoop_spec hpK hp0 t polymod hmonic hlen hroot P hP fuel (k / 2) G' s'
          (by omega) hPG' hPs'
        refine ⟨q, hq, ?_, hPq⟩
        rw [hevq, hevs, hevG, hpow, hodd]; ring
      · have hev : (k / 2) % 2 = 0 := by omega
        have : ¬ pmod ((k / 2 : Nat) : Int) 2 = 1 := by rw [hmod, hev]; decide
        simp only [this, ↓reduceIte, pure, Except.pure]
        obtain ⟨q, hq, hevq, hPq⟩ := polyExpLoop_spec hpK hp0 t polymod hmonic hlen hroot P hP fuel (k / 2) G' s
          (by omega) hPG' hs
        refine ⟨q, hq, ?_, hPq⟩
        rw [hevq, hevG, hpow, hev]; ring
    · have hk' : ¬ (k : Int) > 1 := by omega
      have : k / 2 = 0 := by omega
      simp only [hk', ↓reduceIte, this, mul_zero, pow_zero, mul_one]
      exact ⟨s, rfl, rfl, hs⟩

/-- `polynomial_exp_mod(base, e, polymod, p)` for `0 ≤ e < p`: no exception and the value at `t` is the
`e`-th power of the value of `base`.  `P` as in `polyExpLoop_spec`. -/
theorem polyExpMod_spec {p : Int} (hpK : ((p : Int) : K) = 0) (hp0 : p ≠ 0) (t : K)
    (polymod : List Int) (hmonic : polymod.getLast? = some 1) (hlen : 2 ≤ polymod.length)
    (hroot : evalL polymod t = 0) (P : List Int → Prop)
    (hP : ∀ m1 m2 q, P m1 → P m2 → polyMulMod m1 m2 polymod p = .ok q → P q)
    (base : List Int) (e : Int) (he0 : 0 ≤ e) (hep : e < p) (hbase : P base) (hone : e % 2 = 0 → P [1]) :
    ∃ q, polyExpMod base e polymod p = .ok q ∧ evalL q t = evalL base t ^ e.toNat ∧ P q := by
  obtain ⟨n, rfl⟩ := Int.eq_ofNat_of_zero_le he0
  unfold polyExpMod
  simp only [hep, not_true_eq_false, ↓reduceIte, Int.toNat_natCast]
  by_cases hn : n = 0
  · subst hn
    simp only [Int.natCast_eq_zero, ↓reduceIte, pow_zero]
    exact ⟨[1], rfl, by simp [evalL], hone (by simp)⟩
  · have hn' : ¬ (n : Int) = 0 := by omega
    simp only [hn', ↓reduceIte]
    have hmod : pmod (n : Int) 2 = ((n % 2 : Nat) : Int) := by rw [pmod_eq_emod (by norm_num)]; omega
    have hsplit : n = n % 2 + 2 * (n / 2) := by omega
    by_cases hodd : n % 2 = 1
    · have : pmod (n : Int) 2 = 1 := by rw [hmod, hodd]; rfl
      simp only [this, ↓reduceIte]
      obtain ⟨q, hq, hev, hPq⟩ := polyExpLoop_spec hpK hp0 t polymod hmonic hlen hroot P hP
        ((n : Int).natAbs + 1) n base base (by omega) hbase hbase
      refine ⟨q, hq, ?_, hPq⟩
      rw [hev]; conv_rhs => rw [hsplit, hodd]
      rw [pow_add, pow_one]
    · have hev : n % 2 = 0 := by omega
      have : ¬ pmod (n : Int) 2 = 1 := by rw [hmod, hev]; decide
      simp only [this, ↓reduceIte]
      obtain ⟨q, hq, hevq, hPq⟩ := polyExpLoop_spec hpK hp0 t polymod hmonic hlen hroot P hP
        ((n : Int).natAbs + 1) n base [1] (by omega) hbase (hone (by omega))
      refine ⟨q, hq, ?_, hPq⟩
      rw [hevq]; conv_rhs => rw [hsplit, hev]
      simp [evalL]

/-- the property "shorter than `polymod`, all coefficients in `[0, p)`" -/
def Reduced (p : Int) (polymod l : List Int) : Prop := l.length < polymod.length ∧ InRange p l

/-- `polynomial_exp_mod` with reduced output: if `base` is reduced (shorter than `polymod`, coefficients in
`[0, p)`) and `1 < p` then so is the result -/
theorem polyExpMod_reduced {p : Int} (hpK : ((p : Int) : K) = 0) (hp1 : 1 < p) (t : K)
    (polymod : List Int) (hmonic : polymod.getLast? = some 1) (hlen : 2 ≤ polymod.length)
    (hroot : evalL polymod t = 0)
    (base : List Int) (e : Int) (he0 : 0 ≤ e) (hep : e < p) (hbase : Reduced p polymod base) :
    ∃ q, polyExpMod base e polymod p = .ok q ∧ evalL q t = evalL base t ^ e.toNat ∧ Reduced p polymod q := by
  have hp0 : p ≠ 0 := by omega
  refine polyExpMod_spec hpK hp0 t polymod hmonic hlen hroot (Reduced p polymod) ?_ base e he0 hep hbase ?_
  · intro m1 m2 q _ _ hq
    obtain ⟨q', hq', -, hl, hr⟩ := polyMulMod_spec hpK hp0 t m1 m2 polymod hmonic hlen hroot
    rw [hq] at hq'
    cases hq'
    exact ⟨by rw [hl]; omega, hr (by omega)⟩
  · refine fun _ => ⟨by simp; omega, ?_⟩
    intro c hc
    simp at hc; omega

/-- (A) summary: the three list helpers compute in the quotient ring: for every commutative ring `K` in which
`p = 0` and every root `t ∈ K` of the monic `polymod` (length ≥ 2), with `⟦l⟧ = evalL l t`:
`⟦reduce poly⟧ = ⟦poly⟧`, `⟦mul m1 m2⟧ = ⟦m1⟧·⟦m2⟧`, `⟦exp base e⟧ = ⟦base⟧^e` (`0 ≤ e < p`), no exception is
raised, results of reduce/mul are shorter than `polymod`, results of mul have all coefficients in `[0, p)`. -/
theorem poly_ops_are_quotient_ring {p : Int} (hpK : ((p : Int) : K) = 0) (hp0 : p ≠ 0) (t : K)
    (polymod : List Int) (hmonic : polymod.getLast? = some 1) (hlen : 2 ≤ polymod.length)
    (hroot : evalL polymod t = 0) :
    (∀ poly, ∃ q, polyReduceMod poly polymod p = .ok q ∧ evalL q t = evalL poly t ∧
      q.length = min poly.length (polymod.length - 1) ∧ (0 < p → InRange p poly → InRange p q)) ∧
    (∀ m1 m2, ∃ q, polyMulMod m1 m2 polymod p = .ok q ∧ evalL q t = evalL m1 t * evalL m2 t ∧
      q.length = min (m1.length + m2.length - 1) (polymod.length - 1) ∧ (0 < p → InRange p q)) ∧
    (∀ base e, 0 ≤ e → e < p → ∃ q, polyExpMod base e polymod p = .ok q ∧
      evalL q t = evalL base t ^ e.toNat) :=
  ⟨fun poly => polyReduceMod_spec hpK hp0 t poly polymod hmonic hlen hroot,
   fun m1 m2 => polyMulMod_spec hpK hp0 t m1 m2 polymod hmonic hlen hroot,
   fun base e he0 hep => by
    obtain ⟨q, hq, hev, -⟩ := polyExpMod_spec hpK hp0 t polymod hmonic hlen hroot (fun _ => True)
      (fun _ _ _ _ _ _ => trivial) base e he0 hep trivial (fun _ => trivial)
    exact ⟨q, hq, hev⟩⟩

end NTCip
