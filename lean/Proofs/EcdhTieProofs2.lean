import Proofs.EcdhTieProofs
/-!
# Proofs.EcdhTieProofs2 — the remaining methods: `generate_sharedsecret_bytes`, the loaders that delegate to a key
constructor, `set_curve`, `get_public_key`, `__init__`
-/
namespace EcdhTie
open Ecdh Gen.Ecdh
variable {Crv Pt Ent : Type} [DecidableEq Crv]

theorem secretBytes_source (env : Env Crv Pt Ent) (s : State Crv Pt) :
    stepSource env s .secretBytes = step env s .secretBytes := by
  obtain ⟨c, p, q⟩ := s
  cases p with
  | none => simp [ecdh_run]
  | some sk =>
    cases q with
    | none => simp [ecdh_run]
    | some vk =>
      cases c with
      | none => simp [ecdh_run]
      | some c =>
        by_cases h1 : sk.curve = c
        · by_cases h2 : c = vk.curve
          · cases hm : env.mul vk.point sk.d with
            | error e => simp [h1, h2, hm, ecdh_run]
            | ok R =>
              cases hi : env.isInf R with
              | true => simp [h1, h2, hm, hi, ecdh_run]
              | false =>
                cases hx : env.xOf R with
                | error e => simp [h1, h2, hm, hi, hx, ecdh_run]
                | ok v =>
                  cases hn : numberToStringInt v (env.fieldP vk.curve) with
                  | error e => simp [h1, h2, hm, hi, hx, hn, ecdh_run]
                  | ok b => simp [h1, h2, hm, hi, hx, hn, ecdh_run]
          · simp [h1, h2, ecdh_run]
        · simp [h1, ecdh_run]

end EcdhTie
