/-!
# Proofs.UtilSkel — source skeletons of the codec part of `util.py` the model follows

The control skeleton (statements, tests, slice bounds, constants; messages and comments dropped) of every
function that `Model/Der.lean` / `Model/Util.lean` transcribe, AS TRANSCRIBED.  `harness/translate/gen_der.py` re-extracts the
same skeleton from the working tree on every run (`Generated/DerGuards.lean`, `Generated/UtilGuards.lean`) and
`Props/C11.tie_skeleton` / `Props/C12.tie_skeleton` prove the two equal: a change of the source's control flow that
the model does not follow breaks the proof.  Update an entry ONLY together with the model function it describes.
-/
namespace Util.Skel

def orderlen : List String := [
  "return (1 + len('%x' % order)) // 2"
]

def number_to_string : List String := [
  "l = orderlen(order)",
  "fmt_str = '%0' + str(2 * l) + 'x'",
  "string = binascii.unhexlify((fmt_str % num).encode())",
  "assert len(string) == l",
  "return string"
]

def number_to_string_crop : List String := [
  "l = orderlen(order)",
  "fmt_str = '%0' + str(2 * l) + 'x'",
  "string = binascii.unhexlify((fmt_str % num).encode())",
  "return string[:l]"
]

def string_to_number : List String := [
  "return int(binascii.hexlify(string), 16)"
]

def string_to_number_fixedlen : List String := [
  "l = orderlen(order)",
  "assert len(string) == l",
  "return int(binascii.hexlify(string), 16)"
]

def sigencode_strings : List String := [
  "r_str = number_to_string(r, order)",
  "s_str = number_to_string(s, order)",
  "return (r_str, s_str)"
]

def sigencode_string : List String := [
  "(r_str, s_str) = sigencode_strings(r, s, order)",
  "return r_str + s_str"
]

def sigencode_der : List String := [
  "return der.encode_sequence(der.encode_integer(r), der.encode_integer(s))"
]

def sigdecode_string : List String := [
  "signature = normalise_bytes(signature)",
  "l = orderlen(order)",
  "if not len(signature) == 2 * l",
  ".raise MalformedSignature",
  "r = string_to_number_fixedlen(signature[:l], order)",
  "s = string_to_number_fixedlen(signature[l:], order)",
  "return (r, s)"
]

def sigdecode_strings : List String := [
  "if not len(rs_strings) == 2",
  ".raise MalformedSignature",
  "(r_str, s_str) = rs_strings",
  "r_str = normalise_bytes(r_str)",
  "s_str = normalise_bytes(s_str)",
  "l = orderlen(order)",
  "if not len(r_str) == l",
  ".raise MalformedSignature",
  "if not len(s_str) == l",
  ".raise MalformedSignature",
  "r = string_to_number_fixedlen(r_str, order)",
  "s = string_to_number_fixedlen(s_str, order)",
  "return (r, s)"
]

def sigdecode_der : List String := [
  "sig_der = normalise_bytes(sig_der)",
  "(rs_strings, empty) = der.remove_sequence(sig_der)",
  "if empty != b''",
  ".raise UnexpectedDER",
  "(r, rest) = der.remove_integer(rs_strings)",
  "(s, empty) = der.remove_integer(rest)",
  "if empty != b''",
  ".raise UnexpectedDER",
  "return (r, s)"
]

end Util.Skel
