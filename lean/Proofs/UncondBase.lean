import Props.NamedPrimes
/-!
# Proofs.UncondBase — shared by the per-property files `Props/Uncond<Cxx>.lean`: membership / primality of the (now all 17) certified curves of
`NamedPrimes.unconditionalCurves` from the kernel-checked certificates, and primality of all 34 numbers of the table
-/
namespace Uncond
open Named NamedPrimes Ecdsa GroupInterface Jac

variable {r : Gen.CurveRow}

theorem mem_table (hr : r ∈ unconditionalCurves) : r ∈ Gen.curveTable := (unconditional_subset r hr).1

theorem primeP (hr : r ∈ unconditionalCurves) : r.p.Prime := (unconditional_subset r hr).2.1

theorem primeN (hr : r ∈ unconditionalCurves) : r.n.Prime := (unconditional_subset r hr).2.2

/-- `ZMod p` is a field: from the certificate -/
theorem factP (hr : r ∈ unconditionalCurves) : Fact r.p.Prime := ⟨primeP hr⟩

/-- primality of all 34 numbers of the table (from the certificates; any uncertified number is a hypothesis here) -/
theorem all_primes :
    ∀ c ∈ Gen.curveTable, c.p.Prime ∧ c.n.Prime := by
  intro c hc
  simp only [Gen.curveTable, List.mem_cons, List.mem_nil_iff, or_false] at hc
  rcases hc with rfl | rfl | rfl | rfl | rfl | rfl | rfl | rfl | rfl | rfl | rfl | rfl | rfl | rfl | rfl | rfl | rfl
  · exact ⟨prime_p_NIST192p, prime_n_NIST192p⟩
  · exact ⟨prime_p_NIST224p, prime_n_NIST224p⟩
  · exact ⟨prime_p_NIST256p, prime_n_NIST256p⟩
  · exact ⟨prime_p_NIST384p, prime_n_NIST384p⟩
  · exact ⟨prime_p_NIST521p, prime_n_NIST521p⟩
  · exact ⟨prime_p_SECP256k1, prime_n_SECP256k1⟩
  · exact ⟨prime_p_BRAINPOOLP160r1, prime_n_BRAINPOOLP160r1⟩
  · exact ⟨prime_p_BRAINPOOLP192r1, prime_n_BRAINPOOLP192r1⟩
  · exact ⟨prime_p_BRAINPOOLP224r1, prime_n_BRAINPOOLP224r1⟩
  · exact ⟨prime_p_BRAINPOOLP256r1, prime_n_BRAINPOOLP256r1⟩
  · exact ⟨prime_p_BRAINPOOLP320r1, prime_n_BRAINPOOLP320r1⟩
  · exact ⟨prime_p_BRAINPOOLP384r1, prime_n_BRAINPOOLP384r1⟩
  · exact ⟨prime_p_BRAINPOOLP512r1, prime_n_BRAINPOOLP512r1⟩
  · exact ⟨prime_p_SECP112r1, prime_n_SECP112r1⟩
  · exact ⟨prime_p_SECP112r2, prime_n_SECP112r2⟩
  · exact ⟨prime_p_SECP128r1, prime_n_SECP128r1⟩
  · exact ⟨prime_p_SECP160r1, prime_n_SECP160r1⟩

theorem order_small (hr : r ∈ Gen.curveTable) : (r.n : ℤ) ≤ 256 ^ 126 := by
  have : ∀ c ∈ Gen.curveTable, (c.n : ℤ) ≤ 256 ^ 126 := by decide +kernel
  exact this r hr

end Uncond
