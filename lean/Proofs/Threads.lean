import Model.Threads
/-! # Proofs.Threads — the invariant of the interleaving model (generic in cells, values, results; any number of
threads, any schedule) -/
namespace Threads
variable {K V R : Type}

theorem Phases.set_self [DecidableEq K] (ph : Phases K) (k : K) : ph.set k k = .canon := by simp [Phases.set]
theorem Phases.set_other [DecidableEq K] (ph : Phases K) {k k' : K} (h : k' ≠ k) : ph.set k k' = ph k' := by
  simp [Phases.set, h]

theorem Phases.le_set [DecidableEq K] (ph : Phases K) (k : K) : ∀ k', ph k' = .canon → ph.set k k' = .canon := by
  intro k' h
  by_cases hk : k' = k
  · subst hk; exact Phases.set_self _ _
  · rw [Phases.set_other _ hk]; exact h

/-- more knowledge (more cells in phase `canon`) never hurts -/
theorem Safe.mono [DecidableEq K] {free : K → Prop} {good : K → V → Prop} {c1 : K → V} {acc : R → Prop}
    {p : Prog K V R} {ph : Phases K} (h : Safe free good c1 acc ph p) :
    ∀ ph' : Phases K, (∀ k, ph k = .canon → ph' k = .canon) → Safe free good c1 acc ph' p := by
  induction h with
  | ret ha => intro ph' _; exact Safe.ret ha
  | @read ph k cont hnf hany hcan ih1 ih2 =>
    intro ph' hle
    apply Safe.read hnf
    · intro hph v hg hne
      have : ph k = .any := by
        cases hk : ph k with
        | any => rfl
        | canon => rw [hle k hk] at hph; cases hph
      exact ih1 this v hg hne ph' hle
    · apply ih2
      intro k' hk'
      by_cases hkk : k' = k
      · subst hkk; exact Phases.set_self _ _
      · rw [Phases.set_other _ hkk] at hk' ⊢; exact hle k' hk'
  | @write ph k cont hnf hk ih =>
    intro ph' hle
    apply Safe.write hnf
    apply ih
    intro k' hk'
    by_cases hkk : k' = k
    · subst hkk; exact Phases.set_self _ _
    · rw [Phases.set_other _ hkk] at hk' ⊢; exact hle k' hk'
  | @readFree ph k cont hf hall ih =>
    intro ph' hle
    exact Safe.readFree hf (fun v hv => ih v hv ph' hle)
  | @writeFree ph k v cont hf hg hk ih =>
    intro ph' hle
    exact Safe.writeFree hf hg (ih ph' hle)

/-- **inv_step**: one step of any thread preserves the invariant -/
theorem inv_step [DecidableEq K] [DecidableEq V] (free : K → Prop) (good : K → V → Prop) (c1 : K → V)
    (hc1 : ∀ k, ¬ free k → good k (c1 k))
    (c : Cfg K V R) (i : Nat) (h : Inv free good c1 c) : Inv free good c1 (step c1 c i) := by
  obtain ⟨hg, hs, hp⟩ := h
  unfold step
  cases hti : c.thr[i]? with
  | none => exact ⟨hg, hs, hp⟩
  | some t =>
    have htmem : t ∈ c.thr := List.mem_of_getElem? hti
    have hst := hs t htmem
    obtain ⟨prog, ph, acc⟩ := t
    simp only at hst ⊢
    cases prog with
    | ret r => exact ⟨hg, hs, hp⟩
    | read k cont =>
      simp only
      cases hst with
      | read hnf hany hcan =>
        refine ⟨hg, ?_, ?_⟩
        · intro t' ht'
          rcases List.mem_or_eq_of_mem_set ht' with h1 | h1
          · exact hs t' h1
          · subst h1
            simp only
            by_cases hcell : c.heap k = c1 k
            · simp only [hcell, if_true]; exact hcan
            · simp only [hcell, if_false]
              cases hph : ph k with
              | any => exact hany hph _ (hg k) hcell
              | canon => exact absurd (hp k hnf ⟨_, htmem, hph⟩) hcell
        · intro k' hnf' ⟨t', ht', hph⟩
          rcases List.mem_or_eq_of_mem_set ht' with h1 | h1
          · exact hp k' hnf' ⟨t', h1, hph⟩
          · subst h1
            simp only at hph
            by_cases hcell : c.heap k = c1 k
            · simp only [hcell, if_true] at hph
              by_cases hk : k' = k
              · subst hk; exact hcell
              · rw [Phases.set_other _ hk] at hph
                exact hp k' hnf' ⟨_, htmem, hph⟩
            · simp only [hcell, if_false] at hph
              exact hp k' hnf' ⟨_, htmem, hph⟩
      | readFree hf hall =>
        refine ⟨hg, ?_, ?_⟩
        · intro t' ht'
          rcases List.mem_or_eq_of_mem_set ht' with h1 | h1
          · exact hs t' h1
          · subst h1
            simp only
            have hsafe := hall _ (hg k)
            split
            · exact hsafe.mono _ (Phases.le_set _ _)
            · exact hsafe
        · intro k' hnf' ⟨t', ht', hph⟩
          rcases List.mem_or_eq_of_mem_set ht' with h1 | h1
          · exact hp k' hnf' ⟨t', h1, hph⟩
          · subst h1
            simp only at hph
            have hk : k' ≠ k := fun e => hnf' (e ▸ hf)
            split at hph
            · rw [Phases.set_other _ hk] at hph
              exact hp k' hnf' ⟨_, htmem, hph⟩
            · exact hp k' hnf' ⟨_, htmem, hph⟩
    | write k v cont =>
      simp only
      cases hst with
      | write hnf hk =>
        refine ⟨?_, ?_, ?_⟩
        · intro k'
          by_cases hkk : k' = k
          · subst hkk; simp only [updHeap, if_true]; exact hc1 _ hnf
          · simp only [updHeap, hkk, if_false]; exact hg k'
        · intro t' ht'
          rcases List.mem_or_eq_of_mem_set ht' with h1 | h1
          · exact hs t' h1
          · subst h1; exact hk
        · intro k' hnf' ⟨t', ht', hph⟩
          by_cases hkk : k' = k
          · subst hkk; simp [updHeap]
          · simp only [updHeap, hkk, if_false]
            rcases List.mem_or_eq_of_mem_set ht' with h1 | h1
            · exact hp k' hnf' ⟨t', h1, hph⟩
            · subst h1
              simp only at hph
              rw [Phases.set_other _ hkk] at hph
              exact hp k' hnf' ⟨_, htmem, hph⟩
      | writeFree hf hgv hk =>
        refine ⟨?_, ?_, ?_⟩
        · intro k'
          by_cases hkk : k' = k
          · subst hkk; simp only [updHeap, if_true]; exact hgv
          · simp only [updHeap, hkk, if_false]; exact hg k'
        · intro t' ht'
          rcases List.mem_or_eq_of_mem_set ht' with h1 | h1
          · exact hs t' h1
          · subst h1; exact hk.mono _ (Phases.le_set _ _)
        · intro k' hnf' ⟨t', ht', hph⟩
          have hkk : k' ≠ k := fun e => hnf' (e ▸ hf)
          simp only [updHeap, hkk, if_false]
          rcases List.mem_or_eq_of_mem_set ht' with h1 | h1
          · exact hp k' hnf' ⟨t', h1, hph⟩
          · subst h1
            simp only at hph
            rw [Phases.set_other _ hkk] at hph
            exact hp k' hnf' ⟨_, htmem, hph⟩

/-- **inv_all_schedules**: the invariant holds after ANY schedule of ANY number of threads -/
theorem inv_all_schedules [DecidableEq K] [DecidableEq V] (free : K → Prop) (good : K → V → Prop) (c1 : K → V)
    (hc1 : ∀ k, ¬ free k → good k (c1 k)) (sched : List Nat) :
    ∀ c : Cfg K V R, Inv free good c1 c → Inv free good c1 (run c1 c sched) := by
  induction sched with
  | nil => intro c h; exact h
  | cons i rest ih => intro c h; exact ih _ (inv_step free good c1 hc1 c i h)

/-- the acceptance predicate of a thread never changes -/
theorem step_acc [DecidableEq K] [DecidableEq V] (c1 : K → V) (c : Cfg K V R) (i j : Nat) :
    ((step c1 c i).thr[j]?).map (·.acc) = (c.thr[j]?).map (·.acc) := by
  unfold step
  cases hti : c.thr[i]? with
  | none => rfl
  | some t =>
    obtain ⟨prog, ph, acc⟩ := t
    cases prog with
    | ret r => rfl
    | read k cont =>
      simp only
      by_cases hij : i = j
      · subst hij
        have hlt : i < c.thr.length := (List.getElem?_eq_some_iff.mp hti).1
        simp [List.getElem?_set_self hlt, hti]
      · simp [List.getElem?_set_ne hij]
    | write k v cont =>
      simp only
      by_cases hij : i = j
      · subst hij
        have hlt : i < c.thr.length := (List.getElem?_eq_some_iff.mp hti).1
        simp [List.getElem?_set_self hlt, hti]
      · simp [List.getElem?_set_ne hij]

theorem run_acc [DecidableEq K] [DecidableEq V] (c1 : K → V) (sched : List Nat) :
    ∀ (c : Cfg K V R) (j : Nat), ((run c1 c sched).thr[j]?).map (·.acc) = (c.thr[j]?).map (·.acc) := by
  induction sched with
  | nil => intro c j; rfl
  | cons i rest ih => intro c j; simp only [run]; rw [ih, step_acc]

/-- **linearizable** (result half): under any schedule, a thread that has returned has returned a result accepted by
the predicate it started with -/
theorem finished_result_ok [DecidableEq K] [DecidableEq V] (free : K → Prop) (good : K → V → Prop) (c1 : K → V)
    (hc1 : ∀ k, ¬ free k → good k (c1 k)) (c : Cfg K V R) (h : Inv free good c1 c) (sched : List Nat) (j : Nat)
    (t0 t : Thread K V R) (r : R) (h0 : c.thr[j]? = some t0) (ht : (run c1 c sched).thr[j]? = some t)
    (hr : t.prog = .ret r) : t0.acc r := by
  have hinv := inv_all_schedules free good c1 hc1 sched c h
  have hs := hinv.2.1 t (List.mem_of_getElem? ht)
  have hacc := run_acc c1 sched c j
  rw [h0, ht] at hacc
  simp only [Option.map_some, Option.some.injEq] at hacc
  rw [hr] at hs
  cases hs with
  | ret ha => rw [← hacc]; exact ha

/-- every value ever stored in a cell is good, and once a thread has seen or written the canonical value of a monotone
cell the cell keeps it (stability of `z = 1` / of the complete table) -/
theorem canon_stable [DecidableEq K] [DecidableEq V] (free : K → Prop) (good : K → V → Prop) (c1 : K → V)
    (hc1 : ∀ k, ¬ free k → good k (c1 k)) (c : Cfg K V R) (h : Inv free good c1 c) (sched : List Nat) (k : K) :
    good k ((run c1 c sched).heap k) ∧
    (¬ free k → (∃ t ∈ (run c1 c sched).thr, t.ph k = .canon) → (run c1 c sched).heap k = c1 k) :=
  ⟨(inv_all_schedules free good c1 hc1 sched c h).1 k, (inv_all_schedules free good c1 hc1 sched c h).2.2 k⟩

/-- **composition**: if `p` is safe and every accepted result is continued safely (whatever has become canonical in
between), then `p ; K` is safe -/
theorem Safe.bind [DecidableEq K] {S : Type} {free : K → Prop} {good : K → V → Prop} {c1 : K → V} {acc : R → Prop}
    {acc' : S → Prop} {p : Prog K V R} {ph : Phases K} (h : Safe free good c1 acc ph p) (f : R → Prog K V S)
    (hf : ∀ r (ph' : Phases K), acc r → (∀ k, ph k = .canon → ph' k = .canon) → Safe free good c1 acc' ph' (f r)) :
    Safe free good c1 acc' ph (p.bind f) := by
  induction h with
  | ret ha => exact hf _ _ ha (fun _ h => h)
  | @read ph k cont hnf hany hcan ih1 ih2 =>
    simp only [Prog.bind]
    apply Safe.read hnf
    · intro hph v hg hne
      exact ih1 hph v hg hne hf
    · apply ih2
      intro r ph' ha hle
      apply hf r ph' ha
      intro k' hk'
      exact hle k' (Phases.le_set _ _ k' hk')
  | @write ph k cont hnf hk ih =>
    simp only [Prog.bind]
    apply Safe.write hnf
    apply ih
    intro r ph' ha hle
    apply hf r ph' ha
    intro k' hk'
    exact hle k' (Phases.le_set _ _ k' hk')
  | @readFree ph k cont hfr hall ih =>
    simp only [Prog.bind]
    exact Safe.readFree hfr (fun v hv => ih v hv hf)
  | @writeFree ph k v cont hfr hg hk ih =>
    simp only [Prog.bind]
    exact Safe.writeFree hfr hg (ih hf)

/-- **sequences of operations**: if every program of the list is safe from ANY phases (each for its own acceptance
predicate), the thread that runs them one after the other is safe, and its list of results is accepted pointwise -/
theorem Safe.seqList [DecidableEq K] {free : K → Prop} {good : K → V → Prop} {c1 : K → V} :
    ∀ (aps : List ((R → Prop) × Prog K V R)),
    (∀ ap ∈ aps, ∀ ph : Phases K, Safe free good c1 ap.1 ph ap.2) →
    ∀ ph : Phases K, Safe free good c1 (accAll (aps.map (·.1))) ph (Prog.seqList (aps.map (·.2)))
  | [], _, ph => Safe.ret trivial
  | ap :: aps, h, ph => by
    simp only [List.map_cons, Prog.seqList]
    refine Safe.bind (h ap (List.mem_cons_self ..) ph) _ ?_
    intro r ph' hr _
    refine Safe.bind (Safe.seqList aps (fun ap' hm => h ap' (List.mem_cons_of_mem _ hm)) ph') _ ?_
    intro rs ph'' hrs _
    exact Safe.ret ⟨hr, hrs⟩

end Threads
