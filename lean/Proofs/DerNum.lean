import Proofs.DerDigits
/-!
# Proofs.DerNum — base-128 sub-identifiers (`encode_number` / `read_number`): big-endian base-128 digit
strings with a continuation bit on all but the last byte and no leading `0x80` are in bijection with ℕ.
-/
set_option linter.unusedSimpArgs false
namespace Der

/-! ## bytes -/

theorem u8_cont : ∀ k : Fin 128,
    (UInt8.ofNat (k.val ||| 0x80)) &&& 0x80 ≠ 0
    ∧ ((UInt8.ofNat (k.val ||| 0x80)) &&& 0x7F).toNat = k.val
    ∧ (UInt8.ofNat (k.val ||| 0x80)) &&& 0x7F = UInt8.ofNat k.val
    ∧ (k.val ≠ 0 → UInt8.ofNat (k.val ||| 0x80) ≠ 0x80)
    ∧ (UInt8.ofNat k.val) &&& 0x80 = 0
    ∧ ((UInt8.ofNat k.val) &&& 0x7F).toNat = k.val
    ∧ UInt8.ofNat k.val ≠ 0x80 := by
  decide +kernel

theorem u8_cont_inv : ∀ b : UInt8, b &&& 0x80 ≠ 0 →
    UInt8.ofNat ((b &&& 0x7F).toNat ||| 0x80) = b ∧ (b ≠ 0x80 → (b &&& 0x7F).toNat ≠ 0) := by
  apply forall_u8; decide +kernel

theorem u8_low_lt : ∀ b : UInt8, (b &&& 0x7F).toNat < 128 := by
  apply forall_u8; decide +kernel

theorem shl7 (a : Nat) : a <<< 7 = a * 128 := Nat.shiftLeft_eq a 7
theorem shr7 (a : Nat) : a >>> 7 = a / 128 := Nat.shiftRight_eq_div_pow a 7
theorem and7f (a : Nat) : a &&& 0x7F = a % 128 := Nat.and_two_pow_sub_one_eq_mod a 7

/-! ## value of a digit string -/

/-- the accumulator of `read_number` after the bytes `s`, starting from `acc` -/
def b128Fold (acc : Nat) (s : Bytes) : Nat := s.foldl (fun a d => a * 128 + (d &&& 0x7F).toNat) acc

def b128Val (s : Bytes) : Nat := b128Fold 0 s

/-- every byte has the continuation bit -/
def AllCont (s : Bytes) : Prop := ∀ d ∈ s, d &&& 0x80 ≠ 0

/-- no leading `0x80` (a padded sub-identifier) -/
def NoLead80 (s : Bytes) : Prop := ∀ d t, s = d :: t → d ≠ 0x80

theorem b128Fold_nil (a : Nat) : b128Fold a [] = a := rfl
theorem b128Fold_cons (a : Nat) (d : UInt8) (t : Bytes) :
    b128Fold a (d :: t) = b128Fold (a * 128 + (d &&& 0x7F).toNat) t := rfl
theorem b128Fold_snoc (a : Nat) (s : Bytes) (d : UInt8) :
    b128Fold a (s ++ [d]) = b128Fold a s * 128 + (d &&& 0x7F).toNat := by
  simp [b128Fold, List.foldl_append]

theorem b128Fold_ge (a : Nat) (s : Bytes) : a ≤ b128Fold a s := by
  induction s generalizing a with
  | nil => exact Nat.le_refl _
  | cons d t ih => rw [b128Fold_cons]; have := ih (a * 128 + (d &&& 0x7F).toNat); omega

theorem b128Val_nil : b128Val [] = 0 := rfl
theorem b128Val_snoc (s : Bytes) (d : UInt8) : b128Val (s ++ [d]) = b128Val s * 128 + (d &&& 0x7F).toNat :=
  b128Fold_snoc 0 s d

/-! ## `b128Digits` -/

theorem b128Digits_zero : b128Digits 0 = [] := by rw [b128Digits]

theorem b128Digits_pos (n : Nat) (h : 0 < n) :
    b128Digits n = b128Digits (n / 128) ++ [UInt8.ofNat ((n % 128) ||| 0x80)] := by
  cases n with
  | zero => omega
  | succ n => rw [b128Digits, shr7, and7f]

theorem b128Digits_ne_nil (n : Nat) (h : 0 < n) : b128Digits n ≠ [] := by
  rw [b128Digits_pos n h]; simp

theorem allCont_b128Digits (n : Nat) : AllCont (b128Digits n) := by
  induction n using b128Digits.induct with
  | case1 => intro d hd; simp [b128Digits_zero] at hd
  | case2 n ih =>
    rw [shr7] at ih
    rw [b128Digits_pos (n+1) (by omega)]
    intro d hd
    simp only [List.mem_append, List.mem_singleton] at hd
    rcases hd with hd | hd
    · exact ih d hd
    · subst hd; exact (u8_cont ⟨(n+1) % 128, by omega⟩).1

theorem b128Val_b128Digits (n : Nat) : b128Val (b128Digits n) = n := by
  induction n using b128Digits.induct with
  | case1 => simp [b128Digits_zero, b128Val_nil]
  | case2 n ih =>
    rw [shr7] at ih
    rw [b128Digits_pos (n+1) (by omega), b128Val_snoc, ih, (u8_cont ⟨(n+1) % 128, by omega⟩).2.1]
    simp only; omega

theorem noLead80_b128Digits (n : Nat) : NoLead80 (b128Digits n) := by
  induction n using b128Digits.induct with
  | case1 => intro d t h; simp [b128Digits_zero] at h
  | case2 n ih =>
    rw [shr7] at ih
    intro d t h
    rw [b128Digits_pos (n+1) (by omega)] at h
    by_cases hq : (n + 1) / 128 = 0
    · rw [hq, b128Digits_zero] at h
      simp only [List.nil_append, List.cons.injEq] at h
      rw [← h.1]
      exact (u8_cont ⟨(n+1) % 128, by omega⟩).2.2.2.1 (by simp only; omega)
    · have hne := b128Digits_ne_nil ((n+1)/128) (by omega)
      match hm : b128Digits ((n+1)/128), hne with
      | d' :: t', _ =>
        rw [hm] at h
        simp only [List.cons_append, List.cons.injEq] at h
        rw [← h.1]
        exact ih d' t' hm

theorem allCont_init (init : Bytes) (last : UInt8) (h : AllCont (init ++ [last])) :
    AllCont init ∧ last &&& 0x80 ≠ 0 :=
  ⟨fun d hd => h d (by simp [hd]), h last (by simp)⟩

theorem noLead80_init (init : Bytes) (last : UInt8) (h : NoLead80 (init ++ [last])) : NoLead80 init := by
  intro d t hd; subst hd; exact h d (t ++ [last]) (by simp)

/-- uniqueness: continuation-bit digits without a leading `0x80` are the encoder's digits of their value -/
theorem b128Digits_b128Val (pre : Bytes) (hc : AllCont pre) (hn : NoLead80 pre) :
    b128Digits (b128Val pre) = pre := by
  generalize hm : b128Val pre = m
  induction m using b128Digits.induct generalizing pre with
  | case1 =>
    cases pre with
    | nil => exact b128Digits_zero
    | cons d t =>
      exfalso
      have h1 := (u8_cont_inv d (hc d (by simp))).2 (hn d t rfl)
      have h2 := b128Fold_ge (0 * 128 + (d &&& 0x7F).toNat) t
      have : b128Val (d :: t) = b128Fold (0 * 128 + (d &&& 0x7F).toNat) t := rfl
      omega
  | case2 n ih =>
    rw [shr7] at ih
    have hs : pre ≠ [] := by intro h0; subst h0; simp [b128Val_nil] at hm
    obtain ⟨init, last, rfl⟩ := snoc_cases pre hs
    rw [b128Val_snoc] at hm
    have hl := u8_low_lt last
    obtain ⟨hci, hcl⟩ := allCont_init init last hc
    rw [b128Digits_pos (n+1) (by omega)]
    have h1 : b128Val init = (n+1) / 128 := by omega
    have h2 : (last &&& 0x7F).toNat = (n+1) % 128 := by omega
    rw [ih init hci (noLead80_init init last hn) h1, ← h2, (u8_cont_inv last hcl).1]

/-! ## `encode_number` -/

theorem encodeNumber_eq (n : Nat) :
    encodeNumber n = b128Digits (n / 128) ++ [UInt8.ofNat (n % 128)] := by
  by_cases h : n = 0
  · subst h; simp [encodeNumber, b128Digits_zero]
  · unfold encodeNumber
    rw [b128Digits_pos n (by omega)]
    have hne : (b128Digits (n / 128) ++ [UInt8.ofNat (n % 128 ||| 0x80)]).isEmpty = false := by simp
    have hb := (u8_cont ⟨n % 128, by omega⟩).2.2.1
    simp only at hb
    simp only [hne, Bool.false_eq_true, if_false, List.reverse_append, List.reverse_cons, List.reverse_nil,
      List.nil_append, List.singleton_append, List.reverse_reverse, hb]

theorem encodeNumber_ne_nil (n : Nat) : encodeNumber n ≠ [] := by rw [encodeNumber_eq]; simp

theorem encodeNumber_length_pos (n : Nat) : 0 < (encodeNumber n).length :=
  List.length_pos_iff.mpr (encodeNumber_ne_nil n)

/-! ## `read_number` -/

theorem loop_run (pre : Bytes) (d : UInt8) (rest : Bytes) (acc k : Nat) (hc : AllCont pre) (hd : d &&& 0x80 = 0) :
    readNumberLoop (pre ++ d :: rest) acc k = .ok (b128Fold acc pre * 128 + (d &&& 0x7F).toNat, k + pre.length + 1) := by
  induction pre generalizing acc k with
  | nil => simp [readNumberLoop, hd, shl7, b128Fold_nil]
  | cons c t ih =>
    have hcc : c &&& 0x80 ≠ 0 := hc c (by simp)
    have hct : AllCont t := fun x hx => hc x (by simp [hx])
    simp only [List.cons_append, readNumberLoop, shl7]
    rw [if_neg hcc, ih _ _ hct, b128Fold_cons]
    simp only [List.length_cons]; congr 2; omega

theorem loop_ok {s : Bytes} {acc k n ll : Nat} (h : readNumberLoop s acc k = .ok (n, ll)) :
    ∃ pre d rest, s = pre ++ d :: rest ∧ AllCont pre ∧ d &&& 0x80 = 0 ∧ ll = k + pre.length + 1
      ∧ n = b128Fold acc pre * 128 + (d &&& 0x7F).toNat := by
  induction s generalizing acc k with
  | nil => simp [readNumberLoop] at h
  | cons c t ih =>
    simp only [readNumberLoop, shl7] at h
    split at h
    · rename_i hc
      simp only [Except.ok.injEq, Prod.mk.injEq] at h
      exact ⟨[], c, t, rfl, (by intro d hd; cases hd), hc, (by simp [h.2.symm]), (by simp [b128Fold_nil, h.1.symm])⟩
    · rename_i hc
      obtain ⟨pre, d, rest, hs, hp, hd, hll, hn⟩ := ih h
      refine ⟨c :: pre, d, rest, by rw [hs]; rfl, ?_, hd, ?_, ?_⟩
      · intro x hx
        simp only [List.mem_cons] at hx
        rcases hx with hx | hx
        · subst hx; exact hc
        · exact hp x hx
      · simp only [List.length_cons]; omega
      · rw [b128Fold_cons]; exact hn

theorem loop_err {s : Bytes} {acc k : Nat} {e : PyErr} (h : readNumberLoop s acc k = .error e) : e = .unexpectedDER := by
  induction s generalizing acc k with
  | nil => simp [readNumberLoop] at h; exact h.symm
  | cons c t ih =>
    simp only [readNumberLoop] at h
    split at h
    · cases h
    · exact ih h

/-- an accepted sub-identifier is the encoder's output for its value, followed by the unread bytes -/
theorem readNumber_ok {s : Bytes} {n ll : Nat} (h : readNumber s = .ok (n, ll)) :
    ∃ rest, s = encodeNumber n ++ rest ∧ ll = (encodeNumber n).length := by
  unfold readNumber at h
  match s, h with
  | b0 :: s', h =>
    simp only [List.isEmpty_cons, Bool.false_eq_true, if_false, idx_zero_cons, bind, Except.bind] at h
    split at h
    · cases h
    · rename_i hb0
      obtain ⟨pre, d, rest, hs, hp, hd, hll, hn⟩ := loop_ok h
      have hlow := u8_low_lt d
      have hlead : NoLead80 pre := by
        intro c t hc
        subst hc
        simp only [List.cons_append, List.cons.injEq] at hs
        rw [← hs.1]; exact hb0
      have hv : b128Fold 0 pre = b128Val pre := rfl
      rw [hv] at hn
      have h1 : n / 128 = b128Val pre := by omega
      have h2 : n % 128 = (d &&& 0x7F).toNat := by omega
      have henc : encodeNumber n = pre ++ [d] := by
        rw [encodeNumber_eq, h1, h2, b128Digits_b128Val pre hp hlead, (u8_short d hd).2.1]
      refine ⟨rest, ?_, ?_⟩
      · rw [henc, hs]; simp
      · rw [henc, hll]; simp
where
  idx_zero_cons (b : UInt8) (t : Bytes) : idx (b :: t) 0 = .ok b := rfl

theorem readNumber_encode (n : Nat) (rest : Bytes) :
    readNumber (encodeNumber n ++ rest) = .ok (n, (encodeNumber n).length) := by
  rw [encodeNumber_eq]
  have hk := u8_cont ⟨n % 128, by omega⟩
  simp only at hk
  have hrun := loop_run (b128Digits (n / 128)) (UInt8.ofNat (n % 128)) rest 0 0 (allCont_b128Digits _) hk.2.2.2.2.1
  have hhead : ∃ b0 t, b128Digits (n / 128) ++ [UInt8.ofNat (n % 128)] ++ rest = b0 :: t ∧ b0 ≠ 0x80 := by
    by_cases hq : n / 128 = 0
    · rw [hq, b128Digits_zero]
      exact ⟨_, rest, rfl, hk.2.2.2.2.2.2⟩
    · have hne := b128Digits_ne_nil (n/128) (by omega)
      match hm : b128Digits (n/128), hne with
      | d' :: t', _ => exact ⟨d', t' ++ [UInt8.ofNat (n % 128)] ++ rest, by simp, noLead80_b128Digits (n/128) d' t' hm⟩
  obtain ⟨b0, t, hbt, hb0⟩ := hhead
  unfold readNumber
  rw [hbt]
  simp only [List.isEmpty_cons, Bool.false_eq_true, if_false, idx, List.getElem?_cons_zero, bind, Except.bind]
  rw [if_neg hb0, ← hbt, List.append_assoc, List.singleton_append, hrun]
  have hv : b128Fold 0 (b128Digits (n / 128)) = n / 128 := b128Val_b128Digits (n / 128)
  rw [hv, hk.2.2.2.2.2.1]
  simp only [List.length_append, List.length_singleton]
  congr 2 <;> omega

/-- `read_number` fails only with `UnexpectedDER` (also on the empty string, since fix 23101b2) -/
theorem readNumber_err {s : Bytes} {e : PyErr} (h : readNumber s = .error e) : e = .unexpectedDER := by
  unfold readNumber at h
  match s, h with
  | [], h => cases h; rfl
  | b0 :: s', h =>
    simp only [List.isEmpty_cons, Bool.false_eq_true, if_false, idx, List.getElem?_cons_zero, bind, Except.bind] at h
    split at h
    · cases h; rfl
    · exact loop_err h

end Der
