import Proofs.Bits
import Proofs.RandUniform
import Proofs.RandSeed
/-!
# Proofs.RfcNum — sizes: binary length, hexadecimal length, `orderlen`, fixed-length encodings
-/
namespace Rfc
open Bits Rand

theorem two_pow_le_bitLength (n : Nat) (hn : 0 < n) : 2 ^ (bitLength n - 1) ≤ n := by
  induction n using Nat.strongRecOn with
  | _ n ih =>
    cases n with
    | zero => omega
    | succ k =>
      rw [bitLength]
      simp only [Nat.add_sub_cancel]
      by_cases hk : (k + 1) / 2 = 0
      · rw [hk]; simp [bitLength]
      · have := ih ((k + 1) / 2) (by omega) (by omega)
        have hb : 1 ≤ bitLength ((k + 1) / 2) := by
          obtain ⟨m, hm⟩ : ∃ m, (k + 1) / 2 = m + 1 := ⟨(k + 1) / 2 - 1, by omega⟩
          rw [hm, bitLength]; omega
        have : bitLength ((k + 1) / 2) = (bitLength ((k + 1) / 2) - 1) + 1 := by omega
        rw [this, Nat.pow_succ]; omega

theorem bitLength_pos (n : Nat) (hn : 0 < n) : 1 ≤ bitLength n := by
  cases n with
  | zero => omega
  | succ k => rw [bitLength]; omega

theorem bitLength1_eq (n : Nat) (hn : 0 < n) : bitLength1 n = bitLength n := by
  have := bitLength_pos n hn
  unfold bitLength1; split <;> omega

theorem lt_pow_hexDigits (n : Nat) : n < 16 ^ hexDigits n := by
  induction n using Nat.strongRecOn with
  | _ n ih =>
    cases n with
    | zero => simp [hexDigits]
    | succ k =>
      rw [hexDigits]
      have := ih ((k + 1) / 16) (by omega)
      rw [Nat.pow_succ]; omega

theorem hexDigits_pos (n : Nat) (hn : 0 < n) : 1 ≤ hexDigits n := by
  cases n with
  | zero => omega
  | succ k => rw [hexDigits]; omega

theorem pow_le_hexDigits (n : Nat) (hn : 0 < n) : 16 ^ (hexDigits n - 1) ≤ n := by
  induction n using Nat.strongRecOn with
  | _ n ih =>
    cases n with
    | zero => omega
    | succ k =>
      rw [hexDigits]
      simp only [Nat.add_sub_cancel]
      by_cases hk : (k + 1) / 16 = 0
      · rw [hk]; simp [hexDigits]
      · have := ih ((k + 1) / 16) (by omega) (by omega)
        have hb := hexDigits_pos ((k + 1) / 16) (by omega)
        have : hexDigits ((k + 1) / 16) = (hexDigits ((k + 1) / 16) - 1) + 1 := by omega
        rw [this, Nat.pow_succ]; omega

theorem hexDigits_le_of_lt (d x : Nat) (h : x < 16 ^ d) : hexDigits x ≤ d := by
  induction d generalizing x with
  | zero =>
    have : x = 0 := by simpa using h
    subst this; simp [hexDigits]
  | succ d ih =>
    cases x with
    | zero => simp [hexDigits]
    | succ k =>
      rw [hexDigits]
      have := ih ((k + 1) / 16) (by rw [Nat.pow_succ] at h; omega)
      omega

theorem hexLen_le_of_lt (d x : Nat) (hd : 1 ≤ d) (h : x < 16 ^ d) : hexLen x ≤ d := by
  unfold hexLen; split
  · exact hd
  · exact hexDigits_le_of_lt d x h

theorem lt_pow_hexLen (n : Nat) : n < 16 ^ hexLen n := by
  unfold hexLen; split
  · rename_i h; subst h; decide
  · exact lt_pow_hexDigits n

/-- `orderlen(q) = ⌈qlen/8⌉`: the code's byte length of the order is the RFC's `rlen/8` -/
theorem orderlen_eq (q : Nat) : Util.orderlen q = (bitLength1 q + 7) / 8 := by
  rcases Nat.eq_zero_or_pos q with rfl | hq
  · decide +kernel
  · rw [bitLength1_eq q hq]
    unfold Util.orderlen hexLen
    rw [if_neg (by omega)]
    have h1 := lt_two_pow_bitLength q
    have h2 := two_pow_le_bitLength q hq
    have h3 := lt_pow_hexDigits q
    have h4 := pow_le_hexDigits q hq
    have hb := bitLength_pos q hq
    have hh := hexDigits_pos q hq
    have e16 : ∀ k, 16 ^ k = 2 ^ (4 * k) := fun k => by rw [Nat.pow_mul]
    rw [e16] at h3 h4
    have a1 : 4 * (hexDigits q - 1) < bitLength q :=
      (Nat.pow_lt_pow_iff_right (by decide : 1 < 2)).1 (Nat.lt_of_le_of_lt h4 h1)
    have a2 : bitLength q - 1 < 4 * hexDigits q :=
      (Nat.pow_lt_pow_iff_right (by decide : 1 < 2)).1 (Nat.lt_of_le_of_lt h2 h3)
    omega

/-- RFC 6979 §2.3.3 `int2octets`: the big-endian base-256 digits of `x`, exactly `rolen` of them -/
def int2octets (rolen x : Nat) : Bytes := (List.range rolen).map fun i => UInt8.ofNat (x / 256 ^ (rolen - 1 - i) % 256)

theorem int2octets_eq_beFixed (rolen x : Nat) : int2octets rolen x = beFixed rolen x := by
  induction rolen generalizing x with
  | zero => rfl
  | succ l ih =>
    rw [beFixed, ← ih, int2octets, List.range_succ, List.map_append]
    congr 1
    · unfold int2octets
      apply List.map_congr_left
      intro i hi
      have hi' := List.mem_range.1 hi
      have : l + 1 - 1 - i = (l - 1 - i) + 1 := by omega
      rw [this, Nat.pow_succ, Nat.mul_comm, Nat.div_div_eq_div_mul]
    · simp

/-- `number_to_string(x, q)` succeeds exactly when `x` fits `orderlen(q)` bytes, and is then the fixed-length encoding -/
theorem numberToString_ok {x q : Nat} {s : Bytes} (h : Util.numberToString x q = .ok s) :
    s = beFixed (Util.orderlen q) x ∧ x < 256 ^ Util.orderlen q := by
  unfold Util.numberToString at h
  simp only at h
  split at h
  · cases h
  · split at h
    · cases h
    · rename_i h1 h2
      simp only [Except.ok.injEq] at h
      refine ⟨h.symm, ?_⟩
      have hx := lt_pow_hexLen x
      have hle : hexLen x ≤ 2 * Util.orderlen q := by omega
      have : 16 ^ hexLen x ≤ 16 ^ (2 * Util.orderlen q) := Nat.pow_le_pow_right (by decide) hle
      have e : 16 ^ (2 * Util.orderlen q) = 256 ^ Util.orderlen q := by
        rw [Nat.pow_mul]
      omega

theorem numberToString_of_lt {x q : Nat} (h : x < 256 ^ Util.orderlen q) :
    Util.numberToString x q = .ok (beFixed (Util.orderlen q) x) := by
  have hpos := orderlen_pos q
  have e : 16 ^ (2 * Util.orderlen q) = 256 ^ Util.orderlen q := by rw [Nat.pow_mul]
  have hle : hexLen x ≤ 2 * Util.orderlen q := hexLen_le_of_lt _ _ (by omega) (by omega)
  unfold Util.numberToString
  simp only
  have hmax : max (hexLen x) (2 * Util.orderlen q) = 2 * Util.orderlen q := by omega
  rw [hmax]
  rw [if_neg (by omega), if_neg (by omega)]

theorem lt_pow_orderlen (q : Nat) : q < 256 ^ Util.orderlen q := by
  have h := lt_pow_hexLen q
  have hle : hexLen q ≤ 2 * Util.orderlen q := by unfold Util.orderlen; omega
  have : 16 ^ hexLen q ≤ 16 ^ (2 * Util.orderlen q) := Nat.pow_le_pow_right (by decide) hle
  have e : 16 ^ (2 * Util.orderlen q) = 256 ^ Util.orderlen q := by rw [Nat.pow_mul]
  omega

theorem numberToStringCrop_of_lt {z q : Nat} (h : z < 256 ^ Util.orderlen q) :
    Util.numberToStringCrop z q = .ok (beFixed (Util.orderlen q) z) := by
  have hpos := orderlen_pos q
  have e : 16 ^ (2 * Util.orderlen q) = 256 ^ Util.orderlen q := by rw [Nat.pow_mul]
  have hle : hexLen z ≤ 2 * Util.orderlen q := hexLen_le_of_lt _ _ (by omega) (by omega)
  unfold Util.numberToStringCrop
  simp only
  have hmax : max (hexLen z) (2 * Util.orderlen q) = 2 * Util.orderlen q := by omega
  rw [hmax, if_neg (by omega)]
  have : 2 * Util.orderlen q / 2 = Util.orderlen q := by omega
  rw [this, List.take_of_length_le (by simp)]

end Rfc
