import Model.NumberTheoryExtra
import Proofs.NTGcd
import Proofs.NTFact
import Mathlib.NumberTheory.ArithmeticFunction.Carmichael
import Mathlib.Data.Nat.Totient
/-! deprecated helpers (C16x), part 3: `carmichael*` against Mathlib's Carmichael function λ (the exponent of `(ZMod n)ˣ`),
`phi` against `Nat.totient` -/
namespace NTXProofs
open NT NTX NTProofs

local notation "lam" => ArithmeticFunction.carmichael

/-- `carmichael_of_ppower((p, a))` is λ(p^a) for a prime `p` and `a ≥ 1` -/
theorem ppower_eq (p e : ℕ) (hp : p.Prime) (he : 1 ≤ e) :
    carmichaelOfPpower p e = .ok ((lam (p ^ e) : ℕ) : ℤ) := by
  unfold carmichaelOfPpower
  by_cases h2 : p = 2
  · subst h2
    by_cases hgt : 2 < e
    · have : ((2 : ℕ) : ℤ) = 2 ∧ (e : ℤ) > 2 := ⟨rfl, by omega⟩
      rw [if_pos this, ArithmeticFunction.carmichael_two_pow_of_ne_two (by omega)]
      have : ((e : ℤ) - 2).toNat = e - 2 := by omega
      rw [this]; push_cast; rfl
    · have : ¬ (((2 : ℕ) : ℤ) = 2 ∧ (e : ℤ) > 2) := by omega
      rw [if_neg this, if_neg (by omega), ArithmeticFunction.carmichael_two_pow_of_le_two (by omega)]
      have : ((e : ℤ) - 1).toNat = e - 1 := by omega
      rw [this]; push_cast; ring_nf
  · have : ¬ ((p : ℤ) = 2 ∧ (e : ℤ) > 2) := by
      intro h; exact h2 (by exact_mod_cast h.1)
    rw [if_neg this, if_neg (by omega), ArithmeticFunction.carmichael_pow_of_prime_ne_two e hp h2, Nat.totient_prime_pow hp (by omega)]
    have : ((e : ℤ) - 1).toNat = e - 1 := by omega
    rw [this]
    have h1 : 1 ≤ p := hp.one_le
    push_cast [Nat.cast_sub h1]; ring

/-- a list of (prime, exponent ≥ 1) pairs with pairwise different primes, as `factorization` returns it -/
structure PF (fs : List (ℤ × ℤ)) : Prop where
  prime : ∀ f ∈ fs, f.1.toNat.Prime
  base : ∀ f ∈ fs, 2 ≤ f.1
  epos : ∀ f ∈ fs, 1 ≤ f.2
  distinct : (fs.map Prod.fst).Pairwise (· ≠ ·)

/-- the natural number the list denotes -/
def natProd (fs : List (ℤ × ℤ)) : ℕ := (fs.map fun f => f.1.toNat ^ f.2.toNat).prod

theorem PF.tail {f : ℤ × ℤ} {fs : List (ℤ × ℤ)} (h : PF (f :: fs)) : PF fs :=
  ⟨fun g hg => h.prime g (by simp [hg]), fun g hg => h.base g (by simp [hg]), fun g hg => h.epos g (by simp [hg]),
   (List.pairwise_cons.mp h.distinct).2⟩

theorem ppower_of_mem {fs : List (ℤ × ℤ)} (h : PF fs) {g : ℤ × ℤ} (hg : g ∈ fs) :
    carmichaelOfPpower g.1 g.2 = .ok ((lam (g.1.toNat ^ g.2.toNat) : ℕ) : ℤ) := by
  have hb := h.base g hg
  have he := h.epos g hg
  have := ppower_eq g.1.toNat g.2.toNat (h.prime g hg) (by omega)
  rwa [Int.toNat_of_nonneg (by omega), Int.toNat_of_nonneg (by omega)] at this

theorem foldl_carmichael : ∀ (rest : List (ℤ × ℤ)) (A : ℕ), PF rest →
    (∀ g ∈ rest, Nat.Coprime A (g.1.toNat ^ g.2.toNat)) →
    rest.foldlM carmStep ((lam A : ℕ) : ℤ) = .ok ((lam (A * natProd rest) : ℕ) : ℤ) := by
  intro rest
  induction rest with
  | nil => intro A _ _; simp [natProd, pure, Except.pure]
  | cons g r ih =>
    intro A hpf hco
    have hs : carmStep ((lam A : ℕ) : ℤ) g = .ok ((Nat.lcm (lam A) (lam (g.1.toNat ^ g.2.toNat)) : ℕ) : ℤ) := by
      unfold carmStep
      rw [ppower_of_mem hpf (List.mem_cons_self ..)]
      exact lcm2_nat _ _
    rw [List.foldlM_cons, hs]
    show List.foldlM carmStep _ r = _
    have hcg := hco g (by simp)
    rw [← ArithmeticFunction.carmichael_mul hcg]
    have := ih (A * g.1.toNat ^ g.2.toNat) hpf.tail (by
      intro g' hg'
      apply Nat.Coprime.mul_left (hco g' (by simp [hg']))
      have hne : g.1 ≠ g'.1 := (List.pairwise_cons.mp hpf.distinct).1 g'.1 (List.mem_map.mpr ⟨g', hg', rfl⟩)
      have hp1 := hpf.prime g (by simp)
      have hp2 := hpf.prime g' (by simp [hg'])
      have hb1 := hpf.base g (by simp)
      have hb2 := hpf.base g' (by simp [hg'])
      apply Nat.Coprime.pow
      exact (Nat.coprime_primes hp1 hp2).mpr (by omega))
    rw [this]
    congr 3
    simp only [natProd, List.map_cons, List.prod_cons]; ring

/-- **`carmichael_of_factorized`** on a prime factorisation is Mathlib's λ of the number -/
theorem carmichaelOfFactorized_eq (fs : List (ℤ × ℤ)) (h : PF fs) :
    carmichaelOfFactorized fs = .ok ((lam (natProd fs) : ℕ) : ℤ) := by
  cases fs with
  | nil =>
    simp only [carmichaelOfFactorized, natProd, List.map_nil, List.prod_nil]
    have : lam 1 = 1 := by
      rw [ArithmeticFunction.carmichael_eq_exponent' 1]; exact Monoid.exp_eq_one_of_subsingleton
    rw [this]; rfl
  | cons f r =>
    show (do let first ← carmichaelOfPpower f.1 f.2; r.foldlM carmStep first) = _
    rw [ppower_of_mem h (List.mem_cons_self ..)]
    show List.foldlM carmStep _ r = _
    have := foldl_carmichael r (f.1.toNat ^ f.2.toNat) h.tail (by
      intro g' hg'
      have hne : f.1 ≠ g'.1 := (List.pairwise_cons.mp h.distinct).1 g'.1 (List.mem_map.mpr ⟨g', hg', rfl⟩)
      have hp1 := h.prime f (by simp)
      have hp2 := h.prime g' (by simp [hg'])
      have hb1 := h.base f (by simp)
      have hb2 := h.base g' (by simp [hg'])
      apply Nat.Coprime.pow
      exact (Nat.coprime_primes hp1 hp2).mpr (by omega))
    rw [this]
    simp only [natProd, List.map_cons, List.prod_cons]

/-- the loop of `phi` on a prime factorisation is Euler's totient of the number -/
theorem foldl_phi : ∀ (rest : List (ℤ × ℤ)) (A : ℕ), PF rest →
    (∀ g ∈ rest, Nat.Coprime A (g.1.toNat ^ g.2.toNat)) →
    rest.foldl phiStep ((Nat.totient A : ℕ) : ℤ) = ((Nat.totient (A * natProd rest) : ℕ) : ℤ) := by
  intro rest
  induction rest with
  | nil => intro A _ _; simp [natProd]
  | cons g r ih =>
    intro A hpf hco
    rw [List.foldl_cons]
    have hb := hpf.base g (by simp)
    have he := hpf.epos g (by simp)
    have hp := hpf.prime g (by simp)
    have hstep : phiStep ((Nat.totient A : ℕ) : ℤ) g = ((Nat.totient (A * g.1.toNat ^ g.2.toNat) : ℕ) : ℤ) := by
      rw [Nat.totient_mul (hco g (by simp)), Nat.totient_prime_pow hp (by omega)]
      have h1 : 1 ≤ g.1.toNat := hp.one_le
      have hg1 : ((g.1.toNat : ℕ) : ℤ) = g.1 := Int.toNat_of_nonneg (by omega)
      unfold phiStep
      by_cases hgt : g.2 > 1
      · rw [if_pos hgt]
        have : (g.2 - 1).toNat = g.2.toNat - 1 := by omega
        rw [this]; push_cast [Nat.cast_sub h1]; rw [hg1]; ring
      · rw [if_neg hgt]
        have : g.2.toNat - 1 = 0 := by omega
        rw [this]; push_cast [Nat.cast_sub h1]; rw [hg1]; ring
    rw [hstep]
    have := ih (A * g.1.toNat ^ g.2.toNat) hpf.tail (by
      intro g' hg'
      apply Nat.Coprime.mul_left (hco g' (by simp [hg']))
      have hne : g.1 ≠ g'.1 := (List.pairwise_cons.mp hpf.distinct).1 g'.1 (List.mem_map.mpr ⟨g', hg', rfl⟩)
      have hp2 := hpf.prime g' (by simp [hg'])
      have hb2 := hpf.base g' (by simp [hg'])
      apply Nat.Coprime.pow
      exact (Nat.coprime_primes hp hp2).mpr (by omega))
    rw [this]
    congr 2
    simp only [natProd, List.map_cons, List.prod_cons]; ring

end NTXProofs
