import Proofs.GroupObj
/-!
# Proofs.Toy — concrete instances for the non-vacuity examples: the curve y² = x³ + x + 6 over F₁₁
(13 points, prime order, no point of order two) and the K1 curve y² = x³ + 1 over F₁₁ (which has (10, 0)).
-/
namespace Jac
open WeierstrassCurve WeierstrassCurve.Jacobian Curve

instance fact11 : Fact (Nat.Prime 11) := ⟨by decide⟩

variable {p : ℕ} [hp : Fact p.Prime]

/-- N2T for the whole group: x³ + ax + b has no root mod p (and p ≠ 2) -/
theorem noOrder2_top_of_no_root (hp2 : p ≠ 2) {a b : ZMod p} (hroot : ∀ x : ZMod p, x ^ 3 + a * x + b ≠ 0) :
    NoOrder2 (⊤ : AddSubgroup (Grp a b)) := by
  intro g _ hg
  cases g with
  | zero => rfl
  | some x y h =>
    exfalso
    by_cases hy : y = (shortW a b).toAffine.negY x y
    · have h2 := two_ne_zero_of hp2
      have y0 : y = 0 := by
        simp only [Affine.negY, shortW, Jacobian.toAffine] at hy
        have : (2 : ZMod p) * y = 0 := by linear_combination hy
        rcases mul_eq_zero.mp this with h | h
        · exact absurd h h2
        · exact h
      have e := (Affine.equation_iff _ _).mp h.left
      simp only [shortW, Jacobian.toAffine] at e
      apply hroot x
      rw [y0] at e
      linear_combination -e
    · rw [Affine.Point.add_self_of_Y_ne hy] at hg
      exact Affine.Point.some_ne_zero _ hg

/-- a concrete affine point is nonsingular: equation plus y ≠ 0 (p odd) -/
theorem nonsingular_of (hp2 : p ≠ 2) {a b x y : ZMod p} (he : y ^ 2 = x ^ 3 + a * x + b) (hy : y ≠ 0) :
    (shortW a b).toAffine.Nonsingular x y := by
  rw [Affine.nonsingular_iff']
  refine ⟨?_, Or.inr ?_⟩
  · rw [Affine.equation_iff]; simp only [shortW, Jacobian.toAffine]; linear_combination he
  · simp only [shortW, Jacobian.toAffine]
    have h2 := two_ne_zero_of hp2
    intro h
    have : (2 : ZMod p) * y = 0 := by linear_combination h
    rcases mul_eq_zero.mp this with h | h
    · exact h2 h
    · exact hy h

/-- building a `PJRep` for a point with Z = 1 from decidable facts -/
theorem pjRep_of_affine (hp2 : p ≠ 2) {a b : ℤ} (c : CurveFp) (hc : OnCurve p a b c) (x y : ℤ)
    (hx : InRange p x) (hy : InRange p y) (he : ((y : ZMod p)) ^ 2 = (x : ZMod p) ^ 3 + a * x + b)
    (hy0 : (y : ZMod p) ≠ 0) (o : Option ℤ) (gen : Bool) :
    PJRep p a b ⊤ ⟨c, x, y, 1, o, gen⟩ (Affine.Point.some _ _ (nonsingular_of hp2 he hy0)) :=
  ⟨hc, ⟨hx, hy, inRange_one⟩, by
    simpa using good_of_affine (H := ⊤) (nonsingular_of hp2 he hy0) (AddSubgroup.mem_top _) hy0⟩

/-- the toy curve y² = x³ + x + 6 over F₁₁ -/
def toyC : CurveFp := ⟨11, 1, 6, some 1⟩

theorem toyC_on : OnCurve 11 1 6 toyC := ⟨rfl, rfl, rfl⟩

theorem toy_n2t : NoOrder2 (⊤ : AddSubgroup (Grp ((1 : ℤ) : ZMod 11) ((6 : ℤ) : ZMod 11))) :=
  noOrder2_top_of_no_root (by decide) (by decide)

/-- G = (2, 7) on the toy curve, as a stored object -/
def toyG : PJ := ⟨toyC, 2, 7, 1, none, false⟩
/-- Q = (3, 6) on the toy curve, stored with Z = 2: (3·4, 6·8, 2) mod 11 -/
def toyQ : PJ := ⟨toyC, 3, 6, 1, none, false⟩

theorem toyG_rep : ∃ g, PJRep 11 1 6 ⊤ toyG g :=
  ⟨_, pjRep_of_affine (by decide) toyC toyC_on 2 7 ⟨by decide, by decide⟩ ⟨by decide, by decide⟩ (by decide) (by decide) none false⟩

theorem toyQ_rep : ∃ g, PJRep 11 1 6 ⊤ toyQ g :=
  ⟨_, pjRep_of_affine (by decide) toyC toyC_on 3 6 ⟨by decide, by decide⟩ ⟨by decide, by decide⟩ (by decide) (by decide) none false⟩

end Jac
