import Proofs.EcdsaInstCurve
import Proofs.EcdsaRecoverBase
/-!
# Proofs.EcdsaInstRecover — `RecoverOpsCorrect` for the model of the real point classes, on a cofactor-1 curve
-/
namespace Ecdsa.OnCurve
open Curve Jac GroupInterface WeierstrassCurve

variable {p : ℕ} [hp : Fact p.Prime] {a b : ℤ}

/-- `Matches` + **cofactor 1**: every reduced pair accepted by `contains_point` is a (nonsingular) point of ⟨G⟩ —
the SEC 2 / FIPS fact #E(𝔽_p) = n for the curves with h = 1 (DESIGN §4: a hypothesis, not an axiom) -/
structure MatchesRec (c : Affine.Crv) (C : Ctx p a b) : Prop extends Matches c C where
  allInH : ∀ x y : ℤ, 0 ≤ x → x < p → 0 ≤ y → y < p → Curve.containsPoint (crvOf c) x y = true →
    ∃ hns : (shortW (a : ZMod p) (b : ZMod p)).toAffine.Nonsingular (x : ZMod p) (y : ZMod p),
      Affine.Point.some _ _ hns ∈ C.H

theorem containsPoint_iff_onC (c : Affine.Crv) (hpos : 0 < c.p) (x y : ℤ) :
    Curve.containsPoint (crvOf c) x y = true ↔ OnC c.p c.a c.b x y := by
  unfold Curve.containsPoint OnC crvOf
  simp only [beq_iff_eq]
  rw [pmod_eq_emod _ _ hpos]
  have : y * y - ((x * x + c.a) * x + c.b) = y * y - (x ^ 3 + c.a * x + c.b) := by ring
  rw [this]

theorem val_cast_of_range {x : ℤ} (h0 : 0 ≤ x) (h1 : x < p) : ((ZMod.val (x : ZMod p) : ℕ) : ℤ) = x := by
  have : ((x.toNat : ℕ) : ZMod p) = (x : ZMod p) := by
    have e : ((x.toNat : ℕ) : ℤ) = x := Int.toNat_of_nonneg h0
    rw [← e]; push_cast; rw [e]
  rw [← this, ZMod.val_natCast, Nat.mod_eq_of_lt (by omega)]
  exact Int.toNat_of_nonneg h0

/-- **no cofactor assumption**: a reduced pair accepted by `contains_point` whose abscissa is the abscissa of a multiple of
`G` is that multiple or its opposite, hence a (nonsingular) point of ⟨G⟩ -/
theorem lift_point (c : Affine.Crv) (C : Ctx p a b) (M : Matches c C) (x y : ℤ) (hx0 : 0 ≤ x) (hx1 : x < p)
    (hc : Curve.containsPoint (crvOf c) x y = true) (hk : ∃ k : ℤ, xcOf (k • C.G) = some x) :
    ∃ hns : (shortW (a : ZMod p) (b : ZMod p)).toAffine.Nonsingular (x : ZMod p) (y : ZMod p),
      Affine.Point.some _ _ hns ∈ C.H := by
  obtain ⟨k, hk⟩ := hk
  have hmem : k • C.G ∈ C.H := C.smul_mem k
  have heq : (shortW (a : ZMod p) (b : ZMod p)).toAffine.Equation (x : ZMod p) (y : ZMod p) := by
    rw [Affine.equation_iff]
    simp only [shortW, Jacobian.toAffine]
    simp only [Curve.containsPoint, pmod, crvOf, M.cp, M.ca, M.cb, beq_iff_eq, fmod_eq_zero_iff] at hc
    push_cast at hc
    linear_combination hc
  cases hR : k • C.G with
  | zero => rw [hR] at hk; cases hk
  | some x' y' h' =>
    rw [hR] at hk hmem
    have hxx : (x : ZMod p) = x' := by
      have : ((ZMod.val x' : ℕ) : ℤ) = x := by injection hk
      rw [← this]; simp
    subst hxx
    rcases Affine.Y_eq_of_X_eq heq h'.left rfl with hy | hy
    · subst hy; exact ⟨h', hmem⟩
    · have hns : (shortW (a : ZMod p) (b : ZMod p)).toAffine.Nonsingular (x : ZMod p) (y : ZMod p) := by
        rw [hy]; exact (Affine.nonsingular_neg ..).mpr h'
      refine ⟨hns, ?_⟩
      have : Affine.Point.some _ _ hns = -(Affine.Point.some _ _ h') := by
        rw [Affine.Point.neg_some]; congr 1
      rw [this]; exact C.H.neg_mem hmem

theorem recoverOpsCorrect (c : Affine.Crv) (C : Ctx p a b) (M : Matches c C) :
    RecoverOpsCorrect (ops c) C.G (den C) (xcOf (p := p) (a := a) (b := b)) (Valid C) where
  toPointOpsCorrect := pointOpsCorrect c C M
  containsPoint_iff x y := by
    have hpos : 0 < c.p := by rw [M.cp]; exact_mod_cast hp.out.pos
    exact containsPoint_iff_onC c hpos x y
  mkPoint_valid x y hx0 hx1 hy0 hy1 hc hk := by
    have hx1' : x < p := by have : (ops c).p = p := M.cp; omega
    have hy1' : y < p := by have : (ops c).p = p := M.cp; omega
    obtain ⟨hns, hm⟩ := lift_point c C M x y hx0 hx1' hc hk
    have hcv : OnCurve p a b (crvOf c) := ⟨M.cp, M.ca, M.cb⟩
    have hrep := pjRep_of_coords C.n2t (crvOf c) hcv x y ⟨hx0, hx1'⟩ ⟨hy0, hy1'⟩ hns hm (some c.n) false
    have hpt : PtRep p a b C.H (.jac ⟨crvOf c, x, y, 1, some c.n, false⟩) (Affine.Point.some _ _ hns) := hrep
    refine ⟨⟨Or.inl (by show some c.n = some C.n; rw [M.cn]), _, hpt⟩, ?_, ?_⟩
    · show den C (.jac ⟨crvOf c, x, y, 1, some c.n, false⟩) ≠ 0
      rw [den_eq hpt]; exact Affine.Point.some_ne_zero _
    · show xcOf (den C (.jac ⟨crvOf c, x, y, 1, some c.n, false⟩)) = some x
      rw [den_eq hpt]
      show some ((ZMod.val (x : ZMod p) : ℕ) : ℤ) = some x
      rw [val_cast_of_range hx0 hx1']
  mkPoint_neg x y y' hx0 hx1 hy0 hy1 hz0 hz1 hc hk hs := by
    have hP : (ops c).p = p := M.cp
    have hx1' : x < p := by omega
    have hy1' : y < p := by omega
    have hz1' : y' < p := by omega
    have hcv : OnCurve p a b (crvOf c) := ⟨M.cp, M.ca, M.cb⟩
    obtain ⟨hns, hm⟩ := lift_point c C M x y hx0 hx1' hc hk
    have hneg : (y' : ZMod p) = -(y : ZMod p) := by
      have : ((y + y' : ℤ) : ZMod p) = 0 := by
        rw [ZMod.intCast_zmod_eq_zero_iff_dvd]
        rw [hP] at hs
        exact Int.dvd_of_emod_eq_zero hs
      push_cast at this
      exact eq_neg_of_add_eq_zero_right this
    have hns' : (shortW (a : ZMod p) (b : ZMod p)).toAffine.Nonsingular (x : ZMod p) (y' : ZMod p) := by
      have := (Affine.nonsingular_neg (W' := (shortW (a : ZMod p) (b : ZMod p)).toAffine) (x : ZMod p) (y : ZMod p)).mpr hns
      have hny : (shortW (a : ZMod p) (b : ZMod p)).toAffine.negY (x : ZMod p) (y : ZMod p) = (y' : ZMod p) := by
        simp [Affine.negY, shortW, hneg]
      rwa [hny] at this
    have heq : Affine.Point.some _ _ hns' = -(Affine.Point.some _ _ hns) := by
      rw [Affine.Point.neg_some]
      congr 1
      simp [Affine.negY, shortW, hneg]
    have hm' : Affine.Point.some _ _ hns' ∈ C.H := by rw [heq]; exact C.H.neg_mem hm
    have r1 : PtRep p a b C.H (.jac ⟨crvOf c, x, y, 1, some c.n, false⟩) (Affine.Point.some _ _ hns) :=
      pjRep_of_coords C.n2t (crvOf c) hcv x y ⟨hx0, hx1'⟩ ⟨hy0, hy1'⟩ hns hm (some c.n) false
    have r2 : PtRep p a b C.H (.jac ⟨crvOf c, x, y', 1, some c.n, false⟩) (Affine.Point.some _ _ hns') :=
      pjRep_of_coords C.n2t (crvOf c) hcv x y' ⟨hx0, hx1'⟩ ⟨hz0, hz1'⟩ hns' hm' (some c.n) false
    show den C (.jac ⟨crvOf c, x, y', 1, some c.n, false⟩) = -den C (.jac ⟨crvOf c, x, y, 1, some c.n, false⟩)
    rw [den_eq r1, den_eq r2, heq]
  xc_inj R R' hR hx := by
    cases R with
    | zero => exact absurd rfl hR
    | some x y h =>
      cases R' with
      | zero => cases hx
      | some x' y' h' =>
        have hxx : x = x' := by
          have : (ZMod.val x : ℤ) = (ZMod.val x' : ℤ) := by injection hx
          exact ZMod.val_injective p (by exact_mod_cast this)
        subst hxx
        rcases Affine.Y_eq_of_X_eq h'.left h.left rfl with hy | hy
        · left; subst hy; rfl
        · right
          rw [Affine.Point.neg_some]
          subst hy; rfl
  xc_curve R x hx := by
    cases R with
    | zero => cases hx
    | some x' y' h =>
      injection hx with hx
      refine ⟨(ZMod.val y' : ℤ), ?_⟩
      have e : y' ^ 2 = x' ^ 3 + (a : ZMod p) * x' + (b : ZMod p) := by
        have := (Affine.equation_iff _ _).mp h.left
        simpa [shortW] using this
      unfold OnC
      have hP : (ops c).p = p := M.cp
      have hA : (ops c).a = a := M.ca
      have hB : (ops c).b = b := M.cb
      rw [hP, hA, hB, ← hx]
      apply Int.emod_eq_zero_of_dvd
      rw [← ZMod.intCast_zmod_eq_zero_iff_dvd]
      push_cast
      simp only [ZMod.natCast_val, ZMod.cast_id', id_eq]
      linear_combination e
  on_curve A hA hne x y hx hy := by
    have hcv : OnCurve p a b (crvOf c) := ⟨M.cp, M.ca, M.cb⟩
    rcases result_cases (valid_rep hA) with ⟨_, h0⟩ | ⟨J, rfl, hJ, _⟩ | ⟨Af, rfl, _, _⟩
    · exact absurd h0 hne
    · obtain ⟨x', y', ex, ey, _, _, _, _, hns, _⟩ := GroupInterface.xy hJ
      have ex' : pjX J = .ok x := hx
      have ey' : pjY J = .ok y := hy
      rw [ex] at ex'; rw [ey] at ey'
      injection ex' with ex'; injection ey' with ey'
      subst ex'; subst ey'
      exact containsPoint_of hcv hns
    · exact absurd hA.1 (by simp [OrdInv])

end Ecdsa.OnCurve
