import Proofs.KeysRoundTrip
/-!
# Proofs.KeysTotal — the raw-string loaders fail only with `MalformedPointError`
-/
namespace KeysP
open Keys

/-- since F14 no hypothesis on `generator * d` is needed: an INFINITY product is `MalformedPointError` too -/
theorem fromSecretExponent_err' (E : Ext) (c : Curve) (d : Int) (e : PyErr)
    (h : SK.fromSecretExponent E c d = .error e) : e = .malformedPoint := by
  unfold SK.fromSecretExponent at h
  split at h
  · injection h with h; exact h.symm
  · split at h
    · injection h with h; exact h.symm
    · split at h
      · rename_i e' he'
        injection h with h; rw [← h]
        exact fromPublicPoint_err E c _ _ false e' he'
      · cases h

theorem fromSecretExponent_err (E : Ext) (c : Curve) (_hpub : PubSpec E c) (d : Int) (e : PyErr)
    (h : SK.fromSecretExponent E c d = .error e) : e = .malformedPoint := fromSecretExponent_err' E c d e h

theorem sk_fromString_err' (E : Ext) (c : Curve) (s : Bytes) (e : PyErr)
    (h : SK.fromString E c s = .error e) : e = .malformedPoint := by
  unfold SK.fromString at h
  split at h
  · injection h with h; exact h.symm
  · rename_i hlen
    simp only [not_not] at hlen
    have hne : s ≠ [] := by
      intro hh; subst hh
      have := orderlen_pos c.n
      unfold Curve.baselen at hlen; simp at hlen; omega
    rw [stringToNumber_ok s hne] at h
    simp only at h
    exact fromSecretExponent_err' E c _ e h

theorem sk_fromString_err (E : Ext) (c : Curve) (hpub : PubSpec E c) (s : Bytes) (e : PyErr)
    (h : SK.fromString E c s = .error e) : e = .malformedPoint := by
  unfold SK.fromString at h
  split at h
  · injection h with h; exact h.symm
  · rename_i hlen
    simp only [not_not] at hlen
    have hne : s ≠ [] := by
      intro hh; subst hh
      have := orderlen_pos c.n
      unfold Curve.baselen at hlen; simp at hlen; omega
    rw [stringToNumber_ok s hne] at h
    simp only at h
    exact fromSecretExponent_err E c hpub _ e h

end KeysP
