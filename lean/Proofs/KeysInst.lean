import Proofs.KeysPem
import Props.C15
import Model.KeysWire
import Mathlib.Data.ZMod.Basic
/-!
# Proofs.KeysInst — discharging the square-root hypothesis with C15's theorem

`SqrtSpec` (the contract of `square_root_mod_prime` that C08/C09/C10 assume) holds for the executable model
`NT.squareRootModPrime` of `Model/NumberTheory.lean`, for every odd prime — this is `C15.sqrt_spec` (all residue classes
of `p mod 8`, including the polynomial branch used by P-224).  `KeysWire.modelExt` is the `Ext` whose components are the
other owners' models (what the driver runs in `m` mode).
-/
namespace KeysP
open Keys

theorem sqrtSpec_model (p : Nat) (hp : p.Prime) (hp2 : p ≠ 2) : SqrtSpec NT.squareRootModPrime p := by
  haveI := Fact.mk hp
  have hdvd : ∀ a y : Int, (y * y - a) % (p : Int) = 0 → IsSquare ((a : Int) : ZMod p) := by
    intro a y h
    refine ⟨(y : ZMod p), ?_⟩
    have hd : (p : Int) ∣ y * y - a := Int.dvd_of_emod_eq_zero h
    have := (ZMod.intCast_zmod_eq_zero_iff_dvd (y * y - a) p).mpr hd
    push_cast at this
    exact (sub_eq_zero.mp this).symm
  constructor
  · intro a β h0 h1 hs
    obtain ⟨hsq, hnsq⟩ := C15.sqrt_spec p hp hp2 a h0 h1
    by_cases hq : IsSquare ((a : Int) : ZMod p)
    · obtain ⟨r, hr, r0, r1, r2⟩ := hsq hq
      rw [hr] at hs
      injection hs with hs; subst hs
      refine ⟨r0, r1, ?_⟩
      exact Int.emod_eq_zero_of_dvd (Int.ModEq.dvd (show a ≡ r * r [ZMOD (p : Int)] from r2.symm))
    · rw [hnsq hq] at hs; cases hs
  · intro a e h0 h1 hs
    obtain ⟨hsq, hnsq⟩ := C15.sqrt_spec p hp hp2 a h0 h1
    by_cases hq : IsSquare ((a : Int) : ZMod p)
    · obtain ⟨r, hr, _⟩ := hsq hq
      rw [hr] at hs; cases hs
    · rw [hnsq hq] at hs
      injection hs with hs
      exact ⟨hs.symm, fun y hy => hq (hdvd a y hy)⟩

theorem sqrtSpec_modelExt (p : Nat) (hp : p.Prime) (hp2 : p ≠ 2) : SqrtSpec KeysWire.modelExt.sqrtModP p :=
  sqrtSpec_model p hp hp2

end KeysP
