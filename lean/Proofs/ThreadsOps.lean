import Model.ThreadProgs
import Proofs.Threads
/-! # Proofs.ThreadsOps — every modelled `PointJacobi` method is `Safe` -/
set_option linter.unusedVariables false
set_option linter.unusedSimpArgs false
namespace ThreadProgs
open Access Threads

/-- the shared objects: immutable part, initial coordinates `c0`, their scaled form `cS`, and the complete
multiplication table `tF` (`[]` for a point that is not a generator) -/
structure Env where
  info : Nat → ObjInfo
  c0 : Nat → Coords
  cS : Nat → Coords
  tF : Nat → Table

/-- the values a cell may hold -/
def Env.good (E : Env) : Cell → Val → Prop
  | (id, .coords), v => v = .coords (E.c0 id) ∨ v = .coords (E.cS id)
  | (id, .pre), v => v = .table [] ∨ v = .table (E.tF id)

/-- the canonical value of a cell: the scaled triple / the complete table -/
def Env.canon (E : Env) : Cell → Val
  | (id, .coords) => .coords (E.cS id)
  | (id, .pre) => .table (E.tF id)

theorem Env.good_canon (E : Env) : ∀ k, E.good k (E.canon k)
  | (id, .coords) => Or.inr rfl
  | (id, .pre) => Or.inr rfl

def isInfC (c : Coords) : Bool := c.2.1 == 0 || c.2.2 == 0

/-- what is assumed of a shared object (to be discharged from the C06/C07 theorems for valid points): scaling its
initial triple succeeds and gives `cS` (with z = 1); being the identity does not depend on the representation; for a
generator the table computed from either representation is the same non-empty `tF` -/
structure ObjOK (E : Env) (id : Nat) : Prop where
  scale0 : Curve.pjScale (mkPJ (E.info id) (E.c0 id)) = .ok (mkPJ (E.info id) (E.cS id))
  zS : (E.cS id).2.2 = 1
  inf_ri : isInfC (E.c0 id) = isInfC (E.cS id)
  y_ri : ((E.c0 id).2.1 == 0) = ((E.cS id).2.1 == 0)
  table_gen : (E.info id).generator = true →
    Curve.precomputeTable (mkPJ (E.info id) (E.c0 id)) = .ok (E.tF id) ∧
    Curve.precomputeTable (mkPJ (E.info id) (E.cS id)) = .ok (E.tF id) ∧ (E.tF id).isEmpty = false
  table_nogen : (E.info id).generator = false → E.tF id = []

abbrev SafeE (E : Env) (acc : Res Out → Prop) (ph : Phases Cell) (p : P) : Prop := Safe E.good E.canon acc ph p

theorem scaleS {E : Env} {id : Nat} (h : ObjOK E id) :
    Curve.pjScale (mkPJ (E.info id) (E.cS id)) = .ok (mkPJ (E.info id) (E.cS id)) := by
  have := h.zS
  simp [Curve.pjScale, mkPJ, this]

/-- a good value of a coordinates cell that is not the canonical one is the initial triple -/
theorem good_coords_ne {E : Env} {id : Nat} {v : Val} (hg : E.good (id, .coords) v) (hne : v ≠ E.canon (id, .coords)) :
    v = .coords (E.c0 id) := by
  rcases hg with h | h
  · exact h
  · exact absurd h hne

theorem good_pre_ne {E : Env} {id : Nat} {v : Val} (hg : E.good (id, .pre) v) (hne : v ≠ E.canon (id, .pre)) :
    v = .table [] := by
  rcases hg with h | h
  · exact h
  · exact absurd h hne

/-- sequential value of `x()` on an object whose coordinates are `c` -/
def seqX (i : ObjInfo) (c : Coords) : Res Out := (Curve.pjX (mkPJ i c)).map .int

theorem pjX_z1 (i : ObjInfo) (c : Coords) (h : c.2.2 = 1) : Curve.pjX (mkPJ i c) = .ok c.1 := by
  simp [Curve.pjX, mkPJ, h]

@[simp] theorem bindRes_ret (r : Res Out) :
    bindRes r (fun e => (Prog.ret (Except.error e) : P)) (fun o => Prog.ret (Except.ok o)) = Prog.ret r := by
  cases r <;> rfl

theorem bindRes_ok {α : Type} (a : α) (kx : PyErr → P) (k : α → P) : bindRes (.ok a) kx k = k a := rfl
theorem bindRes_error {α : Type} (e : PyErr) (kx : PyErr → P) (k : α → P) : bindRes (.error e) kx k = kx e := rfl

/-! ### reading / writing a cell: the case analysis behind `Safe.read` / `Safe.write` -/

theorem mkPJ_inj {i : ObjInfo} {c d : Coords} (h : mkPJ i c = mkPJ i d) : c = d := by
  obtain ⟨c1, c2, c3⟩ := c
  obtain ⟨d1, d2, d3⟩ := d
  simp only [mkPJ, Curve.PJ.mk.injEq] at h
  obtain ⟨_, h1, h2, h3, _⟩ := h
  simp [h1, h2, h3]

/-- if the initial triple is not already the canonical one, its z is not 1 -/
theorem z0_ne_one {E : Env} {id : Nat} (h : ObjOK E id) (hne : E.c0 id ≠ E.cS id) : (E.c0 id).2.2 ≠ 1 := by
  intro hz
  have h1 : Curve.pjScale (mkPJ (E.info id) (E.c0 id)) = .ok (mkPJ (E.info id) (E.c0 id)) := by
    simp [Curve.pjScale, mkPJ, hz]
  rw [h.scale0] at h1
  injection h1 with h1
  exact hne (mkPJ_inj h1).symm

theorem safe_read_coords {E : Env} {id : Nat} {ph : Phases Cell} {acc : Res Out → Prop} {cont : Val → P}
    (h0 : ph (id, .coords) = .any → E.c0 id ≠ E.cS id → SafeE E acc ph (cont (.coords (E.c0 id))))
    (hS : SafeE E acc (ph.set (id, .coords)) (cont (.coords (E.cS id)))) :
    SafeE E acc ph (.read (id, .coords) cont) := by
  apply Safe.read
  · intro hph v hg hne
    have hv := good_coords_ne hg hne
    subst hv
    apply h0 hph
    intro heq
    apply hne
    simp [Env.canon, heq]
  · exact hS

theorem safe_read_pre {E : Env} {id : Nat} {ph : Phases Cell} {acc : Res Out → Prop} {cont : Val → P}
    (h0 : ph (id, .pre) = .any → E.tF id ≠ [] → SafeE E acc ph (cont (.table [])))
    (hS : SafeE E acc (ph.set (id, .pre)) (cont (.table (E.tF id)))) :
    SafeE E acc ph (.read (id, .pre) cont) := by
  apply Safe.read
  · intro hph v hg hne
    have hv := good_pre_ne hg hne
    subst hv
    apply h0 hph
    intro heq
    apply hne
    simp [Env.canon, heq]
  · exact hS

theorem safe_write_coords {E : Env} {id : Nat} {ph : Phases Cell} {acc : Res Out → Prop} {cont : P} {c : Coords}
    (hc : c = E.cS id) (h : SafeE E acc (ph.set (id, .coords)) cont) :
    SafeE E acc ph (.write (id, .coords) (.coords c) cont) := by
  subst hc
  exact Safe.write h

theorem safe_write_pre {E : Env} {id : Nat} {ph : Phases Cell} {acc : Res Out → Prop} {cont : P} {t : Table}
    (hc : t = E.tF id) (h : SafeE E acc (ph.set (id, .pre)) cont) :
    SafeE E acc ph (.write (id, .pre) (.table t) cont) := by
  subst hc
  exact Safe.write h

theorem set_canon (ph : Phases Cell) (k : Cell) : ¬ (ph.set k k = .any) := by simp [Phases.set]

theorem op_safe_x (E : Env) (id : Nat) (ph : Phases Cell) :
    SafeE E (fun r => r = seqX (E.info id) (E.c0 id) ∨ r = seqX (E.info id) (E.cS id)) ph
      (toProg (mX E.info) { self := id }) := by
  simp only [toProg, mX, den, loadA, Loc.obj, bindRes_ret, bindRes_ok]
  apply Safe.read
  · intro _ v hg hne
    have hv := good_coords_ne hg hne
    subst hv
    simp only [asCoords]
    by_cases hz : (E.c0 id).2.2 = 1
    · simp only [hz, beq_self_eq_true, if_true]
      exact Safe.ret (Or.inl (by simp [seqX, pjX_z1 _ _ hz, Except.map]))
    · simp only [beq_iff_eq, hz, if_false]
      exact Safe.ret (Or.inl rfl)
  · simp only [Env.canon, asCoords]
    by_cases hz : (E.cS id).2.2 = 1
    · simp only [hz, beq_self_eq_true, if_true]
      exact Safe.ret (Or.inr (by simp [seqX, pjX_z1 _ _ hz, Except.map]))
    · simp only [beq_iff_eq, hz, if_false]
      exact Safe.ret (Or.inr rfl)

/-! ### scale() -/

/-- the part of `scale()` after its read, as a continuation-passing lemma: from a snapshot that is the initial or the
scaled triple, `scale` stores nothing but the scaled triple and continues with `self.__coords` canonical -/
theorem safe_scale_body {E : Env} {id : Nat} (hok : ObjOK E id) {acc : Res Out → Prop} (kx : PyErr → P) (kr k : Loc → P)
    (ph : Phases Cell) (s : Loc) (hs : s.self = id)
    (hr : ∀ (ph' : Phases Cell) (s' : Loc), ph' (id, .coords) = .canon → s'.self = id → s'.out = .obj id → SafeE E acc ph' (kr s')) :
    SafeE E acc ph (den (mScale E.info) s kx kr k) := by
  subst hs
  simp only [mScale, den, loadA, Loc.obj, bindRes_ok]
  apply safe_read_coords
  · intro hph hne
    have hz := z0_ne_one hok hne
    simp only [asCoords, beq_iff_eq, hz, if_false, selfPJ]
    rw [hok.scale0]
    simp only [Except.map, bindRes_ok, coordsOf, mkPJ]
    apply safe_write_coords rfl
    exact hr _ _ (Phases.set_self _ _) rfl rfl
  · simp only [asCoords, hok.zS, beq_self_eq_true, if_true]
    exact hr _ _ (Phases.set_self _ _) rfl rfl

theorem op_safe_scale (E : Env) (id : Nat) (hok : ObjOK E id) (ph : Phases Cell) :
    SafeE E (fun r => r = .ok (.obj id)) ph (toProg (mScale E.info) { self := id }) := by
  unfold toProg
  apply safe_scale_body hok _ _ _ ph _ rfl
  intro ph' s' _ _ hout
  exact Safe.ret (by rw [hout])

/-! ### y(), __neg__(), double(), __getstate__() : one snapshot read -/

def seqY (i : ObjInfo) (c : Coords) : Res Out := (Curve.pjY (mkPJ i c)).map .int

theorem pjY_z1 (i : ObjInfo) (c : Coords) (h : c.2.2 = 1) : Curve.pjY (mkPJ i c) = .ok c.2.1 := by
  simp [Curve.pjY, mkPJ, h]

theorem op_safe_y (E : Env) (id : Nat) (ph : Phases Cell) :
    SafeE E (fun r => r = seqY (E.info id) (E.c0 id) ∨ r = seqY (E.info id) (E.cS id)) ph
      (toProg (mY E.info) { self := id }) := by
  simp only [toProg, mY, den, loadA, Loc.obj, bindRes_ret, bindRes_ok]
  apply safe_read_coords
  · intro _ _
    simp only [asCoords]
    by_cases hz : (E.c0 id).2.2 = 1
    · simp only [hz, beq_self_eq_true, if_true]
      exact Safe.ret (Or.inl (by simp [seqY, pjY_z1 _ _ hz, Except.map]))
    · simp only [beq_iff_eq, hz, if_false]
      exact Safe.ret (Or.inl rfl)
  · simp only [asCoords]
    by_cases hz : (E.cS id).2.2 = 1
    · simp only [hz, beq_self_eq_true, if_true]
      exact Safe.ret (Or.inr (by simp [seqY, pjY_z1 _ _ hz, Except.map]))
    · simp only [beq_iff_eq, hz, if_false]
      exact Safe.ret (Or.inr rfl)

def seqNeg (i : ObjInfo) (c : Coords) : Res Out := .ok (.pt (.jac (Curve.pjNeg (mkPJ i c))))

theorem op_safe_neg (E : Env) (id : Nat) (ph : Phases Cell) :
    SafeE E (fun r => r = seqNeg (E.info id) (E.c0 id) ∨ r = seqNeg (E.info id) (E.cS id)) ph
      (toProg (mNeg E.info) { self := id }) := by
  simp only [toProg, mNeg, den, loadA, Loc.obj, bindRes_ret, bindRes_ok]
  apply safe_read_coords
  · intro _ _; exact Safe.ret (Or.inl rfl)
  · exact Safe.ret (Or.inr rfl)

def seqDouble (i : ObjInfo) (c : Coords) : Res Out := .ok (.pt (Curve.pjDouble (mkPJ i c)))

theorem double_cases (i : ObjInfo) (c : Coords) (kx : PyErr → P) (kr k : Loc → P) (s : Loc) :
    ∀ (acc : Res Out → Prop) (E : Env) (ph : Phases Cell), acc (seqDouble i c) →
    SafeE E acc ph
      (if (c.2.1 == 0) = true then (Prog.ret (.ok (.pt .infinity)) : P)
       else if (Curve.pjDouble (mkPJ i c) == .infinity) = true then Prog.ret (.ok (.pt .infinity))
       else Prog.ret (.ok (.pt (Curve.pjDouble (mkPJ i c))))) := by
  intro acc E ph hacc
  by_cases hy : c.2.1 = 0
  · simp only [hy, beq_self_eq_true, if_true]
    have : Curve.pjDouble (mkPJ i c) = .infinity := by simp [Curve.pjDouble, mkPJ, hy]
    exact Safe.ret (by simpa [seqDouble, this] using hacc)
  · simp only [beq_iff_eq, hy, if_false]
    by_cases hd : Curve.pjDouble (mkPJ i c) = .infinity
    · simp only [hd, if_true]
      exact Safe.ret (by simpa [seqDouble, hd] using hacc)
    · simp only [hd, if_false]
      exact Safe.ret hacc

theorem op_safe_double (E : Env) (id : Nat) (ph : Phases Cell) :
    SafeE E (fun r => r = seqDouble (E.info id) (E.c0 id) ∨ r = seqDouble (E.info id) (E.cS id)) ph
      (toProg (mDouble E.info) { self := id }) := by
  simp only [toProg, mDouble, den, loadA, Loc.obj, bindRes_ret, bindRes_ok, selfPJ, asCoords]
  apply safe_read_coords
  · intro _ _
    exact double_cases _ _ (fun e => .ret (.error e)) (fun t => .ret (.ok t.out)) (fun t => .ret (.ok t.out)) { self := id } _ E ph (Or.inl rfl)
  · exact double_cases _ _ (fun e => .ret (.error e)) (fun t => .ret (.ok t.out)) (fun t => .ret (.ok t.out)) { self := id } _ E _ (Or.inr rfl)

/-- `__getstate__`: the pickled state is a pair (coordinates, table) of allowed values — never a partially updated
triple, never a partial table -/
theorem op_safe_getstate (E : Env) (id : Nat) (ph : Phases Cell) :
    SafeE E (fun r => ∃ c t, (c = E.c0 id ∨ c = E.cS id) ∧ (t = [] ∨ t = E.tF id) ∧ r = .ok (.state c t)) ph
      (toProg mGetstate { self := id }) := by
  simp only [toProg, mGetstate, den, loadA, loadTA, Loc.obj, bindRes_ret, bindRes_ok, asCoords, asTable]
  apply safe_read_coords
  · intro _ _
    apply safe_read_pre
    · intro _ _; exact Safe.ret ⟨_, _, Or.inl rfl, Or.inl rfl, rfl⟩
    · exact Safe.ret ⟨_, _, Or.inl rfl, Or.inr rfl, rfl⟩
  · apply safe_read_pre
    · intro _ _; exact Safe.ret ⟨_, _, Or.inr rfl, Or.inl rfl, rfl⟩
    · exact Safe.ret ⟨_, _, Or.inr rfl, Or.inr rfl, rfl⟩

/-! ### to_affine() -/

def seqToAffine (i : ObjInfo) (c : Coords) : Res Out := (Curve.pjToAffine (mkPJ i c)).map .pt

theorem seqToAffine_inf (i : ObjInfo) (c : Coords) (h : isInfC c = true) : seqToAffine i c = .ok (.pt .infinity) := by
  simp only [isInfC] at h
  simp [seqToAffine, Curve.pjToAffine, mkPJ, h, Except.map]

theorem seqToAffine_fin (i : ObjInfo) (c cs : Coords) (h : isInfC c = false)
    (hsc : Curve.pjScale (mkPJ i c) = .ok (mkPJ i cs)) :
    seqToAffine i c = (Curve.mkPoint i.curve cs.1 cs.2.1 i.order).map fun A => .pt (.aff A) := by
  simp only [isInfC] at h
  have h' : ((mkPJ i c).y == 0 || (mkPJ i c).z == 0) = false := by simpa [mkPJ] using h
  unfold seqToAffine Curve.pjToAffine
  simp only [h', Bool.false_eq_true, if_false]
  rw [hsc]
  simp only [mkPJ, bind, Except.bind]
  cases Curve.mkPoint i.curve cs.1 cs.2.1 i.order <;> rfl

theorem op_safe_to_affine (E : Env) (id : Nat) (hok : ObjOK E id) (ph : Phases Cell) :
    SafeE E (fun r => r = seqToAffine (E.info id) (E.c0 id) ∨ r = seqToAffine (E.info id) (E.cS id)) ph
      (toProg (mToAffine E.info) { self := id }) := by
  simp only [toProg, mToAffine, den, loadA, Loc.obj, bindRes_ret, bindRes_ok, asCoords]
  -- what happens after the call of scale(): the third read is canonical
  have after : ∀ (ph' : Phases Cell), ph' (id, .coords) = .canon →
      SafeE E (fun r => r = seqToAffine (E.info id) (E.c0 id) ∨ r = seqToAffine (E.info id) (E.cS id)) ph'
        (Prog.read (id, .coords) fun v =>
          Prog.ret (Except.map (fun A => Out.pt (.aff A))
            (Curve.mkPoint (E.info id).curve (asCoords v).1 (asCoords v).2.1 (E.info id).order))) →
      True := fun _ _ _ => trivial
  apply safe_read_coords
  · intro _ hne
    by_cases hinf : isInfC (E.c0 id) = true
    · have : ((E.c0 id).2.1 == 0 || (E.c0 id).2.2 == 0) = true := hinf
      simp only [this, if_true]
      exact Safe.ret (Or.inl (seqToAffine_inf _ _ hinf).symm)
    · have hinf' : isInfC (E.c0 id) = false := by simpa using hinf
      have : ((E.c0 id).2.1 == 0 || (E.c0 id).2.2 == 0) = false := hinf'
      simp only [this, Bool.false_eq_true, if_false]
      apply safe_scale_body hok _ _ _ _ _ rfl
      intro ph' s' hcan hself _
      apply safe_read_coords
      · intro h; rw [hcan] at h; cases h
      · simp only [asCoords]
        exact Safe.ret (Or.inl (seqToAffine_fin _ _ _ hinf' hok.scale0).symm)
  · by_cases hinf : isInfC (E.cS id) = true
    · have : ((E.cS id).2.1 == 0 || (E.cS id).2.2 == 0) = true := hinf
      simp only [this, if_true]
      exact Safe.ret (Or.inr (seqToAffine_inf _ _ hinf).symm)
    · have hinf' : isInfC (E.cS id) = false := by simpa using hinf
      have : ((E.cS id).2.1 == 0 || (E.cS id).2.2 == 0) = false := hinf'
      simp only [this, Bool.false_eq_true, if_false]
      apply safe_scale_body hok _ _ _ _ _ rfl
      intro ph' s' hcan hself _
      apply safe_read_coords
      · intro h; rw [hcan] at h; cases h
      · simp only [asCoords]
        exact Safe.ret (Or.inr (seqToAffine_fin _ _ _ hinf' (scaleS hok)).symm)

/-! ### __eq__ -/

def seqEq (is : ObjInfo) (a : Coords) (io : ObjInfo) (b : Coords) : Res Out :=
  if !(is.curve.eqv io.curve) then .ok (.bool false)
  else .ok (.bool (Curve.coordsEq is.curve.p a.1 a.2.1 a.2.2 b.1 b.2.1 b.2.2))

def GoodC (E : Env) (id : Nat) (c : Coords) : Prop := c = E.c0 id ∨ c = E.cS id

theorem eq_tail (E : Env) (s o : Nat) (a b : Coords) (ha : GoodC E s a) (hb : GoodC E o b) (ph : Phases Cell) :
    SafeE E (fun r => ∃ a b, GoodC E s a ∧ GoodC E o b ∧ r = seqEq (E.info s) a (E.info o) b) ph
      (if (!(E.info s).curve.eqv (E.info o).curve) = true then (Prog.ret (.ok (.bool false)) : P)
       else Prog.ret (.ok (.bool (Curve.coordsEq (E.info s).curve.p a.1 a.2.1 a.2.2 b.1 b.2.1 b.2.2)))) := by
  by_cases hc : (!(E.info s).curve.eqv (E.info o).curve) = true
  · simp only [hc, if_true]
    exact Safe.ret ⟨a, b, ha, hb, by simp [seqEq, hc]⟩
  · simp only [hc, if_false]
    exact Safe.ret ⟨a, b, ha, hb, by simp [seqEq, hc]⟩

/-- `P == Q` for two (possibly identical) shared points: the answer is the comparison of one allowed snapshot of each -/
theorem op_safe_eq (E : Env) (s o : Nat) (ph : Phases Cell) :
    SafeE E (fun r => ∃ a b, GoodC E s a ∧ GoodC E o b ∧ r = seqEq (E.info s) a (E.info o) b) ph
      (toProg (mEq E.info) { self := s, other := o }) := by
  simp only [toProg, mEq, den, loadA, loadB, Loc.obj, bindRes_ret, bindRes_ok, asCoords, Bool.false_eq_true, if_false, if_true]
  apply safe_read_coords
  · intro _ _
    apply safe_read_coords
    · intro _ _; exact eq_tail E s o _ _ (Or.inl rfl) (Or.inl rfl) _
    · exact eq_tail E s o _ _ (Or.inl rfl) (Or.inr rfl) _
  · apply safe_read_coords
    · intro _ _; exact eq_tail E s o _ _ (Or.inr rfl) (Or.inl rfl) _
    · exact eq_tail E s o _ _ (Or.inr rfl) (Or.inr rfl) _

/-- `P == INFINITY` -/
theorem op_safe_eq_inf (E : Env) (id : Nat) (ph : Phases Cell) :
    SafeE E (fun r => r = .ok (.bool (isInfC (E.c0 id))) ∨ r = .ok (.bool (isInfC (E.cS id)))) ph
      (toProg (mEq E.info) { self := id, otherInf := true }) := by
  simp only [toProg, mEq, den, loadA, Loc.obj, bindRes_ret, bindRes_ok, asCoords, if_true]
  apply safe_read_coords
  · intro _ _; exact Safe.ret (Or.inl rfl)
  · exact Safe.ret (Or.inr rfl)

/-! ### __add__ -/

def seqAdd (is : ObjInfo) (s : Nat) (a : Coords) (io : ObjInfo) (o : Nat) (b : Coords) : Res Out :=
  if isInfC a then .ok (.obj o)
  else if isInfC b then .ok (.obj s)
  else if !(is.curve.eqv io.curve) then .error .valueError
  else (Curve.pjAddCore (mkPJ is a) (mkPJ io b)).map .pt

theorem add_tail (E : Env) (s o : Nat) (a b : Coords) (ha : GoodC E s a) (hb : GoodC E o b)
    (hia : isInfC a = false) (hib : isInfC b = false) (hc : (!(E.info s).curve.eqv (E.info o).curve) = false)
    (ph : Phases Cell) :
    SafeE E (fun r => ∃ a b, GoodC E s a ∧ GoodC E o b ∧ r = seqAdd (E.info s) s a (E.info o) o b) ph
      (if (match Curve.pjAddCore (mkPJ (E.info s) a) (mkPJ (E.info o) b) with
            | .ok .infinity => true
            | _ => false) = true then (Prog.ret (.ok (.pt .infinity)) : P)
       else Prog.ret ((Curve.pjAddCore (mkPJ (E.info s) a) (mkPJ (E.info o) b)).map .pt)) := by
  have hseq : seqAdd (E.info s) s a (E.info o) o b = (Curve.pjAddCore (mkPJ (E.info s) a) (mkPJ (E.info o) b)).map .pt := by
    simp [seqAdd, hia, hib, hc]
  cases hadd : Curve.pjAddCore (mkPJ (E.info s) a) (mkPJ (E.info o) b) with
  | error e =>
    simp only [Bool.false_eq_true, if_false]
    exact Safe.ret ⟨a, b, ha, hb, by rw [hseq, hadd]⟩
  | ok R =>
    cases R with
    | infinity =>
      simp only [if_true]
      exact Safe.ret ⟨a, b, ha, hb, by rw [hseq, hadd]; rfl⟩
    | jac Q =>
      simp only [Bool.false_eq_true, if_false]
      exact Safe.ret ⟨a, b, ha, hb, by rw [hseq, hadd]⟩
    | aff Q =>
      simp only [Bool.false_eq_true, if_false]
      exact Safe.ret ⟨a, b, ha, hb, by rw [hseq, hadd]⟩

theorem isInf_good {E : Env} {id : Nat} (hok : ObjOK E id) {c : Coords} (hc : GoodC E id c) :
    isInfC c = isInfC (E.c0 id) := by
  rcases hc with rfl | rfl
  · rfl
  · exact hok.inf_ri.symm

/-- `P + Q` for two (possibly identical) shared points: the sum of one allowed snapshot of each, with the tests for the
identity taken on allowed snapshots too (they agree on all of them by `inf_ri`) -/
theorem op_safe_add (E : Env) (s o : Nat) (hs : ObjOK E s) (ho : ObjOK E o) (ph : Phases Cell) :
    SafeE E (fun r => ∃ a b, GoodC E s a ∧ GoodC E o b ∧ r = seqAdd (E.info s) s a (E.info o) o b) ph
      (toProg (mAdd E.info) { self := s, other := o }) := by
  simp only [toProg, mAdd, mEq, den, loadA, loadB, Loc.obj, bindRes_ret, bindRes_ok, bindRes_error, if_true, isTrue,
    selfPJ, otherPJ]
  have tail : ∀ (a1 b1 : Coords), GoodC E s a1 → GoodC E o b1 → isInfC a1 = false → ∀ ph1 : Phases Cell,
      SafeE E (fun r => ∃ a b, GoodC E s a ∧ GoodC E o b ∧ r = seqAdd (E.info s) s a (E.info o) o b) ph1
        (if (b1.2.1 == 0 || b1.2.2 == 0) = true then (Prog.ret (.ok (.obj s)) : P)
         else if (!(E.info s).curve.eqv (E.info o).curve) = true then Prog.ret (.error .valueError)
         else Prog.read (s, .coords) fun v => Prog.read (o, .coords) fun w =>
           if (match Curve.pjAddCore (mkPJ (E.info s) (asCoords v)) (mkPJ (E.info o) (asCoords w)) with
                | .ok .infinity => true
                | _ => false) = true then (Prog.ret (.ok (.pt .infinity)) : P)
           else Prog.ret ((Curve.pjAddCore (mkPJ (E.info s) (asCoords v)) (mkPJ (E.info o) (asCoords w))).map .pt)) := by
    intro a1 b1 ha1 hb1 hia1 ph1
    by_cases hib : isInfC b1 = true
    · have : (b1.2.1 == 0 || b1.2.2 == 0) = true := hib
      simp only [asCoords, this, if_true]
      exact Safe.ret ⟨a1, b1, ha1, hb1, by simp [seqAdd, hia1, hib]⟩
    · have hib' : isInfC b1 = false := by simpa using hib
      have : (b1.2.1 == 0 || b1.2.2 == 0) = false := hib'
      simp only [asCoords, this, Bool.false_eq_true, if_false]
      by_cases hc : (!(E.info s).curve.eqv (E.info o).curve) = true
      · simp only [hc, if_true]
        exact Safe.ret ⟨a1, b1, ha1, hb1, by simp [seqAdd, hia1, hib', hc]⟩
      · have hc' : (!(E.info s).curve.eqv (E.info o).curve) = false := by simpa using hc
        simp only [hc', Bool.false_eq_true, if_false]
        have ia0 : isInfC (E.c0 s) = false := by rw [← isInf_good hs ha1]; exact hia1
        have ib0 : isInfC (E.c0 o) = false := by rw [← isInf_good ho hb1]; exact hib'
        have iaS : isInfC (E.cS s) = false := by rw [← hs.inf_ri]; exact ia0
        have ibS : isInfC (E.cS o) = false := by rw [← ho.inf_ri]; exact ib0
        apply safe_read_coords
        · intro _ _
          apply safe_read_coords
          · intro _ _; exact add_tail E s o _ _ (Or.inl rfl) (Or.inl rfl) ia0 ib0 hc' _
          · exact add_tail E s o _ _ (Or.inl rfl) (Or.inr rfl) ia0 ibS hc' _
        · apply safe_read_coords
          · intro _ _; exact add_tail E s o _ _ (Or.inr rfl) (Or.inl rfl) iaS ib0 hc' _
          · exact add_tail E s o _ _ (Or.inr rfl) (Or.inr rfl) iaS ibS hc' _
  apply safe_read_coords
  · intro _ _
    by_cases hia : isInfC (E.c0 s) = true
    · have : ((E.c0 s).2.1 == 0 || (E.c0 s).2.2 == 0) = true := hia
      simp only [asCoords, this, if_true]
      exact Safe.ret ⟨_, E.c0 o, Or.inl rfl, Or.inl rfl, by simp [seqAdd, hia]⟩
    · have hia' : isInfC (E.c0 s) = false := by simpa using hia
      have : ((E.c0 s).2.1 == 0 || (E.c0 s).2.2 == 0) = false := hia'
      simp only [asCoords, this, Bool.false_eq_true, if_false]
      apply safe_read_coords
      · intro _ _; exact tail _ _ (Or.inl rfl) (Or.inl rfl) hia' _
      · exact tail _ _ (Or.inl rfl) (Or.inr rfl) hia' _
  · by_cases hia : isInfC (E.cS s) = true
    · have : ((E.cS s).2.1 == 0 || (E.cS s).2.2 == 0) = true := hia
      simp only [asCoords, this, if_true]
      exact Safe.ret ⟨_, E.c0 o, Or.inr rfl, Or.inl rfl, by simp [seqAdd, hia]⟩
    · have hia' : isInfC (E.cS s) = false := by simpa using hia
      have : ((E.cS s).2.1 == 0 || (E.cS s).2.2 == 0) = false := hia'
      simp only [asCoords, this, Bool.false_eq_true, if_false]
      apply safe_read_coords
      · intro _ _; exact tail _ _ (Or.inr rfl) (Or.inl rfl) hia' _
      · exact tail _ _ (Or.inr rfl) (Or.inr rfl) hia' _

/-! ### _maybe_precompute(), _mul_precompute(), __mul__ -/

theorem precompute_good {E : Env} {id : Nat} (hok : ObjOK E id) (hg : (E.info id).generator = true) {c : Coords}
    (hc : GoodC E id c) : Curve.precomputeTable (mkPJ (E.info id) c) = .ok (E.tF id) := by
  rcases hc with rfl | rfl
  · exact (hok.table_gen hg).1
  · exact (hok.table_gen hg).2.1

/-- `_maybe_precompute()` as a step of a larger method: it stores nothing but the complete table, does not raise, and
afterwards a generator's `__precompute` is canonical for this thread -/
theorem safe_maybe_precompute_body {E : Env} {id : Nat} (hok : ObjOK E id) {acc : Res Out → Prop} (kx : PyErr → P)
    (kr k : Loc → P) (ph : Phases Cell) (s : Loc) (hs : s.self = id)
    (hr : ∀ (ph' : Phases Cell) (s' : Loc), ((E.info id).generator = true → ph' (id, .pre) = .canon) →
      s'.out = .none → SafeE E acc ph' (kr s')) :
    SafeE E acc ph (den (mMaybePrecompute E.info) s kx kr k) := by
  subst hs
  simp only [mMaybePrecompute, den, loadA, loadTA, Loc.obj, bindRes_ok]
  by_cases hg : (E.info s.self).generator = true
  · simp only [hg, if_true, Bool.not_true, Bool.false_or]
    apply safe_read_pre
    · intro _ _
      simp only [asTable, List.isEmpty_nil, Bool.not_true, Bool.false_eq_true, if_false]
      have wr : ∀ (c : Coords) (ph1 : Phases Cell), GoodC E s.self c →
          SafeE E acc ph1 (bindRes (Except.map (fun t => ({ s with ta := t, ca := c } : Loc))
              (Curve.precomputeTable (mkPJ (E.info s.self) c))) kx
            fun s' => Prog.write (s'.self, Fld.pre) (Val.table s'.ta) (bindRes (Except.ok Out.none) kx fun o => kr { s' with out := o })) := by
        intro c ph1 hc
        rw [precompute_good hok hg hc]
        simp only [Except.map, bindRes_ok]
        apply safe_write_pre rfl
        exact hr _ _ (fun _ => Phases.set_self _ _) rfl
      apply safe_read_coords
      · intro _ _
        simp only [asCoords, selfPJ]
        exact wr _ _ (Or.inl rfl)
      · simp only [asCoords, selfPJ]
        exact wr _ _ (Or.inr rfl)
    · have hne : (E.tF s.self).isEmpty = false := (hok.table_gen hg).2.2
      simp only [asTable, hne, Bool.not_false, if_true, bindRes_ok]
      exact hr _ _ (fun _ => Phases.set_self _ _) rfl
  · have hg' : (E.info s.self).generator = false := by simpa using hg
    simp only [hg', Bool.false_eq_true, if_false, Bool.not_false, Bool.true_or, if_true, bindRes_ok]
    exact hr _ _ (fun h => by rw [hg'] at h; cases h) rfl

theorem op_safe_maybe_precompute (E : Env) (id : Nat) (hok : ObjOK E id) (ph : Phases Cell) :
    SafeE E (fun r => r = .ok .none) ph (toProg (mMaybePrecompute E.info) { self := id }) := by
  unfold toProg
  apply safe_maybe_precompute_body hok _ _ _ ph _ rfl
  intro ph' s' _ hout
  exact Safe.ret (by rw [hout])

/-- sequential value of `P * k` on an object with coordinates `c` and table state `t` (`Model.Curve.pjMulWith`) -/
def seqMul (i : ObjInfo) (id : Nat) (c : Coords) (t : Table) (k : Int) : Res Out :=
  if (c.2.1 == 0 || k == 0) then .ok (.pt .infinity)
  else if k == 1 then .ok (.obj id)
  else (Curve.pjMulWith t (mkPJ i c) k).map .pt

theorem safe_ret_pt {E : Env} {acc : Res Out → Prop} {ph : Phases Cell} (x : Curve.Pt) (h : acc (.ok (.pt x))) :
    SafeE E acc ph (if (x == Curve.Pt.infinity) = true then (Prog.ret (.ok (.pt .infinity)) : P) else Prog.ret (.ok (.pt x))) := by
  by_cases hx : x = .infinity
  · subst hx; simp only [beq_self_eq_true, if_true]; exact Safe.ret h
  · simp only [beq_iff_eq, hx, if_false]; exact Safe.ret h

theorem scale_good {E : Env} {id : Nat} (hok : ObjOK E id) {c : Coords} (hc : GoodC E id c) :
    Curve.pjScale (mkPJ (E.info id) c) = .ok (mkPJ (E.info id) (E.cS id)) := by
  rcases hc with rfl | rfl
  · exact hok.scale0
  · exact scaleS hok

theorem redK_eq (i : ObjInfo) (k : Int) :
    (match Curve.truthy i.order with
      | some o => pmod k (o * 2)
      | none => k) = redK i k := rfl

theorem mulWith_gen {E : Env} {id : Nat} (hok : ObjOK E id) (hg : (E.info id).generator = true) {c : Coords}
    (hc : GoodC E id c) (k : Int) (h0 : (c.2.1 == 0 || k == 0) = false) (h1 : (k == 1) = false) (c' : Coords) :
    seqMul (E.info id) id c [] k = .ok (.pt (Curve.mulPrecompute (mkPJ (E.info id) c') (E.tF id) (redK (E.info id) k))) := by
  have hne : (E.tF id).isEmpty = false := (hok.table_gen hg).2.2
  have h0' : ((mkPJ (E.info id) c).y == 0 || k == 0) = false := h0
  simp only [seqMul, h0, h1, Bool.false_eq_true, if_false, Curve.pjMulWith, h0', Curve.maybePrecompute]
  have : (mkPJ (E.info id) c).generator = true := hg
  simp only [this, Bool.not_true, List.isEmpty_nil, Bool.false_or, Bool.false_eq_true, if_false]
  rw [precompute_good hok hg hc]
  simp only [bind, Except.bind, hne, Bool.not_false, if_true, Except.map]
  rfl

theorem mulWith_nogen {E : Env} {id : Nat} (hok : ObjOK E id) (hg : (E.info id).generator = false) {c : Coords}
    (hc : GoodC E id c) (k : Int) (h0 : (c.2.1 == 0 || k == 0) = false) (h1 : (k == 1) = false) :
    seqMul (E.info id) id c [] k = .ok (.pt (mulNaf (E.info id) (E.cS id) (redK (E.info id) k))) := by
  have h0' : ((mkPJ (E.info id) c).y == 0 || k == 0) = false := h0
  simp only [seqMul, h0, h1, Bool.false_eq_true, if_false, Curve.pjMulWith, h0', Curve.maybePrecompute]
  have : (mkPJ (E.info id) c).generator = false := hg
  simp only [this, Bool.not_false, Bool.true_or, if_true, bind, Except.bind, List.isEmpty_nil, Bool.not_true,
    Bool.false_eq_true, if_false]
  rw [scale_good hok hc]
  simp only [Except.map]
  rfl

/-- `P * k` -/
theorem op_safe_mul (E : Env) (id : Nat) (k : Int) (hok : ObjOK E id) (ph : Phases Cell) :
    SafeE E (fun r => ∃ c t, GoodC E id c ∧ (t = [] ∨ t = E.tF id) ∧ r = seqMul (E.info id) id c t k) ph
      (toProg (mMul E.info) { self := id, ka := k }) := by
  simp only [toProg, mMul, den, loadA, loadTA, Loc.obj, bindRes_ret, bindRes_ok]
  have body : ∀ (c : Coords) (ph0 : Phases Cell), GoodC E id c →
      SafeE E (fun r => ∃ c t, GoodC E id c ∧ (t = [] ∨ t = E.tF id) ∧ r = seqMul (E.info id) id c t k) ph0
        ((fun v : Val =>
          if ((asCoords v).snd.fst == 0 || k == 0) = true then (Prog.ret (Except.ok (Out.pt Curve.Pt.infinity)) : P)
          else
            if (k == 1) = true then Prog.ret (Except.ok (Out.obj id))
            else
              den (mMaybePrecompute E.info) { self := id } (fun e => Prog.ret (Except.error e))
                (fun t =>
                  Prog.read (id, Fld.pre) fun v =>
                    if (!List.isEmpty (asTable v)) = true then
                      den (mMulPrecompute E.info) { self := id, ka := redK (E.info id) k }
                        (fun e => Prog.ret (Except.error e)) (fun t => Prog.ret (Except.ok t.out)) fun t =>
                        Prog.ret (Except.ok t.out)
                    else
                      den (mScale E.info) { self := id } (fun e => Prog.ret (Except.error e))
                        (fun t =>
                          Prog.read (id, Fld.coords) fun v =>
                            if (mulNaf (E.info id) (asCoords v) (redK (E.info id) k) == Curve.Pt.infinity) = true then
                              Prog.ret (Except.ok (Out.pt Curve.Pt.infinity))
                            else Prog.ret (Except.ok (Out.pt (mulNaf (E.info id) (asCoords v) (redK (E.info id) k)))))
                        fun t =>
                        Prog.read (id, Fld.coords) fun v =>
                          if (mulNaf (E.info id) (asCoords v) (redK (E.info id) k) == Curve.Pt.infinity) = true then
                            Prog.ret (Except.ok (Out.pt Curve.Pt.infinity))
                          else Prog.ret (Except.ok (Out.pt (mulNaf (E.info id) (asCoords v) (redK (E.info id) k)))))
                fun t =>
                Prog.read (id, Fld.pre) fun v =>
                  if (!List.isEmpty (asTable v)) = true then
                    den (mMulPrecompute E.info) { self := id, ka := redK (E.info id) k }
                      (fun e => Prog.ret (Except.error e)) (fun t => Prog.ret (Except.ok t.out)) fun t =>
                      Prog.ret (Except.ok t.out)
                  else
                    den (mScale E.info) { self := id } (fun e => Prog.ret (Except.error e))
                      (fun t =>
                        Prog.read (id, Fld.coords) fun v =>
                          if (mulNaf (E.info id) (asCoords v) (redK (E.info id) k) == Curve.Pt.infinity) = true then
                            Prog.ret (Except.ok (Out.pt Curve.Pt.infinity))
                          else Prog.ret (Except.ok (Out.pt (mulNaf (E.info id) (asCoords v) (redK (E.info id) k)))))
                      fun t =>
                      Prog.read (id, Fld.coords) fun v =>
                        if (mulNaf (E.info id) (asCoords v) (redK (E.info id) k) == Curve.Pt.infinity) = true then
                          Prog.ret (Except.ok (Out.pt Curve.Pt.infinity))
                        else Prog.ret (Except.ok (Out.pt (mulNaf (E.info id) (asCoords v) (redK (E.info id) k)))))
          (Val.coords c)) := by
    intro c ph0 hc
    simp only [asCoords]
    by_cases h0 : (c.2.1 == 0 || k == 0) = true
    · simp only [h0, if_true]
      exact Safe.ret ⟨c, [], hc, Or.inl rfl, by simp [seqMul, h0]⟩
    · have h0' : (c.2.1 == 0 || k == 0) = false := by simpa using h0
      simp only [h0', Bool.false_eq_true, if_false]
      by_cases h1 : (k == 1) = true
      · simp only [h1, if_true]
        exact Safe.ret ⟨c, [], hc, Or.inl rfl, by simp [seqMul, h0', h1]⟩
      · have h1' : (k == 1) = false := by simpa using h1
        simp only [h1', Bool.false_eq_true, if_false]
        apply safe_maybe_precompute_body hok _ _ _ _ _ rfl
        intro ph1 s1 hgen _
        by_cases hg : (E.info id).generator = true
        · have hcan := hgen hg
          have hne : (E.tF id).isEmpty = false := (hok.table_gen hg).2.2
          apply safe_read_pre
          · intro h; rw [hcan] at h; cases h
          · simp only [asTable, hne, Bool.not_false, if_true, mMulPrecompute, den, loadTA, Loc.obj, bindRes_ok]
            apply safe_read_pre
            · intro h; rw [Phases.set_self] at h; cases h
            · simp only [asTable, selfPJ]
              apply safe_ret_pt
              exact ⟨c, [], hc, Or.inl rfl, (mulWith_gen hok hg hc k h0' h1' _).symm⟩
        · have hg' : (E.info id).generator = false := by simpa using hg
          have ht : E.tF id = [] := hok.table_nogen hg'
          apply safe_read_pre
          · intro _ hne; exact absurd ht hne
          · simp only [asTable, ht, List.isEmpty_nil, Bool.not_true, Bool.false_eq_true, if_false]
            apply safe_scale_body hok _ _ _ _ _ rfl
            intro ph2 s2 hcan2 _ _
            apply safe_read_coords
            · intro h; rw [hcan2] at h; cases h
            · simp only [asCoords]
              apply safe_ret_pt
              exact ⟨c, [], hc, Or.inl rfl, (mulWith_nogen hok hg' hc k h0' h1').symm⟩
  apply safe_read_coords
  · intro _ _; exact body _ _ (Or.inl rfl)
  · exact body _ _ (Or.inr rfl)

end ThreadProgs
