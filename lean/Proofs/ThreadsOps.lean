import Model.ThreadProgs
import Proofs.Threads
/-! # Proofs.ThreadsOps — every modelled `PointJacobi` method is `Safe` -/
set_option linter.unusedVariables false
set_option linter.unusedSimpArgs false
namespace ThreadProgs
open Access Threads

/-- the shared objects: immutable part, initial coordinates `c0`, their scaled form `cS`, and the complete
multiplication table `tF` (`[]` for a point that is not a generator) -/
structure Env where
  info : Nat → ObjInfo
  c0 : Nat → Coords
  cS : Nat → Coords
  tF : Nat → Table
  targets : Nat → Nat → Prop := fun _ _ => False   -- `targets kid id`: the key `kid` may refer to the point object `id`

/-- the pointer cell of a key may be overwritten at any time (by an allowed value): a *free* cell; the cells of a point
move once to their canonical value -/
def Env.free (_ : Env) : Cell → Prop
  | (_, .point) => True
  | _ => False

/-- the values a cell may hold -/
def Env.good (E : Env) : Cell → Val → Prop
  | (id, .coords), v => v = .coords (E.c0 id) ∨ v = .coords (E.cS id)
  | (id, .pre), v => v = .table [] ∨ v = .table (E.tF id)
  | (kid, .point), v => ∃ t, E.targets kid t ∧ v = .ptr t

/-- the canonical value of a cell: the scaled triple / the complete table (none for a pointer cell) -/
def Env.canon (E : Env) : Cell → Val
  | (id, .coords) => .coords (E.cS id)
  | (id, .pre) => .table (E.tF id)
  | (_, .point) => .table []

theorem Env.good_canon (E : Env) : ∀ k, ¬ E.free k → E.good k (E.canon k)
  | (id, .coords), _ => Or.inr rfl
  | (id, .pre), _ => Or.inr rfl
  | (_, .point), h => absurd trivial h

theorem Env.not_free_coords (E : Env) (id : Nat) : ¬ E.free (id, .coords) := fun h => h
theorem Env.not_free_pre (E : Env) (id : Nat) : ¬ E.free (id, .pre) := fun h => h

def isInfC (c : Coords) : Bool := c.2.1 == 0 || c.2.2 == 0

/-- what is assumed of a shared object (to be discharged from the C06/C07 theorems for valid points): scaling its
initial triple succeeds and gives `cS` (with z = 1); being the identity does not depend on the representation; for a
generator the table computed from either representation is the same non-empty `tF` -/
structure ObjOK (E : Env) (id : Nat) : Prop where
  scale0 : Curve.pjScale (mkPJ (E.info id) (E.c0 id)) = .ok (mkPJ (E.info id) (E.cS id))
  zS : (E.cS id).2.2 = 1
  inf_ri : isInfC (E.c0 id) = isInfC (E.cS id)
  y_ri : ((E.c0 id).2.1 == 0) = ((E.cS id).2.1 == 0)
  table_gen : (E.info id).generator = true →
    Curve.precomputeTable (mkPJ (E.info id) (E.c0 id)) = .ok (E.tF id) ∧
    Curve.precomputeTable (mkPJ (E.info id) (E.cS id)) = .ok (E.tF id) ∧ (E.tF id).isEmpty = false
  table_nogen : (E.info id).generator = false → E.tF id = []

abbrev SafeE (E : Env) (acc : Res Out → Prop) (ph : Phases Cell) (p : P) : Prop :=
  Safe E.free E.good E.canon acc ph p

theorem scaleS {E : Env} {id : Nat} (h : ObjOK E id) :
    Curve.pjScale (mkPJ (E.info id) (E.cS id)) = .ok (mkPJ (E.info id) (E.cS id)) := by
  have := h.zS
  simp [Curve.pjScale, mkPJ, this]

/-- a good value of a coordinates cell that is not the canonical one is the initial triple -/
theorem good_coords_ne {E : Env} {id : Nat} {v : Val} (hg : E.good (id, .coords) v) (hne : v ≠ E.canon (id, .coords)) :
    v = .coords (E.c0 id) := by
  rcases hg with h | h
  · exact h
  · exact absurd h hne

theorem good_pre_ne {E : Env} {id : Nat} {v : Val} (hg : E.good (id, .pre) v) (hne : v ≠ E.canon (id, .pre)) :
    v = .table [] := by
  rcases hg with h | h
  · exact h
  · exact absurd h hne

/-- sequential value of `x()` on an object whose coordinates are `c` -/
def seqX (i : ObjInfo) (c : Coords) : Res Out := (Curve.pjX (mkPJ i c)).map .int

theorem pjX_z1 (i : ObjInfo) (c : Coords) (h : c.2.2 = 1) : Curve.pjX (mkPJ i c) = .ok c.1 := by
  simp [Curve.pjX, mkPJ, h]

@[simp] theorem bindRes_ret (r : Res Out) :
    bindRes r (fun e => (Prog.ret (Except.error e) : P)) (fun o => Prog.ret (Except.ok o)) = Prog.ret r := by
  cases r <;> rfl

theorem bindRes_ok {α : Type} (a : α) (kx : PyErr → P) (k : α → P) : bindRes (.ok a) kx k = k a := rfl
theorem bindRes_error {α : Type} (e : PyErr) (kx : PyErr → P) (k : α → P) : bindRes (.error e) kx k = kx e := rfl

/-! ### reading / writing a cell: the case analysis behind `Safe.read` / `Safe.write` -/

theorem mkPJ_inj {i : ObjInfo} {c d : Coords} (h : mkPJ i c = mkPJ i d) : c = d := by
  obtain ⟨c1, c2, c3⟩ := c
  obtain ⟨d1, d2, d3⟩ := d
  simp only [mkPJ, Curve.PJ.mk.injEq] at h
  obtain ⟨_, h1, h2, h3, _⟩ := h
  simp [h1, h2, h3]

/-- if the initial triple is not already the canonical one, its z is not 1 -/
theorem z0_ne_one {E : Env} {id : Nat} (h : ObjOK E id) (hne : E.c0 id ≠ E.cS id) : (E.c0 id).2.2 ≠ 1 := by
  intro hz
  have h1 : Curve.pjScale (mkPJ (E.info id) (E.c0 id)) = .ok (mkPJ (E.info id) (E.c0 id)) := by
    simp [Curve.pjScale, mkPJ, hz]
  rw [h.scale0] at h1
  injection h1 with h1
  exact hne (mkPJ_inj h1).symm

theorem safe_read_coords {E : Env} {id : Nat} {ph : Phases Cell} {acc : Res Out → Prop} {cont : Val → P}
    (h0 : ph (id, .coords) = .any → E.c0 id ≠ E.cS id → SafeE E acc ph (cont (.coords (E.c0 id))))
    (hS : SafeE E acc (ph.set (id, .coords)) (cont (.coords (E.cS id)))) :
    SafeE E acc ph (.read (id, .coords) cont) := by
  apply Safe.read (E.not_free_coords id)
  · intro hph v hg hne
    have hv := good_coords_ne hg hne
    subst hv
    apply h0 hph
    intro heq
    apply hne
    simp [Env.canon, heq]
  · exact hS

theorem safe_read_pre {E : Env} {id : Nat} {ph : Phases Cell} {acc : Res Out → Prop} {cont : Val → P}
    (h0 : ph (id, .pre) = .any → E.tF id ≠ [] → SafeE E acc ph (cont (.table [])))
    (hS : SafeE E acc (ph.set (id, .pre)) (cont (.table (E.tF id)))) :
    SafeE E acc ph (.read (id, .pre) cont) := by
  apply Safe.read (E.not_free_pre id)
  · intro hph v hg hne
    have hv := good_pre_ne hg hne
    subst hv
    apply h0 hph
    intro heq
    apply hne
    simp [Env.canon, heq]
  · exact hS

theorem safe_write_coords {E : Env} {id : Nat} {ph : Phases Cell} {acc : Res Out → Prop} {cont : P} {c : Coords}
    (hc : c = E.cS id) (h : SafeE E acc (ph.set (id, .coords)) cont) :
    SafeE E acc ph (.write (id, .coords) (.coords c) cont) := by
  subst hc
  exact Safe.write (E.not_free_coords id) h

theorem safe_write_pre {E : Env} {id : Nat} {ph : Phases Cell} {acc : Res Out → Prop} {cont : P} {t : Table}
    (hc : t = E.tF id) (h : SafeE E acc (ph.set (id, .pre)) cont) :
    SafeE E acc ph (.write (id, .pre) (.table t) cont) := by
  subst hc
  exact Safe.write (E.not_free_pre id) h

theorem set_canon (ph : Phases Cell) (k : Cell) : ¬ (ph.set k k = .any) := by simp [Phases.set]

theorem op_safe_x (E : Env) (id : Nat) (ph : Phases Cell) :
    SafeE E (fun r => r = seqX (E.info id) (E.c0 id) ∨ r = seqX (E.info id) (E.cS id)) ph
      (toProg (mX E.info) { self := id }) := by
  simp only [toProg, mX, den, loadA, Loc.obj, bindRes_ret, bindRes_ok]
  apply safe_read_coords
  · intro _ _
    simp only [asCoords]
    by_cases hz : (E.c0 id).2.2 = 1
    · simp only [hz, beq_self_eq_true, if_true]
      exact Safe.ret (Or.inl (by simp [seqX, pjX_z1 _ _ hz, Except.map]))
    · simp only [beq_iff_eq, hz, if_false]
      exact Safe.ret (Or.inl rfl)
  · simp only [asCoords]
    by_cases hz : (E.cS id).2.2 = 1
    · simp only [hz, beq_self_eq_true, if_true]
      exact Safe.ret (Or.inr (by simp [seqX, pjX_z1 _ _ hz, Except.map]))
    · simp only [beq_iff_eq, hz, if_false]
      exact Safe.ret (Or.inr rfl)

theorem le_set (ph : Phases Cell) (k : Cell) : ∀ k', ph k' = .canon → ph.set k k' = .canon := by
  intro k' h
  by_cases hk : k' = k
  · subst hk; exact Phases.set_self _ _
  · rw [Phases.set_other _ hk]; exact h

theorem le_set2 (ph : Phases Cell) (k1 k2 : Cell) : ∀ k', ph k' = .canon → (ph.set k1).set k2 k' = .canon :=
  fun k' h => le_set _ _ k' (le_set _ _ k' h)

/-! ### scale() -/

/-- the part of `scale()` after its read, as a continuation-passing lemma: from a snapshot that is the initial or the
scaled triple, `scale` stores nothing but the scaled triple and continues with `self.__coords` canonical -/
theorem safe_scale_body {E : Env} {id : Nat} (hok : ObjOK E id) {acc : Res Out → Prop} (kx : PyErr → P) (kr k : Loc → P)
    (ph : Phases Cell) (s : Loc) (hs : s.self = id) (hf : s.selfFresh = .shared)
    (hr : ∀ (ph' : Phases Cell) (s' : Loc), ph' (id, .coords) = .canon → s'.self = id → s'.out = .obj id →
      (∀ k', ph k' = .canon → ph' k' = .canon) → SafeE E acc ph' (kr s')) :
    SafeE E acc ph (den (mScale E.info) s kx kr k) := by
  subst hs
  simp only [mScale, den, loadA, Loc.obj, Loc.fresh, hf, bindRes_ok]
  apply safe_read_coords
  · intro hph hne
    have hz := z0_ne_one hok hne
    simp only [asCoords, beq_iff_eq, hz, if_false, selfPJ]
    rw [hok.scale0]
    simp only [Except.map, bindRes_ok, coordsOf, mkPJ]
    apply safe_write_coords rfl
    exact hr _ _ (Phases.set_self _ _) rfl rfl (le_set _ _)
  · simp only [asCoords, hok.zS, beq_self_eq_true, if_true]
    exact hr _ _ (Phases.set_self _ _) rfl rfl (le_set _ _)

theorem op_safe_scale (E : Env) (id : Nat) (hok : ObjOK E id) (ph : Phases Cell) :
    SafeE E (fun r => r = .ok (.obj id)) ph (toProg (mScale E.info) { self := id }) := by
  unfold toProg
  apply safe_scale_body hok _ _ _ ph _ rfl rfl
  intro ph' s' _ _ hout _
  exact Safe.ret (by rw [hout])

/-! ### y(), __neg__(), double(), __getstate__() : one snapshot read -/

def seqY (i : ObjInfo) (c : Coords) : Res Out := (Curve.pjY (mkPJ i c)).map .int

theorem pjY_z1 (i : ObjInfo) (c : Coords) (h : c.2.2 = 1) : Curve.pjY (mkPJ i c) = .ok c.2.1 := by
  simp [Curve.pjY, mkPJ, h]

theorem op_safe_y (E : Env) (id : Nat) (ph : Phases Cell) :
    SafeE E (fun r => r = seqY (E.info id) (E.c0 id) ∨ r = seqY (E.info id) (E.cS id)) ph
      (toProg (mY E.info) { self := id }) := by
  simp only [toProg, mY, den, loadA, Loc.obj, bindRes_ret, bindRes_ok]
  apply safe_read_coords
  · intro _ _
    simp only [asCoords]
    by_cases hz : (E.c0 id).2.2 = 1
    · simp only [hz, beq_self_eq_true, if_true]
      exact Safe.ret (Or.inl (by simp [seqY, pjY_z1 _ _ hz, Except.map]))
    · simp only [beq_iff_eq, hz, if_false]
      exact Safe.ret (Or.inl rfl)
  · simp only [asCoords]
    by_cases hz : (E.cS id).2.2 = 1
    · simp only [hz, beq_self_eq_true, if_true]
      exact Safe.ret (Or.inr (by simp [seqY, pjY_z1 _ _ hz, Except.map]))
    · simp only [beq_iff_eq, hz, if_false]
      exact Safe.ret (Or.inr rfl)

def seqNeg (i : ObjInfo) (c : Coords) : Res Out := .ok (.pt (.jac (Curve.pjNeg (mkPJ i c))))

theorem op_safe_neg (E : Env) (id : Nat) (ph : Phases Cell) :
    SafeE E (fun r => r = seqNeg (E.info id) (E.c0 id) ∨ r = seqNeg (E.info id) (E.cS id)) ph
      (toProg (mNeg E.info) { self := id }) := by
  simp only [toProg, mNeg, den, loadA, Loc.obj, bindRes_ret, bindRes_ok]
  apply safe_read_coords
  · intro _ _; exact Safe.ret (Or.inl rfl)
  · exact Safe.ret (Or.inr rfl)

def seqDouble (i : ObjInfo) (c : Coords) : Res Out := .ok (.pt (Curve.pjDouble (mkPJ i c)))

theorem double_cases (i : ObjInfo) (c : Coords) (kx : PyErr → P) (kr k : Loc → P) (s : Loc) :
    ∀ (acc : Res Out → Prop) (E : Env) (ph : Phases Cell), acc (seqDouble i c) →
    SafeE E acc ph
      (if (c.2.1 == 0) = true then (Prog.ret (.ok (.pt .infinity)) : P)
       else if (Curve.pjDouble (mkPJ i c) == .infinity) = true then Prog.ret (.ok (.pt .infinity))
       else Prog.ret (.ok (.pt (Curve.pjDouble (mkPJ i c))))) := by
  intro acc E ph hacc
  by_cases hy : c.2.1 = 0
  · simp only [hy, beq_self_eq_true, if_true]
    have : Curve.pjDouble (mkPJ i c) = .infinity := by simp [Curve.pjDouble, mkPJ, hy]
    exact Safe.ret (by simpa [seqDouble, this] using hacc)
  · simp only [beq_iff_eq, hy, if_false]
    by_cases hd : Curve.pjDouble (mkPJ i c) = .infinity
    · simp only [hd, if_true]
      exact Safe.ret (by simpa [seqDouble, hd] using hacc)
    · simp only [hd, if_false]
      exact Safe.ret hacc

theorem op_safe_double (E : Env) (id : Nat) (ph : Phases Cell) :
    SafeE E (fun r => r = seqDouble (E.info id) (E.c0 id) ∨ r = seqDouble (E.info id) (E.cS id)) ph
      (toProg (mDouble E.info) { self := id }) := by
  simp only [toProg, mDouble, den, loadA, Loc.obj, bindRes_ret, bindRes_ok, selfPJ, asCoords]
  apply safe_read_coords
  · intro _ _
    exact double_cases _ _ (fun e => .ret (.error e)) (fun t => .ret (.ok t.out)) (fun t => .ret (.ok t.out)) { self := id } _ E ph (Or.inl rfl)
  · exact double_cases _ _ (fun e => .ret (.error e)) (fun t => .ret (.ok t.out)) (fun t => .ret (.ok t.out)) { self := id } _ E _ (Or.inr rfl)

/-- `__getstate__`: the pickled state is a pair (coordinates, table) of allowed values — never a partially updated
triple, never a partial table -/
theorem op_safe_getstate (E : Env) (id : Nat) (ph : Phases Cell) :
    SafeE E (fun r => ∃ c t, (c = E.c0 id ∨ c = E.cS id) ∧ (t = [] ∨ t = E.tF id) ∧ r = .ok (.state c t)) ph
      (toProg mGetstate { self := id }) := by
  simp only [toProg, mGetstate, den, loadA, loadTA, Loc.obj, bindRes_ret, bindRes_ok, asCoords, asTable]
  apply safe_read_coords
  · intro _ _
    apply safe_read_pre
    · intro _ _; exact Safe.ret ⟨_, _, Or.inl rfl, Or.inl rfl, rfl⟩
    · exact Safe.ret ⟨_, _, Or.inl rfl, Or.inr rfl, rfl⟩
  · apply safe_read_pre
    · intro _ _; exact Safe.ret ⟨_, _, Or.inr rfl, Or.inl rfl, rfl⟩
    · exact Safe.ret ⟨_, _, Or.inr rfl, Or.inr rfl, rfl⟩

/-! ### to_affine() -/

def seqToAffine (i : ObjInfo) (c : Coords) : Res Out := (Curve.pjToAffine (mkPJ i c)).map .pt

theorem seqToAffine_inf (i : ObjInfo) (c : Coords) (h : isInfC c = true) : seqToAffine i c = .ok (.pt .infinity) := by
  simp only [isInfC] at h
  simp [seqToAffine, Curve.pjToAffine, mkPJ, h, Except.map]

theorem seqToAffine_fin (i : ObjInfo) (c cs : Coords) (h : isInfC c = false)
    (hsc : Curve.pjScale (mkPJ i c) = .ok (mkPJ i cs)) :
    seqToAffine i c = (Curve.mkPoint i.curve cs.1 cs.2.1 i.order).map fun A => .pt (.aff A) := by
  simp only [isInfC] at h
  have h' : ((mkPJ i c).y == 0 || (mkPJ i c).z == 0) = false := by simpa [mkPJ] using h
  unfold seqToAffine Curve.pjToAffine
  simp only [h', Bool.false_eq_true, if_false]
  rw [hsc]
  simp only [mkPJ, bind, Except.bind]
  cases Curve.mkPoint i.curve cs.1 cs.2.1 i.order <;> rfl

theorem op_safe_to_affine (E : Env) (id : Nat) (hok : ObjOK E id) (ph : Phases Cell) :
    SafeE E (fun r => r = seqToAffine (E.info id) (E.c0 id) ∨ r = seqToAffine (E.info id) (E.cS id)) ph
      (toProg (mToAffine E.info) { self := id }) := by
  simp only [toProg, mToAffine, den, loadA, Loc.obj, bindRes_ret, bindRes_ok, asCoords]
  -- what happens after the call of scale(): the third read is canonical
  have after : ∀ (ph' : Phases Cell), ph' (id, .coords) = .canon →
      SafeE E (fun r => r = seqToAffine (E.info id) (E.c0 id) ∨ r = seqToAffine (E.info id) (E.cS id)) ph'
        (Prog.read (id, .coords) fun v =>
          Prog.ret (Except.map (fun A => Out.pt (.aff A))
            (Curve.mkPoint (E.info id).curve (asCoords v).1 (asCoords v).2.1 (E.info id).order))) →
      True := fun _ _ _ => trivial
  apply safe_read_coords
  · intro _ hne
    by_cases hinf : isInfC (E.c0 id) = true
    · have : ((E.c0 id).2.1 == 0 || (E.c0 id).2.2 == 0) = true := hinf
      simp only [this, if_true]
      exact Safe.ret (Or.inl (seqToAffine_inf _ _ hinf).symm)
    · have hinf' : isInfC (E.c0 id) = false := by simpa using hinf
      have : ((E.c0 id).2.1 == 0 || (E.c0 id).2.2 == 0) = false := hinf'
      simp only [this, Bool.false_eq_true, if_false]
      apply safe_scale_body hok _ _ _ _ _ rfl rfl
      intro ph' s' hcan hself _ _
      apply safe_read_coords
      · intro h; rw [hcan] at h; cases h
      · simp only [asCoords]
        exact Safe.ret (Or.inl (seqToAffine_fin _ _ _ hinf' hok.scale0).symm)
  · by_cases hinf : isInfC (E.cS id) = true
    · have : ((E.cS id).2.1 == 0 || (E.cS id).2.2 == 0) = true := hinf
      simp only [this, if_true]
      exact Safe.ret (Or.inr (seqToAffine_inf _ _ hinf).symm)
    · have hinf' : isInfC (E.cS id) = false := by simpa using hinf
      have : ((E.cS id).2.1 == 0 || (E.cS id).2.2 == 0) = false := hinf'
      simp only [this, Bool.false_eq_true, if_false]
      apply safe_scale_body hok _ _ _ _ _ rfl rfl
      intro ph' s' hcan hself _ _
      apply safe_read_coords
      · intro h; rw [hcan] at h; cases h
      · simp only [asCoords]
        exact Safe.ret (Or.inr (seqToAffine_fin _ _ _ hinf' (scaleS hok)).symm)

/-! ### __eq__ -/

def seqEq (is : ObjInfo) (a : Coords) (io : ObjInfo) (b : Coords) : Res Out :=
  if !(is.curve.eqv io.curve) then .ok (.bool false)
  else if isInfC a || isInfC b then .ok (.bool (isInfC a && isInfC b))
  else .ok (.bool (Curve.coordsEq is.curve.p a.1 a.2.1 a.2.2 b.1 b.2.1 b.2.2))

def GoodC (E : Env) (id : Nat) (c : Coords) : Prop := c = E.c0 id ∨ c = E.cS id

theorem eq_tail (E : Env) (s o : Nat) (a b : Coords) (ha : GoodC E s a) (hb : GoodC E o b) (ph : Phases Cell) :
    SafeE E (fun r => ∃ a b, GoodC E s a ∧ GoodC E o b ∧ r = seqEq (E.info s) a (E.info o) b) ph
      (if (!(E.info s).curve.eqv (E.info o).curve) = true then (Prog.ret (.ok (.bool false)) : P)
       else if (a.2.1 == 0 || a.2.2 == 0 || b.2.1 == 0 || b.2.2 == 0) = true then
         Prog.ret (.ok (.bool ((a.2.1 == 0 || a.2.2 == 0) && (b.2.1 == 0 || b.2.2 == 0))))
       else Prog.ret (.ok (.bool (Curve.coordsEq (E.info s).curve.p a.1 a.2.1 a.2.2 b.1 b.2.1 b.2.2)))) := by
  by_cases hc : (!(E.info s).curve.eqv (E.info o).curve) = true
  · simp only [hc, if_true]
    exact Safe.ret ⟨a, b, ha, hb, by simp [seqEq, hc]⟩
  · simp only [hc, if_false]
    by_cases hi : (a.2.1 == 0 || a.2.2 == 0 || b.2.1 == 0 || b.2.2 == 0) = true
    · simp only [hi, if_true]
      have hi' : (isInfC a || isInfC b) = true := by simpa [isInfC, Bool.or_assoc] using hi
      exact Safe.ret ⟨a, b, ha, hb, by simp only [seqEq, hc, if_false, hi', if_true]; rfl⟩
    · simp only [hi, if_false]
      have hi' : (isInfC a || isInfC b) = false := by
        have : (a.2.1 == 0 || a.2.2 == 0 || b.2.1 == 0 || b.2.2 == 0) = false := by simpa using hi
        simpa [isInfC, Bool.or_assoc] using this
      exact Safe.ret ⟨a, b, ha, hb, by simp only [seqEq, hc, if_false, hi', Bool.false_eq_true]⟩

/-- `P == Q` for two (possibly identical) shared points: the answer is the comparison of one allowed snapshot of each -/
theorem op_safe_eq (E : Env) (s o : Nat) (ph : Phases Cell) :
    SafeE E (fun r => ∃ a b, GoodC E s a ∧ GoodC E o b ∧ r = seqEq (E.info s) a (E.info o) b) ph
      (toProg (mEq E.info) { self := s, other := o }) := by
  simp only [toProg, mEq, den, loadA, loadB, Loc.obj, Loc.fresh, infoOf, bindRes_ret, bindRes_ok, asCoords, Bool.false_eq_true,
    if_false, if_true]
  apply safe_read_coords
  · intro _ _
    apply safe_read_coords
    · intro _ _; exact eq_tail E s o _ _ (Or.inl rfl) (Or.inl rfl) _
    · exact eq_tail E s o _ _ (Or.inl rfl) (Or.inr rfl) _
  · apply safe_read_coords
    · intro _ _; exact eq_tail E s o _ _ (Or.inr rfl) (Or.inl rfl) _
    · exact eq_tail E s o _ _ (Or.inr rfl) (Or.inr rfl) _

/-- `P == INFINITY` -/
theorem op_safe_eq_inf (E : Env) (id : Nat) (ph : Phases Cell) :
    SafeE E (fun r => r = .ok (.bool (isInfC (E.c0 id))) ∨ r = .ok (.bool (isInfC (E.cS id)))) ph
      (toProg (mEq E.info) { self := id, otherInf := true }) := by
  simp only [toProg, mEq, den, loadA, Loc.obj, bindRes_ret, bindRes_ok, asCoords, if_true]
  apply safe_read_coords
  · intro _ _; exact Safe.ret (Or.inl rfl)
  · exact Safe.ret (Or.inr rfl)

/-! ### rules for the structured language (so that proofs can follow the program text) -/

theorem den_seq (a b : M) (s : Loc) (kx : PyErr → P) (kr k : Loc → P) :
    den (a ;; b) s kx kr k = den a s kx kr (fun s' => den b s' kx kr k) := rfl
theorem den_skip (s : Loc) (kx : PyErr → P) (kr k : Loc → P) : den .skip s kx kr k = k s := rfl
theorem den_ite (c : Loc → Bool) (t e : M) (s : Loc) (kx : PyErr → P) (kr k : Loc → P) :
    den (.ite c t e) s kx kr k = if c s then den t s kx kr k else den e s kx kr k := rfl
theorem den_ret (f : Loc → Res Out) (s : Loc) (kx : PyErr → P) (kr k : Loc → P) :
    den (.ret f) s kx kr k = bindRes (f s) kx (fun o => kr { s with out := o }) := rfl
theorem den_pure (f : Loc → Res Loc) (s : Loc) (kx : PyErr → P) (kr k : Loc → P) :
    den (.pure f) s kx kr k = bindRes (f s) kx k := rfl
theorem den_call (o : Obj) (nm : String) (body : M) (enter : Loc → Loc) (leave : Loc → Out → Loc) (s : Loc)
    (kx : PyErr → P) (kr k : Loc → P) :
    den (.call o nm body enter leave) s kx kr k =
      den body { enter s with self := s.obj o } kx (fun t => k (leave s t.out)) (fun t => k (leave s t.out)) := rfl
theorem den_callR (o : Obj) (nm : String) (body : M) (enter : Loc → Loc) (leave : Loc → Out → Loc) (s : Loc)
    (kx : PyErr → P) (kr k : Loc → P) :
    den (.callR o nm body enter leave) s kx kr k =
      den body (enter s) kx (fun t => k (leave s t.out)) (fun t => k (leave s t.out)) := rfl

/-- the snapshots an operand can deliver: an allowed value of the shared object, or THE value of a local operand -/
def GoodOp (E : Env) (s : Loc) (o : Obj) (c : Coords) : Prop :=
  match s.fresh o with
  | .shared => GoodC E (s.obj o) c
  | fr => c = asCoords (freshVal fr .coords)

/-- what is assumed of an operand: `ObjOK` if it is a shared object, nothing if it is local -/
def OpOK (E : Env) (s : Loc) (o : Obj) : Prop :=
  match s.fresh o with
  | .shared => ObjOK E (s.obj o)
  | _ => True

theorem isInf_good {E : Env} {id : Nat} (hok : ObjOK E id) {c : Coords} (hc : GoodC E id c) :
    isInfC c = isInfC (E.c0 id) := by
  rcases hc with rfl | rfl
  · rfl
  · exact hok.inf_ri.symm

theorem isInf_op {E : Env} {s : Loc} {o : Obj} (hok : OpOK E s o) {c c' : Coords} (hc : GoodOp E s o c)
    (hc' : GoodOp E s o c') : isInfC c = isInfC c' := by
  unfold GoodOp at hc hc'
  unfold OpOK at hok
  cases hfr : s.fresh o with
  | shared =>
    rw [hfr] at hc hc' hok
    rw [isInf_good hok hc, isInf_good hok hc']
  | inf => rw [hfr] at hc hc'; rw [hc, hc']
  | pj P => rw [hfr] at hc hc'; rw [hc, hc']

/-- a load of the coordinates of an operand: a step (two cases) for a shared object, no step for a local one -/
theorem safe_load_coords {E : Env} {s : Loc} {o : Obj} {acc : Res Out → Prop} {ph : Phases Cell} {kx : PyErr → P}
    {kr k : Loc → P} {bind : Loc → Val → Loc}
    (h : ∀ (c : Coords) (ph' : Phases Cell), GoodOp E s o c → (∀ k', ph k' = .canon → ph' k' = .canon) →
      SafeE E acc ph' (k (bind s (.coords c)))) :
    SafeE E acc ph (den (.load o .coords bind) s kx kr k) := by
  unfold den
  cases hfr : s.fresh o with
  | shared =>
    simp only
    apply safe_read_coords
    · intro _ _; exact h _ _ (by simp [GoodOp, hfr, GoodC]) (fun _ h => h)
    · exact h _ _ (by simp [GoodOp, hfr, GoodC]) (le_set _ _)
  | inf => exact h _ _ (by simp [GoodOp, hfr, freshVal, asCoords]) (fun _ h => h)
  | pj P => exact h _ _ (by simp [GoodOp, hfr, freshVal, asCoords]) (fun _ h => h)

/-- `X == INFINITY` as a call inside another method: one snapshot of `X`, the answer is whether it is the identity -/
theorem safe_eqinf_call {E : Env} {s1 : Loc} (hinf : s1.otherInf = true) {acc : Res Out → Prop} {ph : Phases Cell}
    {kx : PyErr → P} {K K' : Loc → P}
    (h : ∀ (c : Coords) (ph' : Phases Cell) (t : Loc), GoodOp E s1 .self c → (∀ k', ph k' = .canon → ph' k' = .canon) →
      t.out = .bool (isInfC c) → SafeE E acc ph' (K t)) :
    SafeE E acc ph (den (mEq E.info) s1 kx K K') := by
  simp only [mEq, den_seq, loadA]
  apply safe_load_coords
  intro c ph' hc hle
  simp only [den_ite, hinf, if_true, den_ret, bindRes_ok, asCoords]
  exact h c ph' _ hc hle rfl

/-! ### __add__ -/

/-- sequential value of `A + B` on snapshots `a`, `b` (`rs`, `ro` = what `return self` / `return other` yield) -/
def seqAddG (is io : ObjInfo) (rs ro : Out) (a b : Coords) : Res Out :=
  if isInfC a then .ok ro
  else if isInfC b then .ok rs
  else if !(is.curve.eqv io.curve) then .error .valueError
  else (Curve.pjAddCore (mkPJ is a) (mkPJ io b)).map .pt

def seqAdd (is : ObjInfo) (s : Nat) (a : Coords) (io : ObjInfo) (o : Nat) (b : Coords) : Res Out :=
  seqAddG is io (.obj s) (.obj o) a b

/-- what `A + B` may return when the operands are shared objects or local values -/
def accAddG (E : Env) (s : Loc) (r : Res Out) : Prop :=
  ∃ a b, GoodOp E s .self a ∧ GoodOp E s .other b ∧
    r = seqAddG (infoOf E.info s .self) (infoOf E.info s .other) (retOperand s .self) (retOperand s .other) a b

theorem add_tail_g (E : Env) (s : Loc) (a b : Coords) (ha : GoodOp E s .self a) (hb : GoodOp E s .other b)
    (hia : isInfC a = false) (hib : isInfC b = false)
    (hc : (!(infoOf E.info s .self).curve.eqv (infoOf E.info s .other).curve) = false) (ph : Phases Cell) :
    SafeE E (accAddG E s) ph
      (if (match Curve.pjAddCore (mkPJ (infoOf E.info s .self) a) (mkPJ (infoOf E.info s .other) b) with
            | .ok .infinity => true
            | _ => false) = true then (Prog.ret (.ok (.pt .infinity)) : P)
       else Prog.ret ((Curve.pjAddCore (mkPJ (infoOf E.info s .self) a) (mkPJ (infoOf E.info s .other) b)).map .pt)) := by
  have hseq : seqAddG (infoOf E.info s .self) (infoOf E.info s .other) (retOperand s .self) (retOperand s .other) a b
      = (Curve.pjAddCore (mkPJ (infoOf E.info s .self) a) (mkPJ (infoOf E.info s .other) b)).map .pt := by
    simp [seqAddG, hia, hib, hc]
  cases hadd : Curve.pjAddCore (mkPJ (infoOf E.info s .self) a) (mkPJ (infoOf E.info s .other) b) with
  | error e =>
    simp only [Bool.false_eq_true, if_false]
    exact Safe.ret ⟨a, b, ha, hb, by rw [hseq, hadd]⟩
  | ok R =>
    cases R with
    | infinity =>
      simp only [if_true]
      exact Safe.ret ⟨a, b, ha, hb, by rw [hseq, hadd]; rfl⟩
    | jac Q =>
      simp only [Bool.false_eq_true, if_false]
      exact Safe.ret ⟨a, b, ha, hb, by rw [hseq, hadd]⟩
    | aff Q =>
      simp only [Bool.false_eq_true, if_false]
      exact Safe.ret ⟨a, b, ha, hb, by rw [hseq, hadd]⟩

/-- `A + B` where each operand is a shared object or a local value (the result of a previous call) -/
theorem op_safe_add_g (E : Env) (s : Loc) (hs : OpOK E s .self) (ho : OpOK E s .other) (ph : Phases Cell) :
    SafeE E (accAddG E s) ph (toProg (mAdd E.info) s) := by
  unfold toProg
  simp only [mAdd, den_seq, den_call, Loc.obj]
  apply safe_eqinf_call rfl
  intro a1 ph1 t1 ha1 _ ht1
  have ha1' : GoodOp E s .self a1 := by simpa [GoodOp, Loc.fresh, Loc.obj] using ha1
  simp only [den_ite, ht1, isTrue]
  by_cases hia : isInfC a1 = true
  · simp only [hia, if_true, den_ret, bindRes_ok]
    obtain ⟨b, hb⟩ : ∃ b, GoodOp E s .other b := by
      unfold GoodOp
      cases s.fresh .other with
      | shared => exact ⟨_, Or.inl rfl⟩
      | inf => exact ⟨_, rfl⟩
      | pj P => exact ⟨_, rfl⟩
    exact Safe.ret ⟨a1, b, ha1', hb, by simp only [seqAddG, hia, if_true]; rfl⟩
  · have hia' : isInfC a1 = false := by simpa using hia
    simp only [hia', Bool.false_eq_true, if_false, den_skip, den_call, Loc.obj]
    apply safe_eqinf_call rfl
    intro b1 ph2 t2 hb1 _ ht2
    have hb1' : GoodOp E s .other b1 := by simpa [GoodOp, Loc.fresh, Loc.obj] using hb1
    simp only [den_ite, ht2, isTrue]
    by_cases hib : isInfC b1 = true
    · simp only [hib, if_true, den_ret, bindRes_ok]
      exact Safe.ret ⟨a1, b1, ha1', hb1', by simp only [seqAddG, hia', hib, Bool.false_eq_true, if_false, if_true]; rfl⟩
    · have hib' : isInfC b1 = false := by simpa using hib
      simp only [hib', Bool.false_eq_true, if_false, den_skip]
      by_cases hc : (!(infoOf E.info s .self).curve.eqv (infoOf E.info s .other).curve) = true
      · have hc1 : (!(infoOf E.info { s with r1 := Out.bool false } .self).curve.eqv
            (infoOf E.info { s with r1 := Out.bool false } .other).curve) = true := hc
        simp only [hc1, if_true, den_ret, bindRes_error]
        exact Safe.ret ⟨a1, b1, ha1', hb1', by simp [seqAddG, hia', hib', hc]⟩
      · have hc' : (!(infoOf E.info s .self).curve.eqv (infoOf E.info s .other).curve) = false := by simpa using hc
        have hc1 : (!(infoOf E.info { s with r1 := Out.bool false } .self).curve.eqv
            (infoOf E.info { s with r1 := Out.bool false } .other).curve) = false := hc'
        simp only [hc1, Bool.false_eq_true, if_false, den_skip, loadA, loadB]
        apply safe_load_coords
        intro a2 ph3 ha2 _
        have ha2' : GoodOp E s .self a2 := ha2
        apply safe_load_coords
        intro b2 ph4 hb2 _
        have hb2' : GoodOp E s .other b2 := hb2
        have ia2 : isInfC a2 = false := by rw [isInf_op hs ha2' ha1']; exact hia'
        have ib2 : isInfC b2 = false := by rw [isInf_op ho hb2' hb1']; exact hib'
        simp only [den_ite, den_ret, den_skip, asCoords, bindRes_ret, selfPJ', otherPJ']
        exact add_tail_g E s a2 b2 ha2' hb2' ia2 ib2 hc' _

/-- `P + Q` for two (possibly identical) shared points: the sum of one allowed snapshot of each, with the tests for the
identity taken on allowed snapshots too (they agree on all of them by `inf_ri`) -/
theorem op_safe_add (E : Env) (s o : Nat) (hs : ObjOK E s) (ho : ObjOK E o) (ph : Phases Cell) :
    SafeE E (fun r => ∃ a b, GoodC E s a ∧ GoodC E o b ∧ r = seqAdd (E.info s) s a (E.info o) o b) ph
      (toProg (mAdd E.info) { self := s, other := o }) :=
  op_safe_add_g E { self := s, other := o } hs ho ph

/-! ### _maybe_precompute(), _mul_precompute(), __mul__ -/

theorem precompute_good {E : Env} {id : Nat} (hok : ObjOK E id) (hg : (E.info id).generator = true) {c : Coords}
    (hc : GoodC E id c) : Curve.precomputeTable (mkPJ (E.info id) c) = .ok (E.tF id) := by
  rcases hc with rfl | rfl
  · exact (hok.table_gen hg).1
  · exact (hok.table_gen hg).2.1

/-- `_maybe_precompute()` as a step of a larger method: it stores nothing but the complete table, does not raise, and
afterwards a generator's `__precompute` is canonical for this thread -/
theorem safe_maybe_precompute_body {E : Env} {id : Nat} (hok : ObjOK E id) {acc : Res Out → Prop} (kx : PyErr → P)
    (kr k : Loc → P) (ph : Phases Cell) (s : Loc) (hs : s.self = id) (hf : s.selfFresh = .shared)
    (hr : ∀ (ph' : Phases Cell) (s' : Loc), ((E.info id).generator = true → ph' (id, .pre) = .canon) →
      s'.out = .none → (∀ k', ph k' = .canon → ph' k' = .canon) → SafeE E acc ph' (kr s')) :
    SafeE E acc ph (den (mMaybePrecompute E.info) s kx kr k) := by
  subst hs
  simp only [mMaybePrecompute, den, loadA, loadTA, Loc.obj, Loc.fresh, hf, bindRes_ok]
  by_cases hg : (E.info s.self).generator = true
  · simp only [hg, if_true, Bool.not_true, Bool.false_or]
    apply safe_read_pre
    · intro _ _
      simp only [asTable, List.isEmpty_nil, Bool.not_true, Bool.false_eq_true, if_false]
      apply safe_read_coords
      · intro _ _
        simp only [asCoords, selfPJ]
        rw [precompute_good hok hg (Or.inl rfl)]
        simp only [Except.map, bindRes_ok, Loc.fresh, hf]
        apply safe_write_pre rfl
        exact hr _ _ (fun _ => Phases.set_self _ _) rfl (le_set _ _)
      · simp only [asCoords, selfPJ]
        rw [precompute_good hok hg (Or.inr rfl)]
        simp only [Except.map, bindRes_ok, Loc.fresh, hf]
        apply safe_write_pre rfl
        exact hr _ _ (fun _ => Phases.set_self _ _) rfl (le_set2 _ _ _)
    · have hne : (E.tF s.self).isEmpty = false := (hok.table_gen hg).2.2
      simp only [asTable, hne, Bool.not_false, if_true, bindRes_ok]
      exact hr _ _ (fun _ => Phases.set_self _ _) rfl (le_set _ _)
  · have hg' : (E.info s.self).generator = false := by simpa using hg
    simp only [hg', Bool.false_eq_true, if_false, Bool.not_false, Bool.true_or, if_true, bindRes_ok]
    exact hr _ _ (fun h => by rw [hg'] at h; cases h) rfl (fun _ h => h)

theorem op_safe_maybe_precompute (E : Env) (id : Nat) (hok : ObjOK E id) (ph : Phases Cell) :
    SafeE E (fun r => r = .ok .none) ph (toProg (mMaybePrecompute E.info) { self := id }) := by
  unfold toProg
  apply safe_maybe_precompute_body hok _ _ _ ph _ rfl rfl
  intro ph' s' _ hout _
  exact Safe.ret (by rw [hout])

/-- sequential value of `P * k` on an object with coordinates `c` and table state `t` (`Model.Curve.pjMulWith`) -/
def seqMul (i : ObjInfo) (id : Nat) (c : Coords) (t : Table) (k : Int) : Res Out :=
  if (c.2.1 == 0 || k == 0) then .ok (.pt .infinity)
  else if k == 1 then .ok (.obj id)
  else (Curve.pjMulWith t (mkPJ i c) k).map .pt

theorem safe_ret_pt {E : Env} {acc : Res Out → Prop} {ph : Phases Cell} (x : Curve.Pt) (h : acc (.ok (.pt x))) :
    SafeE E acc ph (if (x == Curve.Pt.infinity) = true then (Prog.ret (.ok (.pt .infinity)) : P) else Prog.ret (.ok (.pt x))) := by
  by_cases hx : x = .infinity
  · subst hx; simp only [beq_self_eq_true, if_true]; exact Safe.ret h
  · simp only [beq_iff_eq, hx, if_false]; exact Safe.ret h

theorem scale_good {E : Env} {id : Nat} (hok : ObjOK E id) {c : Coords} (hc : GoodC E id c) :
    Curve.pjScale (mkPJ (E.info id) c) = .ok (mkPJ (E.info id) (E.cS id)) := by
  rcases hc with rfl | rfl
  · exact hok.scale0
  · exact scaleS hok

theorem redK_eq (i : ObjInfo) (k : Int) :
    (match Curve.truthy i.order with
      | some o => pmod k (o * 2)
      | none => k) = redK i k := rfl

theorem mulWith_gen {E : Env} {id : Nat} (hok : ObjOK E id) (hg : (E.info id).generator = true) {c : Coords}
    (hc : GoodC E id c) (k : Int) (h0 : (c.2.1 == 0 || k == 0) = false) (h1 : (k == 1) = false) (c' : Coords) :
    seqMul (E.info id) id c [] k = .ok (.pt (Curve.mulPrecompute (mkPJ (E.info id) c') (E.tF id) (redK (E.info id) k))) := by
  have hne : (E.tF id).isEmpty = false := (hok.table_gen hg).2.2
  have h0' : ((mkPJ (E.info id) c).y == 0 || k == 0) = false := h0
  simp only [seqMul, h0, h1, Bool.false_eq_true, if_false, Curve.pjMulWith, h0', Curve.maybePrecompute]
  have : (mkPJ (E.info id) c).generator = true := hg
  simp only [this, Bool.not_true, List.isEmpty_nil, Bool.false_or, Bool.false_eq_true, if_false]
  rw [precompute_good hok hg hc]
  simp only [bind, Except.bind, hne, Bool.not_false, if_true, Except.map]
  rfl

theorem mulWith_nogen {E : Env} {id : Nat} (hok : ObjOK E id) (hg : (E.info id).generator = false) {c : Coords}
    (hc : GoodC E id c) (k : Int) (h0 : (c.2.1 == 0 || k == 0) = false) (h1 : (k == 1) = false) :
    seqMul (E.info id) id c [] k = .ok (.pt (mulNaf (E.info id) (E.cS id) (redK (E.info id) k))) := by
  have h0' : ((mkPJ (E.info id) c).y == 0 || k == 0) = false := h0
  simp only [seqMul, h0, h1, Bool.false_eq_true, if_false, Curve.pjMulWith, h0', Curve.maybePrecompute]
  have : (mkPJ (E.info id) c).generator = false := hg
  simp only [this, Bool.not_false, Bool.true_or, if_true, bind, Except.bind, List.isEmpty_nil, Bool.not_true,
    Bool.false_eq_true, if_false]
  rw [scale_good hok hc]
  simp only [Except.map]
  rfl

/-- `P * k` -/
theorem op_safe_mul (E : Env) (id : Nat) (k : Int) (hok : ObjOK E id) (ph : Phases Cell) :
    SafeE E (fun r => ∃ c t, GoodC E id c ∧ (t = [] ∨ t = E.tF id) ∧ r = seqMul (E.info id) id c t k) ph
      (toProg (mMul E.info) { self := id, ka := k }) := by
  simp only [toProg, mMul, den, loadA, loadTA, Loc.obj, bindRes_ret, bindRes_ok]
  have body : ∀ (c : Coords) (ph0 : Phases Cell), GoodC E id c →
      SafeE E (fun r => ∃ c t, GoodC E id c ∧ (t = [] ∨ t = E.tF id) ∧ r = seqMul (E.info id) id c t k) ph0
        ((fun v : Val =>
          if ((asCoords v).snd.fst == 0 || k == 0) = true then (Prog.ret (Except.ok (Out.pt Curve.Pt.infinity)) : P)
          else
            if (k == 1) = true then Prog.ret (Except.ok (Out.obj id))
            else
              den (mMaybePrecompute E.info) { self := id } (fun e => Prog.ret (Except.error e))
                (fun t =>
                  Prog.read (id, Fld.pre) fun v =>
                    if (!List.isEmpty (asTable v)) = true then
                      den (mMulPrecompute E.info) { self := id, ka := redK (E.info id) k }
                        (fun e => Prog.ret (Except.error e)) (fun t => Prog.ret (Except.ok t.out)) fun t =>
                        Prog.ret (Except.ok t.out)
                    else
                      den (mScale E.info) { self := id } (fun e => Prog.ret (Except.error e))
                        (fun t =>
                          Prog.read (id, Fld.coords) fun v =>
                            if (mulNaf (E.info id) (asCoords v) (redK (E.info id) k) == Curve.Pt.infinity) = true then
                              Prog.ret (Except.ok (Out.pt Curve.Pt.infinity))
                            else Prog.ret (Except.ok (Out.pt (mulNaf (E.info id) (asCoords v) (redK (E.info id) k)))))
                        fun t =>
                        Prog.read (id, Fld.coords) fun v =>
                          if (mulNaf (E.info id) (asCoords v) (redK (E.info id) k) == Curve.Pt.infinity) = true then
                            Prog.ret (Except.ok (Out.pt Curve.Pt.infinity))
                          else Prog.ret (Except.ok (Out.pt (mulNaf (E.info id) (asCoords v) (redK (E.info id) k)))))
                fun t =>
                Prog.read (id, Fld.pre) fun v =>
                  if (!List.isEmpty (asTable v)) = true then
                    den (mMulPrecompute E.info) { self := id, ka := redK (E.info id) k }
                      (fun e => Prog.ret (Except.error e)) (fun t => Prog.ret (Except.ok t.out)) fun t =>
                      Prog.ret (Except.ok t.out)
                  else
                    den (mScale E.info) { self := id } (fun e => Prog.ret (Except.error e))
                      (fun t =>
                        Prog.read (id, Fld.coords) fun v =>
                          if (mulNaf (E.info id) (asCoords v) (redK (E.info id) k) == Curve.Pt.infinity) = true then
                            Prog.ret (Except.ok (Out.pt Curve.Pt.infinity))
                          else Prog.ret (Except.ok (Out.pt (mulNaf (E.info id) (asCoords v) (redK (E.info id) k)))))
                      fun t =>
                      Prog.read (id, Fld.coords) fun v =>
                        if (mulNaf (E.info id) (asCoords v) (redK (E.info id) k) == Curve.Pt.infinity) = true then
                          Prog.ret (Except.ok (Out.pt Curve.Pt.infinity))
                        else Prog.ret (Except.ok (Out.pt (mulNaf (E.info id) (asCoords v) (redK (E.info id) k)))))
          (Val.coords c)) := by
    intro c ph0 hc
    simp only [asCoords]
    by_cases h0 : (c.2.1 == 0 || k == 0) = true
    · simp only [h0, if_true]
      exact Safe.ret ⟨c, [], hc, Or.inl rfl, by simp [seqMul, h0]⟩
    · have h0' : (c.2.1 == 0 || k == 0) = false := by simpa using h0
      simp only [h0', Bool.false_eq_true, if_false]
      by_cases h1 : (k == 1) = true
      · simp only [h1, if_true]
        exact Safe.ret ⟨c, [], hc, Or.inl rfl, by simp [seqMul, h0', h1]⟩
      · have h1' : (k == 1) = false := by simpa using h1
        simp only [h1', Bool.false_eq_true, if_false]
        apply safe_maybe_precompute_body hok _ _ _ _ _ rfl rfl
        intro ph1 s1 hgen _ _
        by_cases hg : (E.info id).generator = true
        · have hcan := hgen hg
          have hne : (E.tF id).isEmpty = false := (hok.table_gen hg).2.2
          apply safe_read_pre
          · intro h; rw [hcan] at h; cases h
          · simp only [asTable, hne, Bool.not_false, if_true, mMulPrecompute, den, loadTA, Loc.obj, bindRes_ok]
            apply safe_read_pre
            · intro h; rw [Phases.set_self] at h; cases h
            · simp only [asTable, selfPJ]
              apply safe_ret_pt
              exact ⟨c, [], hc, Or.inl rfl, (mulWith_gen hok hg hc k h0' h1' _).symm⟩
        · have hg' : (E.info id).generator = false := by simpa using hg
          have ht : E.tF id = [] := hok.table_nogen hg'
          apply safe_read_pre
          · intro _ hne; exact absurd ht hne
          · simp only [asTable, ht, List.isEmpty_nil, Bool.not_true, Bool.false_eq_true, if_false]
            apply safe_scale_body hok _ _ _ _ _ rfl rfl
            intro ph2 s2 hcan2 _ _ _
            apply safe_read_coords
            · intro h; rw [hcan2] at h; cases h
            · simp only [asCoords]
              apply safe_ret_pt
              exact ⟨c, [], hc, Or.inl rfl, (mulWith_nogen hok hg' hc k h0' h1').symm⟩
  apply safe_read_coords
  · intro _ _; exact body _ _ (Or.inl rfl)
  · exact body _ _ (Or.inr rfl)

/-! ### calls compose: a call is the callee's whole program followed by the caller's continuation -/

theorem bindRes_bind {α : Type} (r : Res α) (kx : PyErr → P) (k : α → P) (F : Res Out → P) :
    (bindRes r kx k).bind F = bindRes r (fun e => (kx e).bind F) (fun a => (k a).bind F) := by
  cases r <;> rfl

theorem den_bind (m : M) : ∀ (s : Loc) (kx : PyErr → P) (kr k : Loc → P) (F : Res Out → P),
    (den m s kx kr k).bind F = den m s (fun e => (kx e).bind F) (fun t => (kr t).bind F) (fun t => (k t).bind F) := by
  induction m with
  | skip => intro s kx kr k F; rfl
  | seq a b iha ihb =>
    intro s kx kr k F
    simp only [den]
    rw [iha]
    congr 1
    funext s'
    exact ihb s' kx kr k F
  | load o f bind =>
    intro s kx kr k F
    simp only [den]
    cases s.fresh o <;> rfl
  | store o f val =>
    intro s kx kr k F
    simp only [den]
    cases s.fresh o <;> rfl
  | pure f => intro s kx kr k F; simp only [den]; exact bindRes_bind _ _ _ _
  | ite c t e iht ihe =>
    intro s kx kr k F
    simp only [den]
    split
    · exact iht s kx kr k F
    · exact ihe s kx kr k F
  | ret f => intro s kx kr k F; simp only [den]; exact bindRes_bind _ _ _ _
  | call o nm body enter leave ih =>
    intro s kx kr k F
    simp only [den]
    exact ih _ kx _ _ F
  | callR o nm body enter leave ih =>
    intro s kx kr k F
    simp only [den]
    exact ih _ kx _ _ F
  | loop body ih => intro s kx kr k F; rfl

/-- running a method with continuations that only look at its outcome = its whole program, then the continuation -/
theorem den_eq_bind (m : M) (s : Loc) (F : Res Out → P) :
    den m s (fun e => F (.error e)) (fun t => F (.ok t.out)) (fun t => F (.ok t.out)) = (toProg m s).bind F := by
  unfold toProg
  rw [den_bind]
  rfl

/-- a call inside a method, given what the callee is known to return -/
theorem safe_call_of {E : Env} {body : M} {s1 : Loc} {accB : Res Out → Prop} {acc : Res Out → Prop} {ph : Phases Cell}
    (hb : SafeE E accB ph (toProg body s1)) {kx : PyErr → P} {K : Loc → P}
    (F : Res Out → P) (hkx : ∀ e, kx e = F (.error e)) (hK : ∀ t, K t = F (.ok t.out))
    (hF : ∀ r (ph' : Phases Cell), accB r → (∀ k', ph k' = .canon → ph' k' = .canon) → SafeE E acc ph' (F r)) :
    SafeE E acc ph (den body s1 kx K K) := by
  have e1 : kx = fun e => F (.error e) := funext hkx
  have e2 : K = fun t => F (.ok t.out) := funext hK
  rw [e1, e2, den_eq_bind]
  exact Safe.bind hb F hF

/-! ### the wrappers `__ne__`, `__radd__`, `__rmul__`, and `from_affine` -/

def accEq (E : Env) (s o : Nat) (r : Res Out) : Prop :=
  ∃ a b, GoodC E s a ∧ GoodC E o b ∧ r = seqEq (E.info s) a (E.info o) b
def accAdd (E : Env) (s o : Nat) (r : Res Out) : Prop :=
  ∃ a b, GoodC E s a ∧ GoodC E o b ∧ r = seqAdd (E.info s) s a (E.info o) o b
def accMul (E : Env) (id : Nat) (k : Int) (r : Res Out) : Prop :=
  ∃ c t, GoodC E id c ∧ (t = [] ∨ t = E.tF id) ∧ r = seqMul (E.info id) id c t k

/-- `not (self == other)` -/
def negOut : Res Out → Res Out
  | .ok o => .ok (.bool (!isTrue o))
  | .error e => .error e

theorem op_safe_ne (E : Env) (s o : Nat) (ph : Phases Cell) :
    SafeE E (fun r => ∃ r0, accEq E s o r0 ∧ r = negOut r0) ph (toProg (mNe E.info) { self := s, other := o }) := by
  unfold toProg
  simp only [mNe, den_seq, den_call, den_ret, Loc.obj, bindRes_ok]
  apply safe_call_of (op_safe_eq E s o ph) (fun r => Prog.ret (negOut r)) (fun e => rfl) (fun t => rfl)
  intro r ph' hr _
  exact Safe.ret ⟨r, hr, rfl⟩

theorem op_safe_radd (E : Env) (s o : Nat) (hs : ObjOK E s) (ho : ObjOK E o) (ph : Phases Cell) :
    SafeE E (accAdd E s o) ph (toProg (mRadd E.info) { self := s, other := o }) := by
  unfold toProg
  simp only [mRadd, den_seq, den_call, den_ret, Loc.obj, bindRes_ok]
  apply safe_call_of (op_safe_add E s o hs ho ph) (fun r => Prog.ret r) (fun e => rfl) (fun t => rfl)
  intro r ph' hr _
  exact Safe.ret hr

theorem op_safe_rmul (E : Env) (id : Nat) (k : Int) (hok : ObjOK E id) (ph : Phases Cell) :
    SafeE E (accMul E id k) ph (toProg (mRmul E.info) { self := id, ka := k }) := by
  unfold toProg
  simp only [mRmul, den_seq, den_call, den_ret, Loc.obj, bindRes_ok]
  apply safe_call_of (op_safe_mul E id k hok ph) (fun r => Prog.ret r) (fun e => rfl) (fun t => rfl)
  intro r ph' hr _
  exact Safe.ret hr

/-- `from_affine(P, generator)` applied to a shared `PointJacobi` (what `VerifyingKey.precompute` does): the new point
has `x()` of one allowed snapshot and `y()` of one allowed snapshot of `P` (the same affine pair, by C06 `xy_unique`) -/
def fromAffineOut (i : ObjInfo) (g : Int) (rx ry : Res Out) : Res Out :=
  match rx with
  | .error e => .error e
  | .ok ox => match ry with
    | .error e => .error e
    | .ok oy => match ox, oy with
      | .int x, .int y => .ok (.pt (.jac ⟨i.curve, x, y, 1, i.order, g != 0⟩))
      | _, _ => .error .typeError

theorem op_safe_from_affine (E : Env) (id : Nat) (g : Int) (ph : Phases Cell) :
    SafeE E (fun r => ∃ ca cb, GoodC E id ca ∧ GoodC E id cb ∧
        r = fromAffineOut (E.info id) g (seqX (E.info id) ca) (seqY (E.info id) cb)) ph
      (toProg (mFromAffine E.info) { self := id, other := id, ka := g }) := by
  unfold toProg
  simp only [mFromAffine, den_seq, den_call, den_ret, Loc.obj]
  apply safe_call_of (op_safe_x E id ph)
    (fun rx => match rx with
      | .error e => Prog.ret (.error e)
      | .ok ox => den (mY E.info) { self := id } (fun e => Prog.ret (.error e))
          (fun t => Prog.ret (fromAffineOut (E.info id) g (.ok ox) (.ok t.out)))
          (fun t => Prog.ret (fromAffineOut (E.info id) g (.ok ox) (.ok t.out))))
  · intro e; rfl
  · intro t
    simp only
    congr 1 <;> funext t2 <;> simp only [bindRes_ret, fromAffineOut] <;>
      (generalize t.out = a; generalize t2.out = b; cases a <;> cases b <;> rfl)
  · intro rx ph1 hrx _
    cases rx with
    | error e =>
      rcases hrx with h | h
      · exact Safe.ret ⟨_, E.c0 id, Or.inl rfl, Or.inl rfl, by rw [← h]; rfl⟩
      · exact Safe.ret ⟨_, E.c0 id, Or.inr rfl, Or.inl rfl, by rw [← h]; rfl⟩
    | ok ox =>
      simp only
      apply safe_call_of (op_safe_y E id ph1) (fun ry => Prog.ret (fromAffineOut (E.info id) g (.ok ox) ry))
      · intro e; rfl
      · intro t; rfl
      · intro ry ph2 hry _
        rcases hrx with h | h <;> rcases hry with h' | h'
        · exact Safe.ret ⟨_, _, Or.inl rfl, Or.inl rfl, by rw [← h, ← h']⟩
        · exact Safe.ret ⟨_, _, Or.inl rfl, Or.inr rfl, by rw [← h, ← h']⟩
        · exact Safe.ret ⟨_, _, Or.inr rfl, Or.inl rfl, by rw [← h, ← h']⟩
        · exact Safe.ret ⟨_, _, Or.inr rfl, Or.inr rfl, by rw [← h, ← h']⟩

/-- `__setstate__` (run by unpickling on the NEW object): two stores, of exactly the pickled pair -/
theorem setstate_prog (s : Loc) (hf : s.selfFresh = .shared) :
    toProg mSetstate s = .write (s.self, .coords) (.coords s.ca) (.write (s.self, .pre) (.table s.ta) (.ret (.ok .none))) := by
  simp [toProg, mSetstate, den, Loc.fresh, hf, Loc.obj, bindRes]

/-! ### mul_add -/

/-- the operands of the final `+` of `self * a + other * b`: the results of the two multiplications -/
def sumLoc (a b : Nat) (o1 o2 : Out) : Loc :=
  { self := a, other := b, selfFresh := freshOf o1, otherFresh := freshOf o2 }

/-- what `self * ka + other * kb` may return: each product its sequential value on allowed snapshots, the sum taken of
those results (which ARE the shared objects when a multiplier is 1) -/
def accSum (E : Env) (a b : Nat) (ka kb : Int) (r : Res Out) : Prop :=
  (∃ e, accMul E a ka (.error e) ∧ r = .error e) ∨
  ∃ o1, accMul E a ka (.ok o1) ∧
    ((∃ e, accMul E b kb (.error e) ∧ r = .error e) ∨
     ∃ o2, accMul E b kb (.ok o2) ∧ accAddG E (sumLoc a b o1 o2) r)

theorem opOK_sum_self {E : Env} {a b : Nat} (ha : ObjOK E a) (o1 o2 : Out) : OpOK E (sumLoc a b o1 o2) .self := by
  unfold OpOK
  simp only [sumLoc, Loc.fresh, Loc.obj]
  cases freshOf o1 <;> first | exact ha | trivial

theorem opOK_sum_other {E : Env} {a b : Nat} (hb : ObjOK E b) (o1 o2 : Out) : OpOK E (sumLoc a b o1 o2) .other := by
  unfold OpOK
  simp only [sumLoc, Loc.fresh, Loc.obj]
  cases freshOf o2 <;> first | exact hb | trivial

/-- rule for a call followed by the rest of the method: the callee's program, then — for each outcome it may have —
the rest -/
theorem safe_den_call {E : Env} {o : Obj} {nm : String} {body rest : M} {enter : Loc → Loc} {leave : Loc → Out → Loc}
    {s : Loc} {accB acc : Res Out → Prop} {ph : Phases Cell} {kx : PyErr → P} {kr k : Loc → P}
    (hb : SafeE E accB ph (toProg body { enter s with self := s.obj o }))
    (hF : ∀ r (ph' : Phases Cell), accB r → (∀ k', ph k' = .canon → ph' k' = .canon) →
      SafeE E acc ph' (match r with
        | .error e => kx e
        | .ok out => den rest (leave s out) kx kr k)) :
    SafeE E acc ph (den (.call o nm body enter leave ;; rest) s kx kr k) := by
  rw [den_seq, den_call]
  have := den_eq_bind body { enter s with self := s.obj o }
    (fun r => match r with
      | .error e => kx e
      | .ok out => den rest (leave s out) kx kr k)
  simp only at this
  rw [this]
  exact Safe.bind hb _ hF

theorem safe_den_callR {E : Env} {o : Obj} {nm : String} {body rest : M} {enter : Loc → Loc} {leave : Loc → Out → Loc}
    {s : Loc} {accB acc : Res Out → Prop} {ph : Phases Cell} {kx : PyErr → P} {kr k : Loc → P}
    (hb : SafeE E accB ph (toProg body (enter s)))
    (hF : ∀ r (ph' : Phases Cell), accB r → (∀ k', ph k' = .canon → ph' k' = .canon) →
      SafeE E acc ph' (match r with
        | .error e => kx e
        | .ok out => den rest (leave s out) kx kr k)) :
    SafeE E acc ph (den (.callR o nm body enter leave ;; rest) s kx kr k) := by
  rw [den_seq, den_callR]
  have := den_eq_bind body (enter s)
    (fun r => match r with
      | .error e => kx e
      | .ok out => den rest (leave s out) kx kr k)
  simp only at this
  rw [this]
  exact Safe.bind hb _ hF


theorem accMul_objOf {E : Env} {id : Nat} {k : Int} {o : Out} (h : accMul E id k (.ok o)) : objOf o id = id := by
  obtain ⟨c, t, _, _, hr⟩ := h
  unfold seqMul at hr
  split at hr
  · injection hr with hr; subst hr; rfl
  · split at hr
    · injection hr with hr; subst hr; rfl
    · cases hm : Curve.pjMulWith t (mkPJ (E.info id) c) k with
      | error e => rw [hm] at hr; cases hr
      | ok R => rw [hm] at hr; simp only [Except.map, Except.ok.injEq] at hr; subst hr; rfl

theorem safe_mulsum {E : Env} (s : Loc) (ha : ObjOK E s.self) (hb : ObjOK E s.other) {acc : Res Out → Prop}
    (hacc : ∀ r, accSum E s.self s.other s.ka s.kb r → acc r) (ph : Phases Cell) (k : Loc → P) :
    SafeE E acc ph (den (mMulSum E.info) s (fun e => Prog.ret (.error e)) (fun t => Prog.ret (.ok t.out)) k) := by
  unfold mMulSum
  refine safe_den_call (accB := accMul E s.self s.ka) ?_ ?_
  · exact op_safe_mul E s.self s.ka ha ph
  intro r1 ph1 hr1 _
  cases r1 with
  | error e => exact Safe.ret (hacc _ (Or.inl ⟨e, hr1, rfl⟩))
  | ok o1 =>
    simp only
    refine safe_den_call (accB := accMul E s.other s.kb) ?_ ?_
    · exact op_safe_mul E s.other s.kb hb ph1
    intro r2 ph2 hr2 _
    cases r2 with
    | error e => exact Safe.ret (hacc _ (Or.inr ⟨o1, hr1, Or.inl ⟨e, hr2, rfl⟩⟩))
    | ok o2 =>
      simp only
      refine safe_den_callR (accB := accAddG E (sumLoc s.self s.other o1 o2)) ?_ ?_
      · have e1 := accMul_objOf hr1
        have e2 := accMul_objOf hr2
        simp only [e1, e2]
        exact op_safe_add_g E (sumLoc s.self s.other o1 o2) (opOK_sum_self ha o1 o2) (opOK_sum_other hb o1 o2) ph2
      intro r ph3 hr _
      cases r with
      | error e => exact Safe.ret (hacc _ (Or.inr ⟨o1, hr1, Or.inr ⟨o2, hr2, hr⟩⟩))
      | ok o =>
        simp only [den_ret, bindRes_ok]
        exact Safe.ret (hacc _ (Or.inr ⟨o1, hr1, Or.inr ⟨o2, hr2, hr⟩⟩))

theorem den_seq_ite (c : Loc → Bool) (t e rest : M) (s : Loc) (kx : PyErr → P) (kr k : Loc → P) :
    den (.ite c t e ;; rest) s kx kr k =
      if c s then den t s kx kr (fun s' => den rest s' kx kr k) else den e s kx kr (fun s' => den rest s' kx kr k) := rfl

def pApBInf (i : ObjInfo) (c1 c2 : Coords) : Bool := (pApB i c1 c2).2.1 == 0 || (pApB i c1 c2).2.2 == 0

/-- what `a.mul_add(ka, b, kb)` may return: the value of the branch the sequential code takes (the branch conditions do
not depend on the interleaving), each sub-operation on allowed snapshots -/
def accMulAdd (E : Env) (a b : Nat) (ka kb : Int) (r : Res Out) : Prop :=
  let c1 := isInfC (E.c0 b) || kb == 0
  let gg := (E.info a).generator && (E.info b).generator
  let ka' := redMA (E.info a) ka
  let kb' := redMA (E.info a) kb
  (c1 = true ∧ accMul E a ka r) ∨
  (c1 = false ∧ (ka == 0) = true ∧ accMul E b kb r) ∨
  (c1 = false ∧ (ka == 0) = false ∧ gg = true ∧ accSum E a b ka kb r) ∨
  (c1 = false ∧ (ka == 0) = false ∧ gg = false ∧ pApBInf (E.info a) (E.cS a) (E.cS b) = true ∧ accSum E a b ka' kb' r) ∨
  (c1 = false ∧ (ka == 0) = false ∧ gg = false ∧ pApBInf (E.info a) (E.cS a) (E.cS b) = false ∧
    r = .ok (.pt (mulAddLoop (E.info a) (E.cS a) (E.cS b) ka' kb')))

/-- rules for a load of a field of a SHARED operand followed by the rest of the method -/
theorem safe_seq_loadA {E : Env} {s : Loc} {rest : M} {acc : Res Out → Prop} {ph : Phases Cell} {kx : PyErr → P}
    {kr k : Loc → P} (hf : s.selfFresh = .shared)
    (h0 : ph (s.self, .coords) = .any → E.c0 s.self ≠ E.cS s.self →
      SafeE E acc ph (den rest { s with ca := E.c0 s.self } kx kr k))
    (hS : SafeE E acc (ph.set (s.self, .coords)) (den rest { s with ca := E.cS s.self } kx kr k)) :
    SafeE E acc ph (den (loadA ;; rest) s kx kr k) := by
  rw [den_seq]
  obtain ⟨self, other, sf, of, oi, ca, cb, ta, tb, ka, kb, r1, r2, out⟩ := s
  simp only at hf
  subst hf
  exact safe_read_coords h0 hS

theorem safe_seq_loadB {E : Env} {s : Loc} {rest : M} {acc : Res Out → Prop} {ph : Phases Cell} {kx : PyErr → P}
    {kr k : Loc → P} (hf : s.otherFresh = .shared)
    (h0 : ph (s.other, .coords) = .any → E.c0 s.other ≠ E.cS s.other →
      SafeE E acc ph (den rest { s with cb := E.c0 s.other } kx kr k))
    (hS : SafeE E acc (ph.set (s.other, .coords)) (den rest { s with cb := E.cS s.other } kx kr k)) :
    SafeE E acc ph (den (loadB ;; rest) s kx kr k) := by
  rw [den_seq]
  obtain ⟨self, other, sf, of, oi, ca, cb, ta, tb, ka, kb, r1, r2, out⟩ := s
  simp only at hf
  subst hf
  exact safe_read_coords h0 hS

theorem safe_seq_loadTA {E : Env} {s : Loc} {rest : M} {acc : Res Out → Prop} {ph : Phases Cell} {kx : PyErr → P}
    {kr k : Loc → P} (hf : s.selfFresh = .shared)
    (h0 : ph (s.self, .pre) = .any → E.tF s.self ≠ [] → SafeE E acc ph (den rest { s with ta := [] } kx kr k))
    (hS : SafeE E acc (ph.set (s.self, .pre)) (den rest { s with ta := E.tF s.self } kx kr k)) :
    SafeE E acc ph (den (loadTA ;; rest) s kx kr k) := by
  rw [den_seq]
  obtain ⟨self, other, sf, of, oi, ca, cb, ta, tb, ka, kb, r1, r2, out⟩ := s
  simp only at hf
  subst hf
  exact safe_read_pre h0 hS

/-- `loadTB` as the then-branch of an `if` -/
theorem safe_loadTB {E : Env} {s : Loc} {acc : Res Out → Prop} {ph : Phases Cell} {kx : PyErr → P}
    {kr k : Loc → P} (hf : s.otherFresh = .shared)
    (h0 : ph (s.other, .pre) = .any → E.tF s.other ≠ [] → SafeE E acc ph (k { s with tb := [] }))
    (hS : SafeE E acc (ph.set (s.other, .pre)) (k { s with tb := E.tF s.other })) :
    SafeE E acc ph (den loadTB s kx kr k) := by
  obtain ⟨self, other, sf, of, oi, ca, cb, ta, tb, ka, kb, r1, r2, out⟩ := s
  simp only at hf
  subst hf
  exact safe_read_pre h0 hS

/-- rule for `scale()` of `self` / `other` followed by the rest -/
theorem safe_seq_scale {E : Env} {o : Obj} {s : Loc} {rest : M} {enter : Loc → Loc} {leave : Loc → Out → Loc}
    {acc : Res Out → Prop} {ph : Phases Cell} {kx : PyErr → P} {kr k : Loc → P}
    (hl : ∀ x, leave s x = s) (hfe : (enter s).selfFresh = .shared) (hok : ObjOK E (s.obj o))
    (h : ∀ ph' : Phases Cell, ph' (s.obj o, .coords) = .canon → (∀ k', ph k' = .canon → ph' k' = .canon) →
      SafeE E acc ph' (den rest s kx kr k)) :
    SafeE E acc ph (den (.call o "scale" (mScale E.info) enter leave ;; rest) s kx kr k) := by
  rw [den_seq, den_call]
  apply safe_scale_body hok _ _ _ _ { enter s with self := s.obj o } rfl hfe
  intro ph' s' hcan _ _ hle
  simp only [hl]
  exact h ph' hcan hle

theorem den_ite_then (c : Loc → Bool) (t e : M) (s : Loc) (kx : PyErr → P) (kr k : Loc → P) (h : c s = true) :
    den (.ite c t e) s kx kr k = den t s kx kr k := by rw [den_ite, if_pos h]
theorem den_ite_else (c : Loc → Bool) (t e : M) (s : Loc) (kx : PyErr → P) (kr k : Loc → P) (h : c s = false) :
    den (.ite c t e) s kx kr k = den e s kx kr k := by rw [den_ite, h]; rfl

/-- the main path of `mul_add` -/
theorem safe_mul_add_tail {E : Env} (s : Loc) (hoa : ObjOK E s.self) (hob : ObjOK E s.other)
    (hfa : s.selfFresh = .shared) (hfb : s.otherFresh = .shared) {acc : Res Out → Prop}
    (hsum : ∀ r, pApBInf (E.info s.self) (E.cS s.self) (E.cS s.other) = true →
      accSum E s.self s.other (redMA (E.info s.self) s.ka) (redMA (E.info s.self) s.kb) r → acc r)
    (hloop : pApBInf (E.info s.self) (E.cS s.self) (E.cS s.other) = false →
      acc (.ok (.pt (mulAddLoop (E.info s.self) (E.cS s.self) (E.cS s.other) (redMA (E.info s.self) s.ka)
        (redMA (E.info s.self) s.kb)))))
    (ph : Phases Cell) (k : Loc → P) :
    SafeE E acc ph (den (mMulAddTail E.info) s (fun e => Prog.ret (.error e)) (fun t => Prog.ret (.ok t.out)) k) := by
  unfold mMulAddTail
  rw [den_seq, den_pure, bindRes_ok]
  refine safe_seq_scale (o := .self) (fun _ => rfl) rfl hoa ?_
  intro ph1 hcan1 _
  refine safe_seq_loadA ?_ ?_ ?_
  · exact hfa
  · intro h
    have h' : ph1 (s.self, Fld.coords) = Phase.any := h
    have c : ph1 (s.self, Fld.coords) = Phase.canon := hcan1
    rw [c] at h'; cases h'
  refine safe_seq_scale (o := .other) (fun _ => rfl) rfl hob ?_
  intro ph2 hcan2 _
  refine safe_seq_loadB ?_ ?_ ?_
  · exact hfb
  · intro h
    have h' : ph2 (s.other, Fld.coords) = Phase.any := h
    have c : ph2 (s.other, Fld.coords) = Phase.canon := hcan2
    rw [c] at h'; cases h'
  rw [den_seq]
  by_cases hp : pApBInf (E.info s.self) (E.cS s.self) (E.cS s.other) = true
  · rw [den_ite_then _ _ _ _ _ _ _ hp]
    refine safe_mulsum _ ?_ ?_ ?_ _ _
    · exact hoa
    · exact hob
    · intro r hr; exact hsum r hp hr
  · have hp' : pApBInf (E.info s.self) (E.cS s.self) (E.cS s.other) = false := by simpa using hp
    rw [den_ite_else _ _ _ _ _ _ _ hp', den_skip, den_seq, den_ite]
    simp only [den_ret, den_skip, bindRes_ok]
    exact safe_ret_pt _ (hloop hp')

theorem op_safe_mul_add (E : Env) (a b : Nat) (ka kb : Int) (hoa : ObjOK E a) (hob : ObjOK E b) (ph : Phases Cell) :
    SafeE E (accMulAdd E a b ka kb) ph (toProg (mMulAdd E.info) { self := a, other := b, ka := ka, kb := kb }) := by
  unfold toProg mMulAdd
  refine safe_den_call (accB := fun r => r = .ok (.bool (isInfC (E.c0 b))) ∨ r = .ok (.bool (isInfC (E.cS b)))) ?_ ?_
  · exact op_safe_eq_inf E b ph
  intro r0 ph0 hr0 _
  have hr0' : r0 = .ok (.bool (isInfC (E.c0 b))) := by
    rcases hr0 with h | h
    · exact h
    · rw [h, hob.inf_ri]
  subst hr0'
  simp only
  rw [den_seq_ite]
  simp only [isTrue]
  by_cases h1 : (isInfC (E.c0 b) || kb == 0) = true
  · simp only [h1, if_true]
    refine safe_den_call (accB := accMul E a ka) ?_ ?_
    · exact op_safe_mul E a ka hoa ph0
    intro r ph1 hr _
    cases r with
    | error e => exact Safe.ret (Or.inl ⟨h1, hr⟩)
    | ok o => simp only [den_ret, bindRes_ok]; exact Safe.ret (Or.inl ⟨h1, hr⟩)
  have h1' : (isInfC (E.c0 b) || kb == 0) = false := by simpa using h1
  simp only [h1', Bool.false_eq_true, if_false, den_skip]
  rw [den_seq_ite]
  by_cases h2 : (ka == 0) = true
  · simp only [h2, if_true]
    refine safe_den_call (accB := accMul E b kb) ?_ ?_
    · exact op_safe_mul E b kb hob ph0
    intro r ph1 hr _
    cases r with
    | error e => exact Safe.ret (Or.inr (Or.inl ⟨h1', h2, hr⟩))
    | ok o => simp only [den_ret, bindRes_ok]; exact Safe.ret (Or.inr (Or.inl ⟨h1', h2, hr⟩))
  have h2' : (ka == 0) = false := by simpa using h2
  simp only [h2', Bool.false_eq_true, if_false, den_skip]
  -- _maybe_precompute of self, then of other
  rw [den_seq, den_call]
  apply safe_maybe_precompute_body hoa _ _ _ _ _ rfl rfl
  intro ph1 s1 hga _ hle1
  rw [den_seq, den_call]
  apply safe_maybe_precompute_body hob _ _ _ _ _ rfl rfl
  intro ph2 s2 hgb _ hle2
  -- self.__precompute
  refine safe_seq_loadTA ?_ ?_ ?_
  · rfl
  · intro hany hne
    have hany' : ph2 (a, Fld.pre) = Phase.any := hany
    by_cases hg : (E.info a).generator = true
    · rw [hle2 _ (hga hg)] at hany'; cases hany'
    · exact absurd (hoa.table_nogen (by simpa using hg)) hne
  have tailCase : ∀ (ph3 : Phases Cell) (s3 : Loc), s3.self = a → s3.other = b → s3.ka = ka → s3.kb = kb →
      s3.selfFresh = .shared → s3.otherFresh = .shared →
      ((E.info a).generator && (E.info b).generator) = false →
      SafeE E (accMulAdd E a b ka kb) ph3 (den (mMulAddTail E.info) s3 (fun e => Prog.ret (.error e))
        (fun t => Prog.ret (.ok t.out)) (fun t => Prog.ret (.ok t.out))) := by
    intro ph3 s3 e1 e2 e3 e4 f1 f2 hgg
    subst e1 e2 e3 e4
    apply safe_mul_add_tail s3 hoa hob f1 f2
    · intro r hp hr
      exact Or.inr (Or.inr (Or.inr (Or.inl ⟨h1', h2', hgg, hp, hr⟩)))
    · intro hp
      exact Or.inr (Or.inr (Or.inr (Or.inr ⟨h1', h2', hgg, hp, rfl⟩)))
  rw [den_seq]
  by_cases hga' : (E.info a).generator = true
  · have hne : (E.tF a).isEmpty = false := (hoa.table_gen hga').2.2
    rw [den_ite_then _ _ _ _ _ _ _ (by simp [hne])]
    refine safe_loadTB ?_ ?_ ?_
    · rfl
    · intro hany hneb
      have hany' : (ph2.set (a, Fld.pre)) (b, Fld.pre) = Phase.any := hany
      by_cases hg : (E.info b).generator = true
      · rw [le_set _ _ _ (hgb hg)] at hany'; cases hany'
      · exact absurd (hob.table_nogen (by simpa using hg)) hneb
    rw [den_seq]
    by_cases hgb' : (E.info b).generator = true
    · have hneb : (E.tF b).isEmpty = false := (hob.table_gen hgb').2.2
      rw [den_ite_then _ _ _ _ _ _ _ (by simp [hne, hneb])]
      apply safe_mulsum _ hoa hob
      intro r hr
      exact Or.inr (Or.inr (Or.inl ⟨h1', h2', by simp [hga', hgb'], hr⟩))
    · have hb0 : E.tF b = [] := hob.table_nogen (by simpa using hgb')
      rw [den_ite_else _ _ _ _ _ _ _ (by simp [hb0]), den_skip]
      exact tailCase _ _ rfl rfl rfl rfl rfl rfl (by simp [hgb'])
  · have ha0 : E.tF a = [] := hoa.table_nogen (by simpa using hga')
    rw [den_ite_else _ _ _ _ _ _ _ (by simp [ha0]), den_skip, den_seq,
      den_ite_else _ _ _ _ _ _ _ (by simp [ha0]), den_skip]
    exact tailCase _ _ rfl rfl rfl rfl rfl rfl (by simp [hga'])

end ThreadProgs
