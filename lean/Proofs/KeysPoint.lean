import Proofs.KeysBytes
import Mathlib.Data.Int.ModEq
import Mathlib.Data.Nat.Prime.Int
import Mathlib.Tactic.Ring
import Mathlib.Tactic.LinearCombination
/-!
# Proofs.KeysPoint — case analysis of `VerifyingKey.from_string` / `from_public_point`
-/
namespace KeysP
open Keys

/-! ## the arithmetic side: curve equation, `alpha`, square roots -/

/-- the curve equation as the code tests it, for `p > 0` -/
theorem onCurve_iff (c : Curve) (hp : 0 < c.p) (x y : Int) :
    onCurve c x y = true ↔ (y * y - ((x * x + c.a) * x + c.b)) % (c.p : Int) = 0 := by
  unfold onCurve Gen.Keys.contains_point
  rw [decide_eq_true_iff, Int.fmod_eq_emod_of_nonneg _ (by exact_mod_cast Nat.le_of_lt hp)]

theorem alphaOf_eq (c : Curve) (hp : 0 < c.p) (x : Nat) :
    alphaOf c x = (((x : Int) ^ 3) % (c.p : Int) + c.a * x + c.b) % (c.p : Int) := by
  have h0 : (0 : Int) ≤ (c.p : Int) := by exact_mod_cast Nat.le_of_lt hp
  unfold alphaOf pmod
  rw [Int.fmod_eq_emod_of_nonneg _ h0, Int.fmod_eq_emod_of_nonneg _ h0]

theorem alphaOf_range (c : Curve) (hp : 0 < c.p) (x : Nat) : 0 ≤ alphaOf c x ∧ alphaOf c x < c.p := by
  have h0 : (0 : Int) < (c.p : Int) := by exact_mod_cast hp
  rw [alphaOf_eq c hp]
  exact ⟨Int.emod_nonneg _ (by omega), Int.emod_lt_of_pos _ h0⟩

theorem alphaOf_modEq (c : Curve) (hp : 0 < c.p) (x : Nat) :
    alphaOf c x ≡ (x : Int) * x * x + c.a * x + c.b [ZMOD (c.p : Int)] := by
  rw [alphaOf_eq c hp]
  refine (Int.mod_modEq _ _).trans ?_
  have : ((x : Int) ^ 3) % (c.p : Int) ≡ (x : Int) * x * x [ZMOD (c.p : Int)] := by
    have := Int.mod_modEq ((x : Int) ^ 3) (c.p : Int)
    rwa [show (x : Int) ^ 3 = (x : Int) * x * x by ring] at this ⊢
  exact (this.add_right _).add_right _

/-- on the curve ⇔ `y² ≡ alpha` -/
theorem onCurve_iff_alpha (c : Curve) (hp : 0 < c.p) (x : Nat) (y : Int) :
    onCurve c x y = true ↔ (y * y - alphaOf c x) % (c.p : Int) = 0 := by
  rw [onCurve_iff c hp]
  have ha := alphaOf_modEq c hp x
  constructor
  · intro h
    have h1 : (x : Int) * x * x + c.a * x + c.b ≡ y * y [ZMOD (c.p : Int)] := by
      rw [Int.modEq_iff_dvd]; apply Int.dvd_of_emod_eq_zero
      rw [← h]; congr 1; ring
    have := ha.trans h1
    rw [Int.modEq_iff_dvd] at this
    exact Int.emod_eq_zero_of_dvd this
  · intro h
    have h1 : alphaOf c x ≡ y * y [ZMOD (c.p : Int)] := by
      rw [Int.modEq_iff_dvd]; exact Int.dvd_of_emod_eq_zero h
    have := ha.symm.trans h1
    rw [Int.modEq_iff_dvd] at this
    have h2 := Int.emod_eq_zero_of_dvd this
    rw [← h2]; congr 1; ring

/-- two square roots of the same residue modulo a prime, both in `[0, p)`, are equal or add up to `p` -/
theorem roots_rel (p : Nat) (hp : p.Prime) (a y β : Int) (hy : 0 ≤ y ∧ y < p) (hβ : 0 ≤ β ∧ β < p)
    (h1 : (y * y - a) % (p : Int) = 0) (h2 : (β * β - a) % (p : Int) = 0) : y = β ∨ y = p - β := by
  have d1 := Int.dvd_of_emod_eq_zero h1
  have d2 := Int.dvd_of_emod_eq_zero h2
  have d : (p : Int) ∣ (y - β) * (y + β) := by
    have := Int.dvd_sub d1 d2
    rwa [show y * y - a - (β * β - a) = (y - β) * (y + β) by ring] at this
  have hpi : Prime (p : Int) := Nat.prime_iff_prime_int.mp hp
  rcases hpi.dvd_or_dvd d with h | h
  · left
    obtain ⟨k, hk⟩ := h
    have : k = 0 := by
      by_contra hk0
      rcases Int.lt_or_gt_of_ne hk0 with hneg | hpos
      · have : (p : Int) * k ≤ (p : Int) * (-1) := Int.mul_le_mul_of_nonneg_left (by omega) (by omega)
        omega
      · have : (p : Int) * 1 ≤ (p : Int) * k := Int.mul_le_mul_of_nonneg_left (by omega) (by omega)
        omega
    subst this; omega
  · obtain ⟨k, hk⟩ := h
    rcases Int.lt_trichotomy k 0 with hneg | h0 | hpos
    · have : (p : Int) * k ≤ (p : Int) * (-1) := Int.mul_le_mul_of_nonneg_left (by omega) (by omega)
      omega
    · subst h0; left; omega
    · rcases Int.lt_or_le k 2 with h1' | h2'
      · have : k = 1 := by omega
        subst this; right; omega
      · have : (p : Int) * 2 ≤ (p : Int) * k := Int.mul_le_mul_of_nonneg_left h2' (by omega)
        omega

/-- the contract of `numbertheory.square_root_mod_prime` the loaders rely on (C15's theorem) -/
structure SqrtSpec (sqrt : Int → Int → Res Int) (p : Nat) : Prop where
  ok : ∀ a β : Int, 0 ≤ a → a < p → sqrt a p = .ok β → 0 ≤ β ∧ β < p ∧ (β * β - a) % (p : Int) = 0
  err : ∀ (a : Int) (e : PyErr), 0 ≤ a → a < p → sqrt a p = .error e →
    e = .squareRoot ∧ ∀ y : Int, (y * y - a) % (p : Int) ≠ 0

/-! ## from_public_point -/

/-- the validity predicate `Public_key.__init__` implements (with the code's subgroup test as a parameter) -/
def ValidPoint (E : Ext) (c : Curve) (x y : Nat) : Prop :=
  x < c.p ∧ y < c.p ∧ onCurve c x y = true ∧ (c.h ≠ 1 → E.subgroupOk c x y = true)

theorem fromPublicPoint_ok_iff (E : Ext) (c : Curve) (hn : c.n ≠ 0) (x y : Int) (k : VK) :
    fromPublicPoint E c x y true = .ok k ↔
      0 ≤ x ∧ 0 ≤ y ∧ ValidPoint E c x.toNat y.toNat ∧ k = ⟨c, x.toNat, y.toNat⟩ := by
  unfold fromPublicPoint ValidPoint
  by_cases hx : 0 ≤ x ∧ x < c.p
  · by_cases hy : 0 ≤ y ∧ y < c.p
    · have hxn : (x.toNat : Int) = x := Int.toNat_of_nonneg hx.1
      have hyn : (y.toNat : Int) = y := Int.toNat_of_nonneg hy.1
      have e1 : ¬ (¬ (0 ≤ x ∧ x < c.p) ∨ ¬ (0 ≤ y ∧ y < c.p)) := by simp [hx, hy]
      rw [if_neg e1, hxn, hyn]
      by_cases hc : onCurve c x y = true
      · have e2 : ¬ ((true : Bool) = true ∧ ¬ onCurve c x y = true) := by simp [hc]
        rw [if_neg e2, if_neg hn]
        by_cases hs : c.h ≠ 1 ∧ ¬ E.subgroupOk c x.toNat y.toNat = true
        · have e3 : (true : Bool) = true ∧ c.h ≠ 1 ∧ ¬ E.subgroupOk c x.toNat y.toNat = true := ⟨rfl, hs⟩
          rw [if_pos e3]
          constructor
          · intro h; cases h
          · rintro ⟨_, _, ⟨_, _, _, h4⟩, _⟩; exact absurd (h4 hs.1) hs.2
        · have e3 : ¬ ((true : Bool) = true ∧ c.h ≠ 1 ∧ ¬ E.subgroupOk c x.toNat y.toNat = true) := fun h => hs h.2
          rw [if_neg e3]
          constructor
          · intro h
            have hk : k = ⟨c, x.toNat, y.toNat⟩ := by injection h with h; exact h.symm
            refine ⟨hx.1, hy.1, ⟨by omega, by omega, hc, ?_⟩, hk⟩
            intro hh; by_contra hne; exact hs ⟨hh, hne⟩
          · rintro ⟨_, _, _, hk⟩; rw [hk]
      · have e2 : (true : Bool) = true ∧ ¬ onCurve c x y = true := ⟨rfl, hc⟩
        rw [if_pos e2]
        constructor
        · intro h; cases h
        · rintro ⟨_, _, ⟨_, _, h3, _⟩, _⟩; exact absurd h3 hc
    · have e1 : ¬ (0 ≤ x ∧ x < c.p) ∨ ¬ (0 ≤ y ∧ y < c.p) := Or.inr hy
      rw [if_pos e1]
      constructor
      · intro h; cases h
      · rintro ⟨_, h2, ⟨_, h4, _⟩, _⟩; exact absurd ⟨h2, by omega⟩ hy
  · have e1 : ¬ (0 ≤ x ∧ x < c.p) ∨ ¬ (0 ≤ y ∧ y < c.p) := Or.inl hx
    rw [if_pos e1]
    constructor
    · intro h; cases h
    · rintro ⟨h1, _, ⟨h3, _⟩, _⟩; exact absurd ⟨h1, by omega⟩ hx

theorem fromPublicPoint_err (E : Ext) (c : Curve) (x y : Int) (v : Bool) (e : PyErr)
    (h : fromPublicPoint E c x y v = .error e) : e = .malformedPoint := by
  unfold fromPublicPoint at h
  split at h
  · injection h with h; exact h.symm
  · split at h
    · injection h with h; exact h.symm
    · split at h
      · injection h with h; exact h.symm
      · split at h
        · injection h with h; exact h.symm
        · cases h

end KeysP
