import Proofs.EcdsaInstRecover
import Mathlib.GroupTheory.SpecificGroups.Cyclic.Basic
/-!
# Proofs.EcdsaInstCard — the hypotheses `OnCurve.MatchesRec` from the domain-parameter facts of a cofactor-1 curve

For a curve description `c` (p, a, b, Gx, Gy, n, h, PointJacobi generator) the whole bundle needed by the ECDSA
theorems follows from: **p an odd prime, n an odd prime, #E(𝔽_p) = n** (SEC 2 / FIPS 186 / RFC 5639 facts — hypotheses,
DESIGN §4), plus facts that are *computed* on the extracted tables: G satisfies the curve equation with y ≠ 0, the
coordinates are reduced, Δ ≠ 0.  `n • G = 0` is then Lagrange's theorem, ⟨G⟩ is the whole group, and every pair accepted
by `contains_point` is a point of ⟨G⟩ (cofactor 1).
-/
namespace Ecdsa.OnCurve
open Curve Jac GroupInterface WeierstrassCurve

variable {p : ℕ} [hp : Fact p.Prime] {a b : ℤ}

theorem matchesRec_of_card (hp2 : p ≠ 2) (c : Affine.Crv) (cp : c.p = p) (ca : c.a = a) (cb : c.b = b) (cj : c.jac = true)
    (n : ℕ) (cn : c.n = n) (hnp : n.Prime) (hodd : n % 2 = 1)
    (hcard : Nat.card (Grp (a : ZMod p) (b : ZMod p)) = n)
    (hΔ : (shortW (a : ZMod p) (b : ZMod p)).toAffine.Δ ≠ 0)
    (hgx : 0 ≤ c.gx ∧ c.gx < p) (hgy : 0 ≤ c.gy ∧ c.gy < p)
    (he : ((c.gy : ℤ) : ZMod p) ^ 2 = (c.gx : ZMod p) ^ 3 + a * c.gx + b) (hy0 : ((c.gy : ℤ) : ZMod p) ≠ 0) :
    ∃ C : Ctx p a b, MatchesRec c C ∧ C.n = n := by
  have hns := nonsingular_of hp2 he hy0
  let g : Grp (a : ZMod p) (b : ZMod p) := Affine.Point.some _ _ hns
  have hg0 : g ≠ 0 := Affine.Point.some_ne_zero _
  let C : Ctx p a b := Ctx.ofCard g n hcard hodd
  haveI : Fact n.Prime := ⟨hnp⟩
  have htop : ∀ h : Grp (a : ZMod p) (b : ZMod p), h ∈ C.H := by
    intro h
    show h ∈ AddSubgroup.zmultiples g
    exact mem_zmultiples_of_prime_card hcard hg0
  have hcv : OnCurve p a b (crvOf c) := ⟨cp, ca, cb⟩
  have grep : PJRep p a b C.H ⟨crvOf c, c.gx, c.gy, 1, some c.n, true⟩ C.G := by
    have h0 := pjRep_of_affine hp2 (crvOf c) hcv c.gx c.gy hgx hgy he hy0 (some c.n) true
    obtain ⟨h1, h2, h3⟩ := h0
    exact ⟨h1, h2, ⟨C.G_mem, h3.2⟩⟩
  refine ⟨C, ⟨⟨hp2, cp, ca, cb, cn, by rw [cn]; simpa using hnp, cj, grep⟩, ?_⟩, rfl⟩
  intro x y hx0 hx1 hy0' hy1 hc
  -- on the curve ⇒ equation ⇒ (Δ ≠ 0) nonsingular ⇒ a point of the group = ⟨G⟩
  have heq : (shortW (a : ZMod p) (b : ZMod p)).toAffine.Equation (x : ZMod p) (y : ZMod p) := by
    rw [Affine.equation_iff]
    simp only [shortW, Jacobian.toAffine]
    have : Curve.containsPoint (crvOf c) x y = true := hc
    simp only [Curve.containsPoint, pmod, crvOf, cp, ca, cb, beq_iff_eq, fmod_eq_zero_iff] at this
    push_cast at this
    linear_combination this
  have hnsx := (Affine.equation_iff_nonsingular_of_Δ_ne_zero hΔ).mp heq
  exact ⟨hnsx, htop _⟩

end Ecdsa.OnCurve
