import Model.Keys
/-!
# Proofs.Asn1 — an abstract-syntax DER encoder written from X.690 / RFC 5480 / RFC 5915 / RFC 5958

This is the *specification* side of C09: a tree type for the handful of ASN.1 constructs the key formats use and
the canonical (DER) encoding of a tree, written directly from X.690 §8/§10 (definite minimal lengths, minimal
two's-complement INTEGER, base-128 OID arcs, BIT STRING with an unused-bits octet) — it shares no definition with
`Model/Der.lean`.  `SubjectPublicKeyInfo`, `ECPrivateKey`, `OneAsymmetricKey` are written as trees.
-/
namespace Asn1Spec

inductive Asn1
  | seq (items : List Asn1)          -- SEQUENCE
  | int (n : Nat)                    -- INTEGER (non-negative)
  | oid (arcs : List Nat)            -- OBJECT IDENTIFIER
  | bits (unused : Nat) (s : Bytes)  -- BIT STRING
  | octets (s : Bytes)               -- OCTET STRING
  | ctx (n : Nat) (inner : Asn1)     -- [n] EXPLICIT, constructed

/-- X.690 §8.1.3: short form below 128, else `0x80 + k` followed by the `k` minimal big-endian length octets -/
def lenOctets (n : Nat) : Bytes :=
  if n < 128 then [UInt8.ofNat n] else UInt8.ofNat (128 + (beMin n).length) :: beMin n

def tlv (tag : UInt8) (content : Bytes) : Bytes := tag :: (lenOctets content.length ++ content)

/-- X.690 §8.3: minimal two's complement of a non-negative integer -/
def intContent (n : Nat) : Bytes :=
  match beMin n with
  | [] => [0]
  | b :: t => if b.toNat ≥ 128 then 0 :: b :: t else b :: t

/-- base-128 digits of `n`, most significant first (`fuel` bounds the number of digits) -/
def base128 : Nat → Nat → List Nat
  | 0, n => [n % 128]
  | fuel + 1, n => if n < 128 then [n] else base128 fuel (n / 128) ++ [n % 128]

/-- X.690 §8.19: one sub-identifier: all digits but the last carry bit 8 -/
def arcOctets (n : Nat) : Bytes :=
  let ds := base128 n n
  (ds.dropLast.map fun d => UInt8.ofNat (128 + d)) ++ [UInt8.ofNat (ds.getLastD 0)]

/-- X.690 §8.19.4: the first two arcs are packed as `40 a + b` -/
def oidContent : List Nat → Bytes
  | a :: b :: rest => arcOctets (40 * a + b) ++ (rest.map arcOctets).flatten
  | _ => []

mutual
/-- the DER encoding of a tree -/
def Asn1.enc : Asn1 → Bytes
  | .seq items => tlv 0x30 (Asn1.encList items)
  | .int n => tlv 0x02 (intContent n)
  | .oid arcs => tlv 0x06 (oidContent arcs)
  | .bits unused s => tlv 0x03 (UInt8.ofNat unused :: s)
  | .octets s => tlv 0x04 s
  | .ctx n inner => tlv (UInt8.ofNat (0xA0 + n)) inner.enc
def Asn1.encList : List Asn1 → Bytes
  | [] => []
  | a :: rest => a.enc ++ Asn1.encList rest
end

/-- RFC 5480 §2.1.1: `id-ecPublicKey OBJECT IDENTIFIER ::= { iso(1) member-body(2) us(840) ansi-X9-62(10045) keyType(2) 1 }` -/
def id_ecPublicKey : List Nat := [1, 2, 840, 10045, 2, 1]

/-- RFC 5480 §2: `SubjectPublicKeyInfo ::= SEQUENCE { algorithm AlgorithmIdentifier, subjectPublicKey BIT STRING }`
with `AlgorithmIdentifier ::= SEQUENCE { id-ecPublicKey, namedCurve OBJECT IDENTIFIER }` -/
def spki (curveOid : List Nat) (point : Bytes) : Asn1 :=
  .seq [.seq [.oid id_ecPublicKey, .oid curveOid], .bits 0 point]

/-- RFC 5915 §3: `ECPrivateKey ::= SEQUENCE { version INTEGER { ecPrivkeyVer1(1) }, privateKey OCTET STRING,
parameters [0] ECParameters {{ NamedCurve }} OPTIONAL, publicKey [1] BIT STRING OPTIONAL }` (both optionals present) -/
def ecPrivateKey (d : Bytes) (curveOid : List Nat) (point : Bytes) : Asn1 :=
  .seq [.int 1, .octets d, .ctx 0 (.oid curveOid), .ctx 1 (.bits 0 point)]

/-- RFC 5915 §3 with the optional fields left open: `opts` is what follows `privateKey` (nothing, `[0] parameters`,
`[1] publicKey`, or both) -/
def ecPrivateKeyG (d : Bytes) (opts : List Asn1) : Asn1 := .seq (.int 1 :: .octets d :: opts)

/-- RFC 5958 §2 in general: `OneAsymmetricKey ::= SEQUENCE { version Version, privateKeyAlgorithm
PrivateKeyAlgorithmIdentifier, privateKey OCTET STRING, attributes [0] OPTIONAL, …, [[2: publicKey [1] OPTIONAL]], … }` with
`Version ::= INTEGER { v1(0), v2(1) }`; `tail` = the optional fields after `privateKey`, `opts` = the optional fields of
the embedded ECPrivateKey.  RFC 5958: "if publicKey is present, then version is set to v2 else version is set to v1";
an RFC-conforming writer without top-level publicKey (e.g. OpenSSL) therefore writes `version = 0`. -/
def oneAsymmetricKeyG (version : Nat) (d : Bytes) (curveOid : List Nat) (opts tail : List Asn1) : Asn1 :=
  .seq (.int version :: .seq [.oid id_ecPublicKey, .oid curveOid] :: .octets (ecPrivateKeyG d opts).enc :: tail)

/-- **what the library writes** for `format="pkcs8"`: `oneAsymmetricKeyG` with `version = 1` (v2), the embedded
ECPrivateKey carrying `[0] namedCurve` and `[1] publicKey`, and NO top-level optional field.  This is canonical DER of
the OneAsymmetricKey *syntax*, but it deviates from the version rule of RFC 5958 §2 (v2 is for files that carry the
top-level `publicKey [1]`; without it the version should be v1 = 0, which is what OpenSSL writes) — the comment in
keys.py ("version = 1 means the public key is not present in the top-level structure") has the rule backwards.  The
deviation is recorded here and reported to the coordinator; the loader accepts both versions
(`C09.loads_independent_encoding_pkcs8`). -/
def oneAsymmetricKey (d : Bytes) (curveOid : List Nat) (point : Bytes) : Asn1 :=
  .seq [.int 1, .seq [.oid id_ecPublicKey, .oid curveOid], .octets (ecPrivateKey d curveOid point).enc]

end Asn1Spec
