import Proofs.PointObjSim
/-!
# Proofs.PointObjOps — every covered operation of `Model/PointObj.lean` refines its abstract counterpart
-/
set_option linter.unusedSectionVars false
namespace PointObj
open Curve

variable {G : Type} [AddCommGroup G] [DecidableEq G]
variable {sp : ASpec G} {HS : PJ → List (Int × Int) → G → Prop} {HA : AffPt → G → Prop}

@[simp] theorem M.pure_bind {α β} (a : α) (f : α → M β) : M.bind (M.pure a) f = f a := rfl
@[simp] theorem AM.pure_bind {α β} (a : α) (f : α → AM G β) : AM.bind (AM.pure a) f = f a := rfl
@[simp] theorem M.lift_ok {α} (a : α) : M.lift (.ok a) = M.pure a := rfl
@[simp] theorem M.lift_error {α} (e : PyErr) : (M.lift (.error e) : M α) = M.raise e := rfl
@[simp] theorem M.raise_bind {α β} (e : PyErr) (f : α → M β) : M.bind (M.raise e) f = M.raise e := rfl
@[simp] theorem AM.raise_bind {α β} (e : PyErr) (f : α → AM G β) : AM.bind (AM.raise e) f = AM.raise e := rfl
@[simp] theorem M.pure_eq {α} (a : α) : (Pure.pure a : M α) = M.pure a := rfl
@[simp] theorem AM.pure_eq {α} (a : α) : (Pure.pure a : AM G α) = AM.pure a := rfl

/-! ### reads -/

theorem readX_sim (hyp : RepIndep sp HS HA) (r : Ref) : SimEq HS HA (readX r) (areadX sp r) := by
  unfold readX areadX
  refine Sim.bind (getPt_sim r) ?_
  intro a b hab
  cases hab with
  | inf => exact Sim.pure rfl
  | jac hs => simp only [(hyp.hs_xy hs).1, M.lift_ok, M.bind_eq, M.pure_bind]; exact Sim.pure rfl
  | aff ha => simp only [(hyp.ha_xy ha).1]; exact Sim.pure rfl

theorem readY_sim (hyp : RepIndep sp HS HA) (r : Ref) : SimEq HS HA (readY r) (areadY sp r) := by
  unfold readY areadY
  refine Sim.bind (getPt_sim r) ?_
  intro a b hab
  cases hab with
  | inf => exact Sim.pure rfl
  | jac hs => simp only [(hyp.hs_xy hs).2, M.lift_ok, M.bind_eq, M.pure_bind]; exact Sim.pure rfl
  | aff ha => simp only [(hyp.ha_xy ha).2]; exact Sim.pure rfl

theorem readOrder_sim (r : Ref) : SimEq HS HA (readOrder r) (areadOrder (G := G) r) := by
  unfold readOrder areadOrder
  refine Sim.bind (getPt_sim r) ?_
  intro a b hab
  cases hab with
  | inf => exact Sim.pure rfl
  | jac hs => exact Sim.pure rfl
  | aff ha => exact Sim.pure rfl

/-- after `getPt` failed to find a `PointJacobi`: `do let _ ← getPt r; raise e` -/
theorem getPt_raise_sim {α} (r : Ref) (e : PyErr) :
    SimEq HS HA (do let _ ← getPt r; M.raise e : M α) (do let _ ← agetPt r; AM.raise e : AM G α) := by
  refine Sim.bind (getPt_sim r) ?_
  intro a b _
  exact Sim.raise e

/-! ### `scale`, `to_affine`, `from_affine` -/

theorem scaleState_ok (hyp : RepIndep sp HS HA) {o : PJObj} {g : G} (hs : HS o.val o.table g) :
    ∃ S, scaleState o = .ok ({ o with val := S }, S) ∧ HS S o.table g ∧ S.z = 1 ∧ S.order = o.val.order ∧
      S.generator = o.val.generator := by
  obtain ⟨S, e, h1, h2, h3, h4⟩ := hyp.hs_scale hs
  exact ⟨S, by simp [scaleState, e, bind, Except.bind], h1, h2, h3, h4⟩

theorem scaleObj_sim (hyp : RepIndep sp HS HA) (r : Ref) : SimEq HS HA (scaleObj r) (ascaleObj (G := G) r) := by
  unfold scaleObj ascaleObj
  refine Sim.bind (getPJ_sim r) ?_
  intro a b hab
  cases r with
  | inf => cases a <;> cases b <;> first | exact getPt_raise_sim _ _ | exact absurd hab (by simp [RPJ])
  | obj i =>
    cases a with
    | none =>
      cases b with
      | none => exact getPt_raise_sim _ _
      | some b => exact absurd hab (by simp [RPJ])
    | some o =>
      cases b with
      | none => exact absurd hab (by simp [RPJ])
      | some b =>
        refine Sim.bind (R := fun _ _ => True) (updPJ_sim i ?_) (fun _ _ _ => Sim.pure rfl)
        intro o g hs
        obtain ⟨S, e, h1, _, h3, h4⟩ := scaleState_ok hyp hs
        simp only [e, StateSim]
        exact ⟨trivial, h1, h3, h4⟩

theorem toAffineObj_sim (hyp : RepIndep sp HS HA) (r : Ref) : SimEq HS HA (toAffineObj r) (atoAffineObj (G := G) r) := by
  unfold toAffineObj atoAffineObj
  refine Sim.bind (getPJ_sim r) ?_
  intro a b hab
  cases r with
  | inf => cases a <;> cases b <;> first | exact getPt_raise_sim _ _ | exact absurd hab (by simp [RPJ])
  | obj i =>
    cases a with
    | none =>
      cases b with
      | none => exact getPt_raise_sim _ _
      | some b => exact absurd hab (by simp [RPJ])
    | some o =>
      cases b with
      | none => exact absurd hab (by simp [RPJ])
      | some b =>
        -- result of the state transformer: the scaled value `S`, a hidden state of `g` with Z = 1
        refine Sim.bind (R := fun (a : Option PJ) (b : G × Option Int) =>
          ∃ S t, a = some S ∧ HS S t b.1 ∧ S.z = 1 ∧ S.order = b.2) (updPJ_sim i ?_) ?_
        · intro o g hs
          obtain ⟨S, e, h1, h2, h3, h4⟩ := scaleState_ok hyp hs
          have hnz := hyp.hs_nz hs
          simp only [toAffineState, hnz.1, hnz.2, Bool.or_self, Bool.false_eq_true, if_false, e, bind, Except.bind, StateSim]
          exact ⟨⟨S, o.table, rfl, h1, h2, h3⟩, h1, h3, h4⟩
        · rintro a ⟨g, ord⟩ ⟨S, t, rfl, hs, hz, ho⟩
          obtain ⟨A, e, ha, hao⟩ := hyp.hs_mkPoint hs hz
          simp only [e, M.lift_ok, M.bind_eq, M.pure_bind]
          have : Rel HS HA (.aff A) (.aff g ord) := by
            have := Rel.aff (HS := HS) (HA := HA) ha
            rwa [hao, ho] at this
          exact alloc_sim this

theorem fromAffineObj_sim (hyp : RepIndep sp HS HA) (r : Ref) (gen : Bool) :
    SimEq HS HA (fromAffineObj r gen) (afromAffineObj (G := G) r gen) := by
  unfold fromAffineObj afromAffineObj
  refine Sim.bind (getPt_sim r) ?_
  intro a b hab
  cases hab with
  | inf => exact Sim.raise _
  | @jac P t g hs =>
    simp only [(hyp.hs_xy hs).1, (hyp.hs_xy hs).2, M.lift_ok, M.bind_eq, M.pure_bind]
    exact alloc_sim (Rel.pj (o := ⟨⟨P.curve, sp.ax g, sp.ay g, 1, P.order, gen⟩, []⟩) (hyp.hs_fromXY gen hs))
  | @aff A g ha =>
    exact alloc_sim (Rel.pj (o := ⟨pjFromAffine A gen, []⟩) (hyp.ha_fromAffine gen ha))

/-! ### `-P`, `double`, `+`, `*`, `==` — the operand kinds covered by the refinement -/

/-- the operand at `r` is not a legacy `Point` (the abstract heap decides) -/
def NotAff (ah : AHeap G) (r : Ref) : Prop := ∀ g o, aptOf ah r ≠ some (.aff g o)

/-- simulation from related heaps whose abstract side satisfies a precondition -/
def SimOn {α β : Type} (pre : AHeap G → Prop) (R : α → β → Prop) (m : M α) (am : AM G β) : Prop :=
  ∀ h ah, Inv HS HA h ah → pre ah → Outcome HS HA R (m h) (am ah)

theorem Sim.on {α β} {R : α → β → Prop} {m : M α} {am : AM G β} (h : Sim (HS := HS) (HA := HA) R m am)
    (pre : AHeap G → Prop) : SimOn (HS := HS) (HA := HA) pre R m am := fun hh ah hi _ => h hh ah hi

theorem ptOf_rel {h : Heap} {ah : AHeap G} (hi : Inv HS HA h ah) (r : Ref) :
    (ptOf h r = none ∧ aptOf ah r = none) ∨
      ∃ v b, ptOf h r = some v ∧ aptOf ah r = some b ∧ RVal (HS := HS) (HA := HA) v b := by
  have := getPt_sim (HS := HS) (HA := HA) r h ah hi
  unfold getPt agetPt at this
  cases hp : ptOf h r with
  | none =>
    cases hq : aptOf ah r with
    | none => left; exact ⟨rfl, rfl⟩
    | some b => simp [hp, hq, Outcome] at this
  | some v =>
    cases hq : aptOf ah r with
    | none => simp [hp, hq, Outcome] at this
    | some b => simp only [hp, hq, Outcome] at this; right; exact ⟨v, b, rfl, rfl, this.1⟩

theorem getPt_bind_run {α} (h : Heap) (r : Ref) (f : Pt → M α) :
    M.bind (getPt r) f h = match ptOf h r with
      | some v => f v h
      | none => (.error .other, h) := by
  unfold M.bind getPt
  cases ptOf h r <;> rfl

theorem agetPt_bind_run {α} (ah : AHeap G) (r : Ref) (f : AVal G → AM G α) :
    AM.bind (agetPt r) f ah = match aptOf ah r with
      | some v => f v ah
      | none => (.error .other, ah) := by
  unfold AM.bind agetPt
  cases aptOf ah r <;> rfl

/-- `P` read from the heap is never an identity representation -/
theorem pjEq_inf_false (hyp : RepIndep sp HS HA) {P : PJ} {t : List (Int × Int)} {g : G} (hs : HS P t g) :
    pjEq P .infinity = false ∧ pjEqInf P = false := by
  have := hyp.hs_nz hs
  simp [pjEq, pjEqInf, this.1, this.2]

theorem negObj_sim (hyp : RepIndep sp HS HA) (r : Ref) :
    SimOn (HS := HS) (HA := HA) (fun ah => NotAff ah r) (fun a b => a = b) (negObj r) (anegObj (G := G) r) := by
  intro h ah hi hpre
  unfold negObj anegObj
  simp only [M.bind_eq, AM.bind_eq, getPt_bind_run, agetPt_bind_run]
  rcases ptOf_rel hi r with ⟨h1, h2⟩ | ⟨v, b, h1, h2, hv⟩
  · simp only [h1, h2]; sim_same hi
  · simp only [h1, h2]
    cases hv with
    | inf => exact Sim.pure (HS := HS) (HA := HA) (R := fun (a b : Ref) => a = b) rfl h ah hi
    | @jac P t g hs =>
      exact alloc_sim (Rel.pj (o := ⟨pjNeg P, []⟩) (hyp.hs_neg hs)) h ah hi
    | aff ha => exact absurd h2 (hpre _ _)

theorem doubleObj_sim (hyp : RepIndep sp HS HA) (r : Ref) :
    SimOn (HS := HS) (HA := HA) (fun ah => NotAff ah r) (fun a b => a = b) (doubleObj r) (adoubleObj (G := G) r) := by
  intro h ah hi hpre
  unfold doubleObj adoubleObj
  simp only [M.bind_eq, AM.bind_eq, getPt_bind_run, agetPt_bind_run]
  rcases ptOf_rel hi r with ⟨h1, h2⟩ | ⟨v, b, h1, h2, hv⟩
  · simp only [h1, h2]; sim_same hi
  · simp only [h1, h2]
    cases hv with
    | inf => exact Sim.pure (HS := HS) (HA := HA) (R := fun (a b : Ref) => a = b) rfl h ah hi
    | @jac P t g hs => exact allocPt_sim (hyp.hs_double hs) h ah hi
    | aff ha => exact absurd h2 (hpre _ _)

theorem pjAddObj_sim (hyp : RepIndep sp HS HA) (r s : Ref) {P : PJ} {t : List (Int × Int)} {g : G} (hs : HS P t g) :
    SimEq HS HA (pjAddObj r P s) (apjAddObj r g P.order s) := by
  unfold pjAddObj apjAddObj
  simp only [(pjEq_inf_false hyp hs).1, Bool.false_eq_true, if_false]
  refine Sim.bind (getPt_sim s) ?_
  intro a b hab
  cases hab with
  | inf => exact Sim.pure rfl
  | @jac Q t' h hsQ =>
    obtain ⟨v, e, hv⟩ := hyp.hs_add hs hsQ
    simp only [(pjEq_inf_false hyp hsQ).2, Bool.false_eq_true, if_false, e, M.lift_ok, M.bind_eq, M.pure_bind]
    exact allocPt_sim hv
  | @aff A h ha =>
    obtain ⟨v, e, hv⟩ := hyp.hs_add hs (hyp.ha_fromAffine false ha)
    simp only [e, M.lift_ok, M.bind_eq, M.pure_bind]
    exact allocPt_sim hv

/-- not both operands are legacy points -/
def NotBothAff (ah : AHeap G) (r s : Ref) : Prop :=
  ¬ ((∃ g o, aptOf ah r = some (.aff g o)) ∧ (∃ g o, aptOf ah s = some (.aff g o)))

theorem addObj_sim (hyp : RepIndep sp HS HA) (r s : Ref) :
    SimOn (HS := HS) (HA := HA) (fun ah => NotBothAff ah r s) (fun a b => a = b) (addObj r s) (aaddObj (G := G) r s) := by
  intro h ah hi hpre
  unfold addObj aaddObj
  simp only [M.bind_eq, AM.bind_eq, getPt_bind_run, agetPt_bind_run]
  rcases ptOf_rel hi r with ⟨h1, h2⟩ | ⟨v, b, h1, h2, hv⟩
  · simp only [h1, h2]; sim_same hi
  · simp only [h1, h2]
    rcases ptOf_rel hi s with ⟨k1, k2⟩ | ⟨w, c, k1, k2, hw⟩
    · simp only [k1, k2]; sim_same hi
    · simp only [k1, k2]
      cases hv with
      | @jac P t g hs => exact pjAddObj_sim hyp r s hs h ah hi
      | inf =>
        cases hw with
        | inf => exact Sim.pure (HS := HS) (HA := HA) (R := fun (a b : Ref) => a = b) rfl h ah hi
        | aff ha => exact Sim.pure (HS := HS) (HA := HA) (R := fun (a b : Ref) => a = b) rfl h ah hi
        | @jac Q t' g' hsQ => exact pjAddObj_sim hyp s r hsQ h ah hi
      | @aff A g ha =>
        cases hw with
        | inf => exact Sim.pure (HS := HS) (HA := HA) (R := fun (a b : Ref) => a = b) rfl h ah hi
        | aff hb => exact absurd ⟨⟨_, _, h2⟩, ⟨_, _, k2⟩⟩ hpre
        | @jac Q t' g' hsQ => exact pjAddObj_sim hyp s r hsQ h ah hi

/-! ### `*` -/

/-- concrete vs abstract result of `__mul__` on the state -/
def RMul : MulRes → AMulRes G → Prop
  | .inf, .inf => True
  | .self, .self => True
  | .fresh v, .fresh g o => RFresh HS v g o
  | _, _ => False

theorem genOK_iff (P : PJ) : genOK P.order P.generator = true ↔ GenOK P := by
  unfold genOK GenOK
  cases hg : P.generator <;> cases ho : truthy P.order <;> simp

theorem maybePrecompute_noorder {P : PJ} (hg : P.generator = true) (ho : truthy P.order = none) :
    maybePrecompute P [] = .error .assertionError := by
  simp [maybePrecompute, hg, precomputeTable, ho]

theorem pjMulWith_noorder {P : PJ} {k : Int} (hy : (P.y == 0) = false) (hk0 : k ≠ 0) (hk1 : k ≠ 1)
    (hg : P.generator = true) (ho : truthy P.order = none) : pjMulWith [] P k = .error .assertionError := by
  have h0 : (k == 0) = false := by simpa using hk0
  have h1 : (k == 1) = false := by simpa using hk1
  simp [pjMulWith, hy, h0, h1, maybePrecompute_noorder hg ho, bind, Except.bind]

theorem mulState_sim (hyp : RepIndep sp HS HA) (k : Int) (o : PJObj) (g : G) (hs : HS o.val o.table g) :
    StateSim HS (RMul (HS := HS)) o g (mulState k o) (amulState k g o.val.order o.val.generator) := by
  have hy := (hyp.hs_nz hs).1
  unfold mulState amulState
  by_cases hk0 : k = 0
  · simp [hk0, RMul, hs, StateSim]
  by_cases hk1 : k = 1
  · simp [hk1, hy, RMul, hs, StateSim]
  have h0 : (k == 0) = false := by simpa using hk0
  have h1 : (k == 1) = false := by simpa using hk1
  simp only [hy, h0, h1, Bool.or_self, Bool.false_eq_true, if_false]
  by_cases hgo : GenOK o.val
  · have hb : genOK o.val.order o.val.generator = true := (genOK_iff o.val).2 hgo
    obtain ⟨v, ev, hv⟩ := hyp.hs_mul k hs hgo hk0 hk1
    obtain ⟨t', et, hst, hemp⟩ := hyp.hs_precompute hs hgo
    simp only [hb, Bool.not_true, Bool.false_eq_true, if_false, ev, precomputeState, et, bind, Except.bind]
    by_cases he : t'.isEmpty = true
    · obtain ⟨S, es, h1', _, h3, h4⟩ := scaleState_ok hyp (o := { o with table := t' }) hst
      simp only [he, if_true, es, StateSim]
      exact ⟨hv, h1', h3, h4⟩
    · simp only [he, Bool.false_eq_true, if_false, StateSim]
      exact ⟨hv, hst, trivial, trivial⟩
  · have hb : genOK o.val.order o.val.generator = false := by
      rcases hc : genOK o.val.order o.val.generator with _ | _
      · rfl
      · exact absurd ((genOK_iff o.val).1 hc) hgo
    have hgen : o.val.generator = true ∧ truthy o.val.order = none := by
      unfold GenOK at hgo
      by_cases hg : o.val.generator = true
      · refine ⟨hg, ?_⟩
        cases ho : truthy o.val.order with
        | none => rfl
        | some n => exact absurd (fun _ => ⟨n, ho⟩) hgo
      · exact absurd (fun h => absurd h hg) hgo
    have ht : o.table = [] := by
      by_contra hne
      exact hgo (hyp.hs_table hs hne).2
    simp only [hb, Bool.not_false, if_true, ht, pjMulWith_noorder hy hk0 hk1 hgen.1 hgen.2, bind, Except.bind, StateSim]

theorem mulObj_sim (hyp : RepIndep sp HS HA) (r : Ref) (k : Int) :
    SimOn (HS := HS) (HA := HA) (fun ah => NotAff ah r) (fun a b => a = b) (mulObj r k) (amulObj (G := G) r k) := by
  intro h ah hi hpre
  unfold mulObj amulObj
  simp only [M.bind_eq, AM.bind_eq, getPt_bind_run, agetPt_bind_run]
  rcases ptOf_rel hi r with ⟨h1, h2⟩ | ⟨v, b, h1, h2, hv⟩
  · simp only [h1, h2]; sim_same hi
  · simp only [h1, h2]
    cases hv with
    | inf => cases r <;> exact Sim.pure (HS := HS) (HA := HA) (R := fun (a b : Ref) => a = b) rfl h ah hi
    | aff ha => exact absurd h2 (hpre _ _)
    | @jac P t g hs =>
      cases r with
      | inf => exact Sim.raise (HS := HS) (HA := HA) (α := Ref) (β := Ref) (R := fun a b => a = b) _ h ah hi
      | obj i =>
        refine Sim.bind (R := RMul (HS := HS)) (updPJ_sim i (fun o g hs => mulState_sim hyp k o g hs)) ?_ h ah hi
        intro a b hab
        cases a <;> cases b <;> simp only [RMul] at hab
        · exact Sim.pure rfl
        · exact Sim.pure rfl
        · exact allocPt_sim hab

/-! ### `==` -/

theorem getHeap_bind_run {α} (h : Heap) (f : Heap → M α) : M.bind M.getHeap f h = f h h := rfl
theorem agetHeap_bind_run {α} (ah : AHeap G) (f : AHeap G → AM G α) : AM.bind AM.getHeap f ah = f ah ah := rfl

theorem isInfCopy_rel {h : Heap} {ah : AHeap G} (hi : Inv HS HA h ah) (r : Ref) :
    isInfCopy h r = aisInfCopy ah r := by
  cases r with
  | inf => rfl
  | obj i =>
    unfold isInfCopy aisInfCopy
    rcases hi.get i with ⟨h1, h2⟩ | ⟨o, a, h1, h2, hr⟩
    · simp only [h1, h2]
    · simp only [h1, h2]
      cases hr <;> rfl

theorem eqObj_sim (hyp : RepIndep sp HS HA) (r s : Ref) : SimEq HS HA (eqObj r s) (aeqObj (G := G) r s) := by
  intro h ah hi
  unfold eqObj aeqObj
  simp only [M.bind_eq, AM.bind_eq, getPt_bind_run, agetPt_bind_run, getHeap_bind_run, agetHeap_bind_run]
  rcases ptOf_rel hi r with ⟨h1, h2⟩ | ⟨v, b, h1, h2, hv⟩
  · simp only [h1, h2]; sim_same hi
  · simp only [h1, h2]
    rcases ptOf_rel hi s with ⟨k1, k2⟩ | ⟨w, c, k1, k2, hw⟩
    · simp only [k1, k2]; sim_same hi
    · simp only [k1, k2, isInfCopy_rel hi]
      have fin : ∀ (x y : Bool), x = y →
          Outcome HS HA (fun a b => a = b) ((M.pure x : M Bool) h) ((AM.pure y : AM G Bool) ah) := fun x y e => ⟨e, hi⟩
      cases hv with
      | inf =>
        cases hw with
        | inf => exact fin _ _ (by simp [ptEq])
        | @jac Q t' g' hsQ =>
          by_cases hc : aisInfCopy ah r = true
          · simp only [hc, if_true]; exact fin _ _ rfl
          · simp only [hc, Bool.false_eq_true, if_false]
            refine fin _ _ ?_
            have := hyp.hs_ne hsQ
            simp [ptEq, (pjEq_inf_false hyp hsQ).1, Ne.symm this]
        | @aff A g' ha =>
          refine fin _ _ ?_
          have := hyp.ha_ne ha
          simp [ptEq, Ne.symm this]
      | @jac P t g hs =>
        cases hw with
        | inf =>
          by_cases hc : aisInfCopy ah s = true
          · simp only [hc, if_true]; exact fin _ _ rfl
          · simp only [hc, Bool.false_eq_true, if_false]
            refine fin _ _ ?_
            have := hyp.hs_ne hs
            simp [ptEq, (pjEq_inf_false hyp hs).1, this]
        | @jac Q t' g' hsQ => exact fin _ _ (hyp.eq_jj hs hsQ)
        | @aff A g' ha => exact fin _ _ (hyp.eq_ja hs ha).1
      | @aff A g ha =>
        cases hw with
        | inf =>
          refine fin _ _ ?_
          have := hyp.ha_ne ha
          simp [ptEq, affEq, this]
        | @jac Q t' g' hsQ => exact fin _ _ (hyp.eq_ja hsQ ha).2
        | @aff B g' hb => exact fin _ _ (hyp.eq_aa ha hb)

end PointObj
