import Proofs.DerInt
/-!
# Proofs.DerEnc — the faithful (`Res`-valued) encoders `encodeXPy` against the total encoders `encodeX`:
whatever the Python encoder returns is `encodeX v`, and on the stated domain it does return.
-/
set_option linter.unusedSimpArgs false
namespace Der

/-! ### INTEGER -/

theorem idx_hexBytes (n : Nat) : ∃ num t, hexBytes n = num :: t ∧ idx (hexBytes n) 0 = .ok num := by
  have := hexBytes_ne_nil n
  match hm : hexBytes n, this with
  | b :: t, _ => exact ⟨b, t, rfl, rfl⟩

theorem encodeIntegerPy_ok {r : Int} {e : Bytes} (h : encodeIntegerPy r = .ok e) :
    0 ≤ r ∧ e = encodeInteger r.toNat := by
  unfold encodeIntegerPy at h
  split at h
  · cases h
  · rename_i hr
    refine ⟨by omega, ?_⟩
    obtain ⟨num, t, hm, hi⟩ := idx_hexBytes r.toNat
    simp only [bind, Except.bind, hi] at h
    unfold encodeInteger intBody
    rw [hm] at h ⊢
    simp only
    split at h
    · rename_i hn
      rw [if_pos hn]
      split at h
      · cases h
      · rename_i l hl
        rw [encodeLengthPy_ok hl] at h
        simp only [Except.ok.injEq] at h
        rw [← h]
    · rename_i hn
      rw [if_neg hn]
      split at h
      · cases h
      · rename_i l hl
        rw [encodeLengthPy_ok hl] at h
        simp only [Except.ok.injEq] at h
        rw [← h]; simp

theorem encodeIntegerPy_eq (r : Nat) (hd : (intBody r).length < 256 ^ 127) :
    encodeIntegerPy (r : Int) = .ok (encodeInteger r) := by
  unfold encodeIntegerPy
  rw [if_neg (by omega)]
  simp only [Int.toNat_natCast]
  obtain ⟨num, t, hm, hi⟩ := idx_hexBytes r
  simp only [bind, Except.bind, hi]
  unfold encodeInteger
  unfold intBody at hd ⊢
  rw [hm] at hd ⊢
  simp only at hd ⊢
  split
  · rename_i hn
    rw [if_pos hn] at hd
    rw [encodeLengthPy_eq _ hd]
  · rename_i hn
    rw [if_neg hn] at hd
    have hd' : (num :: t).length + 1 < 256 ^ 127 := hd
    rw [encodeLengthPy_eq _ hd']
    simp only [List.length_cons, List.append_assoc, List.cons_append, List.nil_append]

/-- `encode_integer` fails with `AssertionError` exactly on negative input (and with `struct.error` only
for content octets longer than `256^127` bytes) -/
theorem encodeIntegerPy_err {r : Int} {e : PyErr} (h : encodeIntegerPy r = .error e) :
    (r < 0 ∧ e = .assertionError) ∨ (0 ≤ r ∧ e = .other ∧ 256 ^ 127 ≤ (intBody r.toNat).length) := by
  by_cases hr : r < 0
  · left; unfold encodeIntegerPy at h; rw [if_pos (by omega)] at h; cases h; exact ⟨hr, rfl⟩
  · right
    refine ⟨by omega, ?_⟩
    have hcast : ((r.toNat : Nat) : Int) = r := by omega
    by_cases hd : (intBody r.toNat).length < 256 ^ 127
    · have := encodeIntegerPy_eq r.toNat hd
      rw [hcast] at this; rw [this] at h; cases h
    · refine ⟨?_, by omega⟩
      unfold encodeIntegerPy at h
      rw [if_neg (by omega)] at h
      obtain ⟨num, t, hm, hi⟩ := idx_hexBytes r.toNat
      simp only [bind, Except.bind, hi] at h
      split at h
      · split at h
        · rename_i e' he; cases h; exact (encodeLengthPy_err he).1
        · cases h
      · split at h
        · rename_i e' he; cases h; exact (encodeLengthPy_err he).1
        · cases h

/-! ### OCTET STRING, SEQUENCE, constructed -/

theorem encodeOctetStringPy_ok {s e : Bytes} (h : encodeOctetStringPy s = .ok e) : e = encodeOctetString s := by
  unfold encodeOctetStringPy at h
  simp only [bind, Except.bind] at h
  split at h
  · cases h
  · rename_i l hl
    rw [encodeLengthPy_ok hl] at h
    simp only [Except.ok.injEq] at h
    rw [← h]; rfl

theorem encodeOctetStringPy_eq (s : Bytes) (hd : s.length < 256 ^ 127) :
    encodeOctetStringPy s = .ok (encodeOctetString s) := by
  unfold encodeOctetStringPy
  rw [encodeLengthPy_eq _ hd]; rfl

theorem sum_length_flatten (pieces : List Bytes) : (pieces.map List.length).sum = pieces.flatten.length := by
  exact (List.length_flatten ..).symm

theorem encodeSequencePy_ok {pieces : List Bytes} {e : Bytes} (h : encodeSequencePy pieces = .ok e) :
    e = encodeSequence pieces := by
  unfold encodeSequencePy at h
  simp only [bind, Except.bind, sum_length_flatten] at h
  split at h
  · cases h
  · rename_i l hl
    rw [encodeLengthPy_ok hl] at h
    simp only [Except.ok.injEq] at h
    rw [← h]; rfl

theorem encodeSequencePy_eq (pieces : List Bytes) (hd : pieces.flatten.length < 256 ^ 127) :
    encodeSequencePy pieces = .ok (encodeSequence pieces) := by
  unfold encodeSequencePy
  simp only [sum_length_flatten]
  rw [encodeLengthPy_eq _ hd]; rfl

theorem encodeConstructedPy_ok {tag : Int} {v e : Bytes} (h : encodeConstructedPy tag v = .ok e) :
    -160 ≤ tag ∧ tag ≤ 95 ∧ e = [UInt8.ofNat (0xA0 + tag).toNat] ++ encodeLength v.length ++ v := by
  unfold encodeConstructedPy at h
  simp only [bind, Except.bind] at h
  split at h
  · cases h
  · rename_i t ht
    obtain ⟨h1, h2, rfl⟩ := int2byte_ok ht
    split at h
    · cases h
    · rename_i l hl
      rw [encodeLengthPy_ok hl] at h
      simp only [Except.ok.injEq] at h
      refine ⟨by omega, by omega, ?_⟩
      rw [← h]

theorem encodeConstructedPy_eq (tag : Nat) (v : Bytes) (ht : tag ≤ 95) (hd : v.length < 256 ^ 127) :
    encodeConstructedPy (tag : Int) v = .ok (encodeConstructed tag v) := by
  unfold encodeConstructedPy
  have : (0xA0 : Int) + (tag : Int) = ((0xA0 + tag : Nat) : Int) := by omega
  rw [this, int2byte_nat _ (by omega), encodeLengthPy_eq _ hd]; rfl

end Der
