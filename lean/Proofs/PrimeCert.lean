import Model.NumberTheory
import Proofs.NTPow
import Proofs.NTTable
import Mathlib.FieldTheory.Finite.Basic
import Mathlib.GroupTheory.OrderOfElement
/-!
# Proofs.PrimeCert — Pocklington / Pratt primality certificates checked by the kernel

An entry certifies `N` from a partial factorisation `N − 1 = F·R`: for each listed prime power `q^e ∣ N − 1` a witness `a`
with `a^(N−1) ≡ 1` and `gcd(a^((N−1)/q) − 1, N) = 1`; `F = lcm {q^e}` and `N < (F + 1)²`.  (Pocklington's theorem; with
`F = N − 1` this is a Pratt / Lucas certificate.)  Every `q` must be a prime ≤ 1229 of the generated `smallprimes` table
(proved exact in `Proofs/NTTable.lean`) or the subject of an EARLIER entry of the chain.  `checkChain` is evaluated by
`decide +kernel`; modular powers use the model `NT.powMod` (proved equal to `b ^ e % m`).
-/
namespace PrimeCert
open NT NTProofs

structure Step where
  q : Nat
  e : Nat
  a : Nat
deriving DecidableEq, Repr

structure Entry where
  N : Nat
  steps : List Step
deriving DecidableEq, Repr

def stepOK (known : List Nat) (N : Nat) (s : Step) : Bool :=
  (known.contains s.q || Gen.NT.smallprimesN.contains s.q) && decide (1 ≤ s.e) &&
  (N - 1) % (s.q ^ s.e) == 0 &&
  powMod s.a (N - 1) N == 1 &&
  Int.gcd (powMod s.a ((N - 1) / s.q) N - 1) N == 1

def factored (steps : List Step) : Nat := (steps.map fun s => s.q ^ s.e).foldr Nat.lcm 1

def entryOK (known : List Nat) (E : Entry) : Bool :=
  decide (2 ≤ E.N) && E.steps.all (stepOK known E.N) &&
  decide (E.N < (factored E.steps + 1) * (factored E.steps + 1))

/-- the head entry may use the subjects of the entries after it -/
def checkChain : List Entry → Bool
  | [] => true
  | E :: rest => checkChain rest && entryOK (rest.map Entry.N) E

/-! ### soundness -/

/-- Pocklington's criterion for one prime power: a prime divisor `r` of `N` is ≡ 1 modulo `q^e` -/
theorem step_dvd {N q e a : ℕ} (hq : q.Prime) (he : 1 ≤ e) (hN : 2 ≤ N) (hdiv : q ^ e ∣ N - 1)
    (h1 : powMod a (N - 1) N = 1) (h2 : Int.gcd (powMod a ((N - 1) / q) N - 1) N = 1)
    {r : ℕ} (hr : r.Prime) (hrN : r ∣ N) : q ^ e ∣ r - 1 := by
  haveI := Fact.mk hr
  haveI := Fact.mk hq
  have hNpos : (0 : ℤ) < N := by omega
  have hrN' : ((r : ℤ)) ∣ (N : ℤ) := Int.natCast_dvd_natCast.mpr hrN
  -- reduce the model's pow to ZMod r
  have cast_pow : ∀ k : ℕ, ((powMod a k N : ℤ) : ZMod r) = (a : ZMod r) ^ k := by
    intro k
    rw [powMod_eq _ _ _ hNpos]
    have : ((((a : ℤ) ^ k % (N : ℤ) : ℤ)) : ZMod r) = (((a : ℤ) ^ k : ℤ) : ZMod r) := by
      rw [ZMod.intCast_eq_intCast_iff_dvd_sub]
      exact Dvd.dvd.trans hrN' ⟨(a : ℤ) ^ k / N, by have := Int.emod_add_mul_ediv ((a : ℤ) ^ k) N; linarith⟩
    rw [this]; push_cast; rfl
  set x : ZMod r := (a : ZMod r) with hx
  have hx1 : x ^ (N - 1) = 1 := by
    have := cast_pow (N - 1); rw [h1] at this; simpa using this.symm
  have hx2 : x ^ ((N - 1) / q) ≠ 1 := by
    intro h
    have hc := cast_pow ((N - 1) / q)
    rw [h] at hc
    have : (((powMod a ((N - 1) / q) N - 1 : ℤ)) : ZMod r) = 0 := by push_cast; rw [hc]; ring
    rw [ZMod.intCast_zmod_eq_zero_iff_dvd] at this
    have hg : (r : ℤ) ∣ ((Int.gcd (powMod a ((N - 1) / q) N - 1) N : ℕ) : ℤ) := Int.dvd_coe_gcd this hrN'
    rw [h2] at hg
    have := Int.le_of_dvd (by decide) hg
    have := hr.two_le
    omega
  obtain ⟨m, hm⟩ := hdiv
  obtain ⟨e', rfl⟩ : ∃ e', e = e' + 1 := ⟨e - 1, by omega⟩
  set y : ZMod r := x ^ m with hy
  have hy1 : y ^ q ^ (e' + 1) = 1 := by
    rw [hy, ← pow_mul, mul_comm, ← hm]; exact hx1
  have hy2 : ¬ y ^ q ^ e' = 1 := by
    rw [hy, ← pow_mul]
    have : (N - 1) / q = m * q ^ e' := by
      rw [hm, pow_succ, mul_comm (q ^ e') q, mul_assoc, Nat.mul_div_cancel_left _ hq.pos, mul_comm]
    rw [← this]; exact hx2
  have hord := orderOf_eq_prime_pow hy2 hy1
  have hy0 : y ≠ 0 := by
    intro h0; rw [h0, zero_pow (pow_ne_zero _ hq.ne_zero)] at hy1; exact zero_ne_one hy1
  rw [← hord]
  exact ZMod.orderOf_dvd_card_sub_one hy0

theorem entry_prime {known : List ℕ} (hk : ∀ q ∈ known, q.Prime) {E : Entry} (h : entryOK known E = true) : E.N.Prime := by
  simp only [entryOK, Bool.and_eq_true, decide_eq_true_eq, List.all_eq_true] at h
  obtain ⟨⟨hN, hsteps⟩, hF⟩ := h
  by_contra hnp
  have hr := Nat.minFac_prime (show E.N ≠ 1 by omega)
  have hrN := Nat.minFac_dvd E.N
  have hsq := Nat.minFac_sq_le_self (by omega) hnp
  -- every listed prime power divides r - 1
  have hall : ∀ s ∈ E.steps, s.q ^ s.e ∣ E.N.minFac - 1 := by
    intro s hs
    have := hsteps s hs
    simp only [stepOK, Bool.and_eq_true, Bool.or_eq_true, List.contains_iff_mem, decide_eq_true_eq, beq_iff_eq] at this
    obtain ⟨⟨⟨⟨hq, he⟩, hd⟩, h1⟩, h2⟩ := this
    have hqp : s.q.Prime := by
      rcases hq with hq | hq
      · exact hk _ hq
      · exact ((mem_smallprimesN s.q).mp hq).1
    exact step_dvd hqp he hN (Nat.dvd_of_mod_eq_zero hd) h1 (by exact_mod_cast h2) hr hrN
  have hFd : factored E.steps ∣ E.N.minFac - 1 := by
    unfold factored
    generalize E.steps = l at hall
    induction l with
    | nil => simp
    | cons s t ih =>
      simp only [List.map_cons, List.foldr_cons]
      exact Nat.lcm_dvd (hall s (by simp)) (ih fun s' hs' => hall s' (by simp [hs']))
  have hle : factored E.steps ≤ E.N.minFac - 1 := Nat.le_of_dvd (by have := hr.two_le; omega) hFd
  have : (factored E.steps + 1) * (factored E.steps + 1) ≤ E.N.minFac * E.N.minFac := by
    have h1 : factored E.steps + 1 ≤ E.N.minFac := by have := hr.two_le; omega
    exact Nat.mul_le_mul h1 h1
  rw [sq] at hsq
  omega

/-- **soundness**: every subject of a chain that checks is prime -/
theorem chain_sound : ∀ (l : List Entry), checkChain l = true → ∀ E ∈ l, E.N.Prime := by
  intro l
  induction l with
  | nil => intro _ E hE; cases hE
  | cons E rest ih =>
    intro h E' hE'
    simp only [checkChain, Bool.and_eq_true] at h
    have hrest := ih h.1
    rcases List.mem_cons.mp hE' with rfl | hmem
    · apply entry_prime (known := rest.map Entry.N) _ h.2
      intro q hq
      obtain ⟨E'', hE'', rfl⟩ := List.mem_map.mp hq
      exact hrest E'' hE''
    · exact hrest E' hmem

theorem prime_of_chain {l : List Entry} (h : checkChain l = true) {N : ℕ} (hN : (l.map Entry.N).contains N = true) :
    N.Prime := by
  rw [List.contains_iff_mem] at hN
  obtain ⟨E, hE, rfl⟩ := List.mem_map.mp hN
  exact chain_sound l h E hE

/-- non-vacuity: 2^61 − 1 from the partial factorisation 2·3²·5²·7·11·13·31·41·61·151·331 of 2^61 − 2 (Pocklington: the
factor 1321 is not needed) -/
example : (2305843009213693951 : ℕ).Prime :=
  prime_of_chain (l := [⟨2305843009213693951, [⟨2, 1, 3⟩, ⟨3, 2, 5⟩, ⟨5, 2, 3⟩, ⟨7, 1, 3⟩, ⟨11, 1, 3⟩, ⟨13, 1, 3⟩, ⟨31, 1, 3⟩,
    ⟨41, 1, 3⟩, ⟨61, 1, 2⟩, ⟨151, 1, 3⟩, ⟨331, 1, 3⟩]⟩]) (by decide +kernel) (by decide +kernel)

end PrimeCert
