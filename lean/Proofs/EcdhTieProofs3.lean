import Proofs.EcdhTieProofs2
/-!
# Proofs.EcdhTieProofs3 — loaders that delegate to a key constructor, `generate_private_key`, `__init__`;
the summary theorem `step_source`
-/
namespace EcdhTie
open Ecdh Gen.Ecdh
variable {Crv Pt Ent : Type} [DecidableEq Crv]

theorem genPriv_source (env : Env Crv Pt Ent) (s : State Crv Pt) (e : Ent) :
    stepSource env s (.genPriv e) = step env s (.genPriv e) := by
  obtain ⟨c, p, q⟩ := s
  cases c with
  | none => simp [ecdh_run]
  | some c =>
    cases hk : env.generate c e with
    | error err => simp [hk, ecdh_run]
    | ok k =>
      by_cases h : c = k.curve
      · subst h; simp [hk, ecdh_run]
      · simp [hk, h, ecdh_run]

theorem loadPrivBytes_source (env : Env Crv Pt Ent) (s : State Crv Pt) (b : Bytes) :
    stepSource env s (.loadPrivBytes b) = step env s (.loadPrivBytes b) := by
  obtain ⟨c, p, q⟩ := s
  cases c with
  | none => simp [ecdh_run]
  | some c =>
    cases hk : env.skFromString c b with
    | error err => simp [hk, ecdh_run]
    | ok k =>
      by_cases h : c = k.curve
      · subst h; simp [hk, ecdh_run]
      · simp [hk, h, ecdh_run]

theorem loadPrivDer_source (env : Env Crv Pt Ent) (s : State Crv Pt) (b : Bytes) :
    stepSource env s (.loadPrivDer b) = step env s (.loadPrivDer b) := by
  obtain ⟨c, p, q⟩ := s
  cases hk : env.skFromDer b with
  | error err => simp [hk, ecdh_run]
  | ok k =>
    cases c with
    | none => simp [hk, ecdh_run]
    | some c =>
      by_cases h : c = k.curve
      · subst h; simp [hk, ecdh_run]
      · simp [hk, h, ecdh_run]

theorem loadPrivPem_source (env : Env Crv Pt Ent) (s : State Crv Pt) (b : Bytes) :
    stepSource env s (.loadPrivPem b) = step env s (.loadPrivPem b) := by
  obtain ⟨c, p, q⟩ := s
  cases hk : env.skFromPem b with
  | error err => simp [hk, ecdh_run]
  | ok k =>
    cases c with
    | none => simp [hk, ecdh_run]
    | some c =>
      by_cases h : c = k.curve
      · subst h; simp [hk, ecdh_run]
      · simp [hk, h, ecdh_run]

theorem loadPubBytes_source (env : Env Crv Pt Ent) (s : State Crv Pt) (b : Bytes) :
    stepSource env s (.loadPubBytes b) = step env s (.loadPubBytes b) := by
  obtain ⟨c, p, q⟩ := s
  cases c with
  | none => simp [ecdh_run]
  | some c =>
    cases hk : env.vkFromString c b with
    | error err => simp [hk, ecdh_run]
    | ok k =>
      by_cases h : c = k.curve
      · subst h; simp [hk, ecdh_run]
      · simp [hk, h, ecdh_run]

theorem loadPubDer_source (env : Env Crv Pt Ent) (s : State Crv Pt) (b : Bytes) :
    stepSource env s (.loadPubDer b) = step env s (.loadPubDer b) := by
  obtain ⟨c, p, q⟩ := s
  cases hk : env.vkFromDer b with
  | error err => simp [hk, ecdh_run]
  | ok k =>
    cases c with
    | none => simp [hk, ecdh_run]
    | some c =>
      by_cases h : c = k.curve
      · subst h; simp [hk, ecdh_run]
      · simp [hk, h, ecdh_run]

theorem loadPubPem_source (env : Env Crv Pt Ent) (s : State Crv Pt) (b : Bytes) :
    stepSource env s (.loadPubPem b) = step env s (.loadPubPem b) := by
  obtain ⟨c, p, q⟩ := s
  cases hk : env.vkFromPem b with
  | error err => simp [hk, ecdh_run]
  | ok k =>
    cases c with
    | none => simp [hk, ecdh_run]
    | some c =>
      by_cases h : c = k.curve
      · subst h; simp [hk, ecdh_run]
      · simp [hk, h, ecdh_run]

/-- every public method: the model's transition is the execution of the generated program -/
theorem step_source (env : Env Crv Pt Ent) (s : State Crv Pt) (op : Op Crv Pt Ent) :
    step env s op = stepSource env s op := by
  cases op with
  | setCurve c => cases c <;> simp [ecdh_run]
  | genPriv e => exact (genPriv_source env s e).symm
  | loadPriv sk =>
    have := loadPrivate_source env none s sk
    simpa [stepSource, opCall, step] using this.symm
  | loadPrivBytes b => exact (loadPrivBytes_source env s b).symm
  | loadPrivDer b => exact (loadPrivDer_source env s b).symm
  | loadPrivPem b => exact (loadPrivPem_source env s b).symm
  | getPub =>
    obtain ⟨c', p, q⟩ := s
    cases p <;> simp [ecdh_run]
  | loadPub vk =>
    have := loadPublic_source env none s vk
    simpa [stepSource, opCall, step] using this.symm
  | loadPubBytes b => exact (loadPubBytes_source env s b).symm
  | loadPubDer b => exact (loadPubDer_source env s b).symm
  | loadPubPem b => exact (loadPubPem_source env s b).symm
  | secret => exact (getSharedSecret_source env s).symm
  | secretBytes => exact (secretBytes_source env s).symm

end EcdhTie
