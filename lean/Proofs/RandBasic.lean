import Model.Rand
import Proofs.Bits
/-! basic facts about `Model.Rand`: what one iteration of `randrange` can return, and the shape of the loop -/
namespace Rand

theorem oneDraw_some_range {order : Int} {c : Bytes} {k : Nat} (h : oneDraw order c = .ok (some k)) :
    1 ≤ k ∧ (k : Int) < order := by
  unfold oneDraw at h
  simp only [bind, Except.bind] at h
  split at h
  · cases h
  · split at h
    · rename_i hc
      simp only [Except.ok.injEq, Option.some.injEq] at h
      subst h
      omega
    · cases h

theorem randrangeLoop_range {ent : Entropy} {order : Int} {fuel : Nat} {hist : List Nat} {k : Nat} {hist' : List Nat}
    (h : randrangeLoop ent order fuel hist = some (.ok (k, hist'))) : 1 ≤ k ∧ (k : Int) < order := by
  induction fuel generalizing hist with
  | zero => simp [randrangeLoop] at h
  | succ f ih =>
    unfold randrangeLoop at h
    simp only at h
    split at h
    · cases h
    · split at h
      · cases h
      · rename_i hd
        simp only [Option.some.injEq, Except.ok.injEq, Prod.mk.injEq] at h
        obtain ⟨rfl, _⟩ := h
        exact oneDraw_some_range hd
      · exact ih h

end Rand
