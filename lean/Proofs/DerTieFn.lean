import Proofs.DerTie
/-!
# Proofs.DerTieFn — every function of `Model/Der.lean` restated WHOLE with the tests and integer expressions that
`gen_der.py` extracts from the current `src/ecdsa/der.py` (`Generated/DerGuards.lean`) in the places of its own, and
proved equal to the model function itself.

`Proofs/DerTie.lean` proves "this test of the model = that generated test" on copies of the tests; here the left-hand
side is the model FUNCTION (`readLength`, `removeInteger`, `bitsTail`, …), so a transcription error in `Model/Der.lean`
(a test dropped, in the wrong place, on the wrong variable, with the wrong constant) breaks a theorem, not only a change of
the source.  What stays hand-written on the right-hand sides is the plumbing that is not integer arithmetic: the empty-
string and tag-literal tests, `idx` (= `str_idx_as_int`), `beVal` (= `int(hexlify(·), 16)`), `hexBytes` (= `"%x"` +
`unhexlify`), slicing as `drop`/`take` (with the generated bounds), `int2byte`.  `ev_*` = evaluation lemmas generated
guard → model test (from `DerTie`).
-/
set_option linter.unusedSimpArgs false
namespace C11.Tie
open Gen.Der Der

/-! ### evaluation lemmas -/

theorem ev_rl_if1 (num : UInt8) : read_length_if1 num.toNat = decide (num &&& 0x80 = 0) := (read_length_bytes num).1.symm
theorem ev_rl_ret0 (num : UInt8) : (read_length_ret0 num.toNat).toNat = (num &&& 0x7f).toNat := by
  rw [← (read_length_bytes num).2.1]; rfl
theorem ev_rl_let1 (num : UInt8) : (read_length_let1 num.toNat).toNat = (num &&& 0x7f).toNat := by
  rw [← (read_length_bytes num).2.2]; rfl
theorem ev_rl_if2 (llen : Nat) : read_length_if2 llen = decide (llen = 0) := (read_length_nat llen 0).1.symm
theorem ev_rl_if3 (llen restlen : Nat) : read_length_if3 llen ((restlen + 1 : Nat) : Int) = decide (llen > restlen) :=
  (read_length_nat llen restlen).2.1.symm
theorem ev_rl_ret3 (llen : Nat) : (read_length_ret3 llen).toNat = 1 + llen := by
  rw [← (read_length_nat llen 0).2.2]; rfl
theorem ev_rl_if4 (msb : UInt8) (llen : Nat) :
    read_length_if4 msb.toNat llen = decide (msb = 0 ∨ (llen = 1 ∧ msb < 0x80)) := (read_length_minimal msb llen).symm

theorem ev_lo (llen : Nat) :
    (remove_integer_e0 llen).toNat = 1 + llen ∧ (remove_octet_string_e0 llen).toNat = 1 + llen
    ∧ (remove_sequence_e0 llen).toNat = 1 + llen ∧ (remove_constructed_e0 llen).toNat = 1 + llen
    ∧ (remove_object_e0 llen).toNat = 1 + llen ∧ (remove_bitstring_e0 llen).toNat = 1 + llen := by
  simp only [remove_integer_e0, remove_octet_string_e0, remove_sequence_e0, remove_constructed_e0, remove_object_e0,
    remove_bitstring_e0]
  omega

theorem ev_hi (llen length : Nat) :
    (remove_integer_e1 llen length).toNat = 1 + llen + length ∧ (remove_integer_e2 llen length).toNat = 1 + llen + length
    ∧ (remove_octet_string_e1 llen length).toNat = 1 + llen + length ∧ (remove_octet_string_e2 llen length).toNat = 1 + llen + length
    ∧ (remove_sequence_let2 llen length).toNat = 1 + llen + length
    ∧ (remove_constructed_e1 llen length).toNat = 1 + llen + length ∧ (remove_constructed_e2 llen length).toNat = 1 + llen + length
    ∧ (remove_object_e1 llen length).toNat = 1 + llen + length ∧ (remove_object_e2 llen length).toNat = 1 + llen + length
    ∧ (remove_bitstring_e1 llen length).toNat = 1 + llen + length ∧ (remove_bitstring_e2 llen length).toNat = 1 + llen + length := by
  simp only [remove_integer_e1, remove_integer_e2, remove_octet_string_e1, remove_octet_string_e2, remove_sequence_let2,
    remove_constructed_e1, remove_constructed_e2, remove_object_e1, remove_object_e2, remove_bitstring_e1, remove_bitstring_e2]
  omega

/-- Python `string[a:b]` for `0 ≤ a ≤ b` -/
def slice (s : Bytes) (a b : Nat) : Bytes := (s.drop a).take (b - a)

theorem slice_eq (s : Bytes) (llen length : Nat) : slice s (1 + llen) (1 + llen + length) = (s.drop (1 + llen)).take length := by
  unfold slice; congr 1; omega

theorem ev_ri_if3 (length : Nat) : remove_integer_if3 length = decide (length = 0) := (remove_integer_guards length 0).1.symm
theorem ev_ri_if4 (b : UInt8) : remove_integer_if4 b.toNat = decide (¬ b < 0x80) := (integer_bytes b).2.1.symm
theorem ev_ri_if5 (length : Nat) (msb : UInt8) : remove_integer_if5 length msb.toNat = decide (length > 1 ∧ msb = 0) :=
  (remove_integer_guards length msb).2.symm
theorem ev_ri_if6 (b : UInt8) : remove_integer_if6 b.toNat = decide (b < 0x80) := (integer_bytes b).2.2.symm
theorem ev_ei_if1 (b : UInt8) : encode_integer_if1 b.toNat = decide (b ≤ 0x7f) := (integer_bytes b).1.symm
theorem ev_ei_assert0 (r : Int) : encode_integer_assert0 r = decide (r ≥ 0) := rfl
theorem ev_ei_e0 (n : Nat) : (encode_integer_e0 n).toNat = n + 1 := by simp only [encode_integer_e0]; omega

theorem ev_rc_if1 (s0 : UInt8) : remove_constructed_if1 s0.toNat = decide (s0 &&& 0xE0 ≠ 0xA0) := (constructed_bytes s0).1.symm
theorem ev_rc_let1 (s0 : UInt8) : (remove_constructed_let1 s0.toNat).toNat = (s0 &&& 0x1F).toNat := by
  rw [← (constructed_bytes s0).2]; rfl

theorem ev_rn_if1 (d : UInt8) : read_number_if1 d.toNat = decide (d = 0x80) := (number_bytes d).1.symm
theorem ev_rn_if3 (d : UInt8) : read_number_if3 d.toNat = decide (d &&& 0x80 = 0) := (number_bytes d).2.symm
theorem ev_rn_step (number : Nat) (d : UInt8) :
    (read_number_let4 (read_number_let2 number) d.toNat).toNat = (number <<< 7) + (d &&& 0x7F).toNat := by
  obtain ⟨h1, h2⟩ := read_number_step number d
  rw [← h1, ← h2]; rfl
theorem ev_rn_let5 (llen : Nat) : (read_number_let5 llen).toNat = llen + 1 := by simp only [read_number_let5]; omega

theorem ev_ro_if3 (a b : Nat) : remove_object_if3 a b = decide (a ≠ b) := (oid_length_test a b).symm
theorem ev_ro_if4 (n0 : Nat) : remove_object_if4 n0 = decide (n0 < 80) := (oid_arcs n0).1.symm
theorem ev_ro_let8 (n0 : Nat) : (remove_object_let8 n0).toNat = n0 / 40 := by rw [← (oid_arcs n0).2.1]; rfl
theorem ev_ro_let10 (n0 first : Nat) (h : 40 * first ≤ n0) : (remove_object_let10 n0 first).toNat = n0 - 40 * first := by
  simp only [remove_object_let10]; omega

theorem ev_rb_if3 (length : Nat) : remove_bitstring_if3 length = decide (length = 0) := (bitstring_length length 0 0).1.symm
theorem ev_rb_if6 (un : Nat) : remove_bitstring_if6 un = decide (¬ un ≤ 7) := (unused_range 0 un).2.symm
theorem ev_rb_if8 (un : Nat) : remove_bitstring_if8 un = decide (un ≠ 0) := by
  simp only [remove_bitstring_if8]; by_cases h : un = 0 <;> simp [h] <;> omega
theorem ev_rb_c0 (k : Int) (un : Nat) : remove_bitstring_c0 k un = decide (k ≠ (un : Int)) := rfl
theorem ev_rb_if10 (last : UInt8) (u : Nat) (hu : u ≤ 7) : remove_bitstring_if10 last.toNat u = padBits last u :=
  ((pad_bits last ⟨u, by omega⟩).2).symm
theorem ev_eb_if5 (last : UInt8) (u : Nat) (hu : u ≤ 7) : encode_bitstring_if5 last.toNat u = padBits last u :=
  ((pad_bits last ⟨u, by omega⟩).1).symm
theorem ev_eb_if2 (u : Int) : encode_bitstring_if2 u = decide (¬ (0 ≤ u ∧ u ≤ 7)) := (unused_range u 0).1.symm
theorem ev_eb_if3 (u : Int) : encode_bitstring_if3 u = decide (u ≠ 0) := rfl
theorem ev_eb_e0 (a b : Nat) : (encode_bitstring_e0 a b).toNat = a + b := by simp only [encode_bitstring_e0]; omega

theorem ev_el_if0 (l : Nat) : encode_length_if0 l = decide (l < 0x80) := (encode_length_guards l 0).2.1.symm
theorem ev_el_e0 (llen : Nat) : encode_length_e0 llen = ((0x80 ||| llen : Nat) : Int) := (encode_length_guards 0 llen).2.2.symm
theorem ev_el_assert0 (l : Int) : encode_length_assert0 l = decide (l ≥ 0) := rfl

theorem ev_en_e0 (n : Nat) : (encode_number_e0 n).toNat = (n &&& 0x7F) ||| 0x80 := by rw [← (encode_number_step n).1]; rfl
theorem ev_en_let1 (n : Nat) : (encode_number_let1 n).toNat = n >>> 7 := by rw [← (encode_number_step n).2]; rfl
theorem ev_en_while0 (n : Nat) : encode_number_while0 n = decide (n ≠ 0) := by
  simp only [encode_number_while0]; by_cases h : n = 0 <;> simp [h] <;> omega

theorem ev_eo_assert0 (first second : Int) :
    encode_oid_assert0 first second
      = decide ((0 ≤ first ∧ first < 2 ∧ 0 ≤ second ∧ second ≤ 39) ∨ (first = 2 ∧ 0 ≤ second)) :=
  (encode_oid_guards first second).1.symm
theorem ev_eo_e0 (first second : Nat) : (encode_oid_e0 first second).toNat = 40 * first + second := by
  simp only [encode_oid_e0]; omega

/-! ### readers -/

theorem fn_readLength (s : Bytes) :
    readLength s = match s with
      | [] => .error .unexpectedDER
      | num :: rest =>
        if read_length_if1 num.toNat then .ok ((read_length_ret0 num.toNat).toNat, 1)
        else
          let llen := (read_length_let1 num.toNat).toNat
          if read_length_if2 llen then .error .unexpectedDER
          else if read_length_if3 llen ((rest.length + 1 : Nat) : Int) then .error .unexpectedDER
          else (idx s 1).bind fun msb =>
            if read_length_if4 msb.toNat llen then .error .unexpectedDER
            else .ok (beVal (slice s 1 (read_length_ret3 llen).toNat), (read_length_ret3 llen).toNat) := by
  cases s with
  | nil => rfl
  | cons num rest =>
    have hs : ∀ llen, slice (num :: rest) 1 (1 + llen) = rest.take llen := by
      intro llen; unfold slice; simp
    simp only [ev_rl_if1, ev_rl_ret0, ev_rl_let1, ev_rl_if2, ev_rl_if3, ev_rl_ret3, ev_rl_if4, decide_eq_true_eq, hs]
    rfl

/-- the part shared by `remove_octet_string`, `remove_sequence`, `remove_constructed` after the identifier test:
`read_length(string[1:])`, the buffer test (generated `…_if2`), the two slices with the generated bounds -/
theorem fn_tlvBody (s : Bytes) :
    tlvBody s = (readLength (s.drop 1)).bind fun (length, llen) =>
      if remove_octet_string_if2 length s.length llen then .error .unexpectedDER
      else .ok (slice s (remove_octet_string_e0 llen).toNat (remove_octet_string_e1 llen length).toNat,
                s.drop (remove_octet_string_e2 llen length).toNat) := by
  unfold tlvBody
  simp only [← (tooLong_eq _ _ _).2.1, (ev_lo _).2.1, (ev_hi _ _).2.2.1, (ev_hi _ _).2.2.2.1, slice_eq]
  rfl

/-- the same text in the other two readers (their generated tests and bounds are the same expressions) -/
theorem fn_tlv_same (length lens llen : Nat) :
    remove_sequence_if2 length lens llen = remove_octet_string_if2 length lens llen
    ∧ remove_constructed_if2 length lens llen = remove_octet_string_if2 length lens llen
    ∧ remove_sequence_e0 llen = remove_octet_string_e0 llen ∧ remove_constructed_e0 llen = remove_octet_string_e0 llen
    ∧ remove_sequence_let2 llen length = remove_octet_string_e1 llen length
    ∧ remove_constructed_e1 llen length = remove_octet_string_e1 llen length
    ∧ remove_constructed_e2 llen length = remove_octet_string_e2 llen length := ⟨rfl, rfl, rfl, rfl, rfl, rfl, rfl⟩

theorem fn_removeOctetString (s : Bytes) :
    removeOctetString s = match s with
      | [] => .error .unexpectedDER
      | t :: _ => if t ≠ 0x04 then .error .unexpectedDER else tlvBody s := rfl

theorem fn_removeSequence (s : Bytes) :
    removeSequence s = match s with
      | [] => .error .unexpectedDER
      | t :: _ => if t ≠ 0x30 then .error .unexpectedDER else tlvBody s := rfl

theorem fn_removeConstructed (s : Bytes) :
    removeConstructed s = match s with
      | [] => .error .unexpectedDER
      | s0 :: _ =>
        if remove_constructed_if1 s0.toNat then .error .unexpectedDER
        else (tlvBody s).bind fun (body, rest) => .ok ((remove_constructed_let1 s0.toNat).toNat, body, rest) := by
  cases s with
  | nil => rfl
  | cons s0 t =>
    simp only [ev_rc_if1, ev_rc_let1, decide_eq_true_eq]
    rfl

theorem fn_removeInteger (s : Bytes) :
    removeInteger s = match s with
      | [] => .error .unexpectedDER
      | t :: _ =>
        if t ≠ 0x02 then .error .unexpectedDER
        else (readLength (s.drop 1)).bind fun (length, llen) =>
          if remove_integer_if2 length s.length llen then .error .unexpectedDER
          else if remove_integer_if3 length then .error .unexpectedDER
          else
            let numberbytes := slice s (remove_integer_e0 llen).toNat (remove_integer_e1 llen length).toNat
            let rest := s.drop (remove_integer_e2 llen length).toNat
            (idx numberbytes 0).bind fun msb =>
              if remove_integer_if4 msb.toNat then .error .unexpectedDER
              else if remove_integer_if5 length msb.toNat then
                (idx numberbytes 1).bind fun smsb =>
                  if remove_integer_if6 smsb.toNat then .error .unexpectedDER
                  else .ok (beVal numberbytes, rest)
              else .ok (beVal numberbytes, rest) := by
  cases s with
  | nil => rfl
  | cons t s' =>
    simp only [← (tooLong_eq _ _ _).1, (ev_lo _).1, (ev_hi _ _).1, (ev_hi _ _).2.1, slice_eq, ev_ri_if3, ev_ri_if4,
      ev_ri_if5, ev_ri_if6, decide_eq_true_eq]
    rfl

/-- one round of the `while True:` loop of `read_number` (the `llen >= len(string)` test is the empty-list case) -/
theorem fn_readNumberLoop (d : UInt8) (rest : Bytes) (number llen : Nat) :
    readNumberLoop (d :: rest) number llen =
      (let number := (read_number_let4 (read_number_let2 number) d.toNat).toNat
       if read_number_if3 d.toNat then .ok (number, (read_number_let5 llen).toNat)
       else readNumberLoop rest number (read_number_let5 llen).toNat)
    ∧ readNumberLoop [] number llen = .error .unexpectedDER := by
  refine ⟨?_, rfl⟩
  simp only [ev_rn_step, ev_rn_if3, ev_rn_let5, decide_eq_true_eq]
  rfl

theorem fn_readNumber (s : Bytes) :
    readNumber s = if s.isEmpty then .error .unexpectedDER
      else (idx s 0).bind fun b0 => if read_number_if1 b0.toNat then .error .unexpectedDER else readNumberLoop s 0 0 := by
  simp only [ev_rn_if1, decide_eq_true_eq]
  rfl

theorem fn_removeObject (s : Bytes) :
    removeObject s = match s with
      | [] => .error .unexpectedDER
      | t :: _ =>
        if t ≠ 0x06 then .error .unexpectedDER
        else (readLength (s.drop 1)).bind fun (length, llen) =>
          let body := slice s (remove_object_e0 llen).toNat (remove_object_e1 llen length).toNat
          let rest := s.drop (remove_object_e2 llen length).toNat
          if body.isEmpty then .error .unexpectedDER
          else if remove_object_if3 body.length length then .error .unexpectedDER
          else (readNumbers body.length body).bind fun numbers =>
            match numbers with
            | [] => .error .indexError
            | n0 :: tail =>
              let first := if remove_object_if4 n0 then (remove_object_let8 n0).toNat else 2
              let second := (remove_object_let10 n0 first).toNat
              .ok (first :: second :: tail, rest) := by
  cases s with
  | nil => rfl
  | cons t s' =>
    have harc : ∀ n0 : Nat, (remove_object_let10 n0 ((if n0 < 80 then n0 / 40 else 2 : Nat) : Int)).toNat
        = n0 - 40 * (if n0 < 80 then n0 / 40 else 2) := by
      intro n0; apply ev_ro_let10; split <;> omega
    simp only [(ev_lo _).2.2.2.2.1, (ev_hi _ _).2.2.2.2.2.2.2.1, (ev_hi _ _).2.2.2.2.2.2.2.2.1, slice_eq, ev_ro_if3,
      ev_ro_if4, ev_ro_let8, decide_eq_true_eq, harc]
    rfl

theorem fn_padCheck (s : Bytes) (unused : Nat) (hu : unused ≤ 7) (err : PyErr) :
    padCheck s unused err =
      (if remove_bitstring_if8 unused then
        match s.getLast? with
        | none => .error err
        | some last => if remove_bitstring_if10 last.toNat unused then .error err else .ok ()
       else .ok ())
    ∧ padCheck s unused err =
      (if encode_bitstring_if3 unused then
        match s.getLast? with
        | none => .error err
        | some last => if encode_bitstring_if5 last.toNat unused then .error err else .ok ()
       else .ok ()) := by
  have h3 : encode_bitstring_if3 (unused : Int) = decide (unused ≠ 0) := by
    rw [ev_eb_if3]; by_cases h : unused = 0 <;> simp [h] <;> omega
  unfold padCheck
  constructor
  · simp only [ev_rb_if8, decide_eq_true_eq]
    split
    · cases s.getLast? with
      | none => rfl
      | some last => simp only [ev_rb_if10 last unused hu]
    · rfl
  · simp only [h3, decide_eq_true_eq]
    split
    · cases s.getLast? with
      | none => rfl
      | some last => simp only [ev_eb_if5 last unused hu]
    · rfl

theorem fn_bitsTail (body rest : Bytes) (expect : Unused) :
    bitsTail body rest expect =
      match expect with
      | .legacy => .ok (body, none, rest)
      | e => (idx body 0).bind fun unusedB =>
          let unused := unusedB.toNat
          if remove_bitstring_if6 unused then .error .unexpectedDER
          else if (match e with | .some k => remove_bitstring_c0 k unused | _ => false) then .error .unexpectedDER
          else
            let body := body.drop 1
            (padCheck body unused .unexpectedDER).bind fun _ =>
              match e with
              | .none => .ok (body, some unused, rest)
              | _ => .ok (body, none, rest) := by
  cases expect with
  | legacy => rfl
  | none => simp only [ev_rb_if6, decide_eq_true_eq]; rfl
  | some k => simp only [bitsTail, ev_rb_if6, ev_rb_c0, decide_eq_true_eq]; rfl

theorem fn_removeBitstring (s : Bytes) (expect : Unused) :
    removeBitstring s expect = match s with
      | [] => .error .unexpectedDER
      | t :: _ =>
        if t ≠ 0x03 then .error .unexpectedDER
        else (readLength (s.drop 1)).bind fun (length, llen) =>
          if remove_bitstring_if3 length then .error .unexpectedDER
          else if remove_bitstring_if4 length s.length llen then .error .unexpectedDER
          else bitsTail (slice s (remove_bitstring_e0 llen).toNat (remove_bitstring_e1 llen length).toNat)
                 (s.drop (remove_bitstring_e2 llen length).toNat) expect := by
  cases s with
  | nil => rfl
  | cons t s' =>
    simp only [← (tooLong_eq _ _ _).2.2.2.2, (ev_lo _).2.2.2.2.2, (ev_hi _ _).2.2.2.2.2.2.2.2.2.1,
      (ev_hi _ _).2.2.2.2.2.2.2.2.2.2, slice_eq, ev_rb_if3, decide_eq_true_eq]
    rfl

/-! ### encoders -/

theorem fn_encodeLength (l : Int) :
    encodeLengthInt l = (if ¬ encode_length_assert0 l then .error .assertionError else encodeLengthPy l.toNat)
    ∧ encodeLengthPy l.toNat =
      (if encode_length_if0 l.toNat then (int2byte l.toNat).bind fun b => .ok [b]
       else
         let s := hexBytes l.toNat
         (int2byte (encode_length_e0 s.length)).bind fun b => .ok (b :: s)) := by
  constructor
  · unfold encodeLengthInt
    simp only [ev_el_assert0, decide_eq_true_eq]
    by_cases h : l < 0 <;> simp [h] <;> omega
  · simp only [ev_el_if0, ev_el_e0, decide_eq_true_eq]
    rfl

theorem fn_encodeInteger (r : Int) :
    encodeIntegerPy r =
      if ¬ encode_integer_assert0 r then .error .assertionError
      else
        let s := hexBytes r.toNat
        (idx s 0).bind fun num =>
          if encode_integer_if1 num.toNat then (encodeLengthPy s.length).bind fun l => .ok ([0x02] ++ l ++ s)
          else (encodeLengthPy (encode_integer_e0 s.length).toNat).bind fun l => .ok ([0x02] ++ l ++ [0x00] ++ s) := by
  simp only [ev_ei_assert0, ev_ei_if1, ev_ei_e0, decide_eq_true_eq]
  rfl

theorem fn_encodeConstructed (tag : Int) (value : Bytes) :
    encodeConstructedPy tag value =
      (int2byte (encode_constructed_e0 tag)).bind fun t =>
        (encodeLengthPy value.length).bind fun l => .ok ([t] ++ l ++ value) := rfl

/-- one round of `while n:` in `encode_number`: the digit pushed in front and the new `n` -/
theorem fn_b128Digits (n : Nat) :
    b128Digits n = if encode_number_while0 n then
        b128Digits (encode_number_let1 n).toNat ++ [UInt8.ofNat (encode_number_e0 n).toNat]
      else [] := by
  simp only [ev_en_while0, ev_en_let1, ev_en_e0, decide_eq_true_eq]
  cases n with
  | zero => rw [b128Digits]; rfl
  | succ n => rw [b128Digits]; simp

theorem fn_encodeOid (first second : Int) (pieces : List Nat) :
    encodeOidPy first second pieces =
      (if encode_oid_assert0 first second then encodeOid first.toNat second.toNat pieces else .error .assertionError)
    ∧ ∀ (a b : Nat), oidBody a b pieces
        = encodeNumber (encode_oid_e0 a b).toNat ++ (pieces.map encodeNumber).flatten := by
  constructor
  · simp only [ev_eo_assert0, decide_eq_true_eq]; rfl
  · intro a b; simp only [ev_eo_e0]; rfl

theorem fn_encodeBitstring (s : Bytes) (u : Int) :
    encodeBitstring s (.some u) =
      (if encode_bitstring_if2 u then .error .valueError
       else (padCheck s u.toNat .valueError).bind fun _ =>
         (int2byte u).bind fun eu =>
           (encodeLengthPy (encode_bitstring_e0 s.length 1).toNat).bind fun l => .ok ([0x03] ++ l ++ [eu] ++ s))
    ∧ encodeBitstring s .legacy =
        ((encodeLengthPy (encode_bitstring_e0 s.length 0).toNat).bind fun l => .ok ([0x03] ++ l ++ s))
    ∧ encodeBitstring s .none = encodeBitstring s .legacy := by
  refine ⟨?_, ?_, rfl⟩
  · have h : (encode_bitstring_e0 s.length 1).toNat = s.length + 1 := ev_eb_e0 s.length 1
    simp only [ev_eb_if2, decide_eq_true_eq]
    rw [h]
    rfl
  · have h : (encode_bitstring_e0 s.length 0).toNat = s.length := ev_eb_e0 s.length 0
    rw [h]; rfl

end C11.Tie
