import Proofs.EcdsaGroup
/-!
# Proofs.EcdsaKeys — `Public_key.__init__` checks and `SigningKey.from_secret_exponent`
-/
namespace Ecdsa

variable {P : Type} {𝔾 : Type} [AddCommGroup 𝔾]
variable {ops : PointOps P} {G : 𝔾} {den : P → 𝔾} {xc : 𝔾 → Option ℤ} {valid : P → Prop}

/-- without point validation (`verify=False`) a valid non-zero point passes the range and order checks -/
theorem publicKeyCheck_noverify (C : PointOpsCorrect ops G den xc valid) (A : P) (hA : valid A) (hne : den A ≠ 0) :
    publicKeyCheck ops A false = .ok true := by
  obtain ⟨x, hx, hxc⟩ := C.xOf A hA hne
  obtain ⟨y, hy, hy0, hy1⟩ := C.yOf A hA hne
  obtain ⟨hx0, hx1⟩ := C.xc_range _ _ hxc
  have hn := C.n_pos
  unfold publicKeyCheck
  have h1 : Gen.Ecdsa.pubkey_x_out x ops.p = false := by
    simp [Gen.Ecdsa.pubkey_x_out, hx0, hx1]
  have h2 : Gen.Ecdsa.pubkey_y_out y ops.p = false := by
    simp [Gen.Ecdsa.pubkey_y_out, hy0, hy1]
  have h3 : Gen.Ecdsa.pubkey_no_order ops.order = false := by
    simp [Gen.Ecdsa.pubkey_no_order]; omega
  simp [C.isInfObj A hA hne, hx, hy, h1, h2, h3, bind, Except.bind]

/-- **C03, public key.** For `1 ≤ d < n`, `from_secret_exponent(d)` succeeds and its point denotes `d • G`;
outside that range it raises `MalformedPointError`. -/
theorem fromSecretExponent_spec (C : PointOpsCorrect ops G den xc valid) (d : ℤ) :
    (1 ≤ d ∧ d < ops.order → ∃ A, fromSecretExponent ops d = .ok A ∧ valid A ∧ den A = d • G) ∧
    (¬ (1 ≤ d ∧ d < ops.order) → fromSecretExponent ops d = .error .malformedPoint) := by
  constructor
  · rintro ⟨h1, h2⟩
    obtain ⟨A, hA, vA, dA⟩ := C.mulG d
    obtain ⟨B, hB, vB, dB⟩ := C.scale A vA
    have hne : den B ≠ 0 := by
      rw [dB, dA]; intro h
      have := (C.smul_eq_zero_iff d).mp h
      have := Int.le_of_dvd (by omega) this
      omega
    have hbad : Gen.Ecdsa.secexp_bad d ops.order = false := by
      simp [Gen.Ecdsa.secexp_bad, h1, h2]
    obtain ⟨vF, dF⟩ := C.fromAffine B vB
    have hneF : den (ops.fromAffine B) ≠ 0 := by rw [dF]; exact hne
    refine ⟨ops.fromAffine B, ?_, vF, by rw [dF, dB, dA]⟩
    unfold fromSecretExponent fromPublicPoint
    simp [hbad, hA, hB, C.isInfObj B vB hne, publicKeyCheck_noverify C _ vF hneF, bind, Except.bind]
  · intro h
    have hbad : Gen.Ecdsa.secexp_bad d ops.order = true := by
      simp only [Gen.Ecdsa.secexp_bad, Bool.not_eq_true', Bool.and_eq_false_iff, decide_eq_false_iff_not]
      omega
    unfold fromSecretExponent
    simp [hbad]

end Ecdsa
