import Proofs.GroupObj
/-!
# Proofs.Legacy — the legacy affine `Point` class (`double`, `-`, `+`, `==`) and the dispatching operators on any
point value (`ptAdd`, `ptDouble`, `ptEq`, `ptIsInf`)

Everything is stated with the denotations of `Proofs.GroupObj`: `AffRep p a b H A g` (a legacy `Point` value with
reduced coordinates denoting `g ∈ H`) and `PtRep` (any point value).  `hH : NoOrder2 H` is the project's N2T hypothesis.
-/
namespace Jac
open WeierstrassCurve WeierstrassCurve.Jacobian Curve

variable {p : ℕ} [hp : Fact p.Prime]

/-- two reduced integers are equal iff their residues are -/
theorem InRange.cast_inj {x y : ℤ} (hx : InRange p x) (hy : InRange p y) :
    ((x : ZMod p) = (y : ZMod p)) ↔ x = y := by
  constructor
  · intro h
    have hz : ZT p (x - y) := zt_of_range (by have := hx.1; have := hy.2; omega) (by have := hx.2; have := hy.1; omega)
    have : x - y = 0 := hz (by push_cast; rw [h, sub_self])
    omega
  · rintro rfl; rfl

variable {a b : ℤ} {H : AddSubgroup (Grp (a : ZMod p) (b : ZMod p))}

theorem AffRep.ne_zero {A : AffPt} {g} (h : AffRep p a b H A g) : g ≠ 0 := by
  obtain ⟨_, _, _, _, hn, rfl⟩ := h
  exact Affine.Point.some_ne_zero _

theorem AffRep.mem {A : AffPt} {g} (h : AffRep p a b H A g) : g ∈ H := h.2.2.2.1

theorem AffRep.yf_ne (hH : NoOrder2 H) {A : AffPt} {g} (h : AffRep p a b H A g) : (A.y : ZMod p) ≠ 0 :=
  h.2.2.1.zt.ne (h.y_ne hH)

/-- `Point(curve, x, y, order)` with reduced `x`, `y` that are the coordinates of a point of H: the assertion of the
constructor holds and the new object denotes that point -/
theorem mkPoint_rep {c : CurveFp} (hc : OnCurve p a b c) {x y : ℤ} (hx : InRange p x) (hy : InRange p y)
    {X Y : ZMod p} (hn : (shortW (a : ZMod p) (b : ZMod p)).toAffine.Nonsingular X Y)
    (ex : X = (x : ZMod p)) (ey : Y = (y : ZMod p)) (hm : Affine.Point.some X Y hn ∈ H) (o : Option ℤ) :
    mkPoint c x y o = .ok ⟨c, x, y, o⟩ ∧ AffRep p a b H ⟨c, x, y, o⟩ (Affine.Point.some X Y hn) := by
  obtain ⟨h', e⟩ := some_congr ex ey hn
  refine ⟨?_, hc, hx, hy, hm, h', e.symm⟩
  simp only [mkPoint, containsPoint_of hc h', if_true]

/-- **`Point.double()`** -/
theorem affDouble_correct (hp2 : p ≠ 2) (hH : NoOrder2 H) {A : AffPt} {g} (hA : AffRep p a b H A g) :
    ∃ R, affDouble A = .ok R ∧ PtRep p a b H R (g + g) := by
  have hyf := hA.yf_ne hH
  obtain ⟨hc, hx, hy, hm, hn, rfl⟩ := hA
  have h2 := two_ne_zero_of (p := p) hp2
  have h2y : ((2 * A.y : ℤ) : ZMod p) ≠ 0 := by push_cast; exact mul_ne_zero h2 hyf
  obtain ⟨zi, hzi, _, _, hcst⟩ := InvMod.inverseMod_prime_cast p (2 * A.y) h2y
  have hne : (A.y : ZMod p) ≠ (shortW (a : ZMod p) (b : ZMod p)).toAffine.negY (A.x : ZMod p) (A.y : ZMod p) := by
    intro e
    simp only [Affine.negY, shortW, zero_mul, sub_zero] at e
    apply h2y; push_cast; linear_combination e
  have hadd := Affine.Point.add_self_of_Y_ne (h₁ := hn) hne
  have hmem := H.add_mem hm hm
  rw [hadd] at hmem ⊢
  set l : ℤ := pmod ((3 * A.x * A.x + a) * zi) p with hl
  set x3 : ℤ := pmod (l * l - 2 * A.x) p with hx3
  set y3 : ℤ := pmod (l * (A.x - x3) - A.y) p with hy3
  have hlc : (l : ZMod p) = (3 * (A.x : ZMod p) ^ 2 + a) / (2 * A.y) := by
    rw [hl]; simp only [pmod]; kcast; rw [hcst]; push_cast; rw [div_eq_mul_inv]; ring
  have hsl : (shortW (a : ZMod p) (b : ZMod p)).toAffine.slope (A.x : ZMod p) A.x A.y A.y = (l : ZMod p) := by
    rw [Affine.slope_of_Y_ne rfl hne, hlc]
    simp only [Affine.negY, shortW, zero_mul, sub_zero, mul_zero, add_zero]
    congr 1; ring
  have hx3c : (x3 : ZMod p) = (l : ZMod p) ^ 2 - 2 * A.x := by
    rw [hx3]; simp only [pmod]; kcast; ring
  have hy3c : (y3 : ZMod p) = (l : ZMod p) * (A.x - x3) - A.y := by
    rw [hy3]; simp only [pmod]; kcast
  obtain ⟨hmk, hrep⟩ := mkPoint_rep (x := x3) (y := y3) hc
    (inRange_fmod _) (inRange_fmod _) _
    (by rw [hsl, hx3c]; simp only [Affine.addX, shortW, zero_mul, add_zero, sub_zero]; ring)
    (by rw [hsl, hy3c, hx3c]
        simp only [Affine.addY, Affine.negY, Affine.negAddY, Affine.addX, shortW, zero_mul, add_zero, sub_zero]; ring)
    hmem none
  refine ⟨.aff ⟨A.curve, x3, y3, none⟩, ?_, hrep⟩
  simp only [affDouble, hc.1, hc.2.1, hzi, ok_bind, ← hl, ← hx3, ← hy3, hmk]

/-- **`Point.__neg__`**: the stored y is `p - y`, reduced because y ≠ 0 under N2T -/
theorem affNeg_correct (hH : NoOrder2 H) {A : AffPt} {g} (hA : AffRep p a b H A g) :
    ∃ N, affNeg A = .ok N ∧ AffRep p a b H N (-g) ∧ N.order = none := by
  have hy0 := hA.y_ne hH
  obtain ⟨hc, hx, hy, hm, hn, rfl⟩ := hA
  have hmem := H.neg_mem hm
  rw [Affine.Point.neg_some] at hmem ⊢
  obtain ⟨hmk, hrep⟩ := mkPoint_rep (x := A.x) (y := A.curve.p - A.y) hc hx
    (by rw [hc.1]; have := hy.1; have := hy.2; exact ⟨by omega, by omega⟩) _ rfl
    (by rw [hc.1]; simp [Affine.negY, shortW]) hmem none
  exact ⟨_, hmk, hrep, rfl⟩

/-- **`Point.__add__`** with any point value as second operand -/
theorem affAdd_correct (hp2 : p ≠ 2) (hH : NoOrder2 H) {A : AffPt} {other : Pt} {g h}
    (hA : AffRep p a b H A g) (hQ : PtRep p a b H other h) :
    ∃ R, affAdd A other = .ok R ∧ PtRep p a b H R (g + h) := by
  cases other with
  | infinity =>
    simp only [PtRep] at hQ
    exact ⟨_, rfl, by rw [hQ, add_zero]; exact hA⟩
  | jac Q =>
    obtain ⟨R, h1, h2⟩ := pjAdd_correct hp2 hH (other := .aff A) hQ hA
    exact ⟨R, h1, by rw [add_comm]; exact h2⟩
  | aff Q =>
    have hQ' : AffRep p a b H Q h := hQ
    simp only [affAdd, hA.1.eqv hQ'.1, Bool.not_true, Bool.false_eq_true, if_false]
    by_cases hxx : A.x = Q.x
    · simp only [hxx, if_true]
      have hxf : (A.x : ZMod p) = (Q.x : ZMod p) := by rw [hxx]
      by_cases hyy : pmod (A.y + Q.y) A.curve.p = 0
      · simp only [hyy, beq_self_eq_true, if_true]
        refine ⟨_, rfl, ?_⟩
        obtain ⟨hc, hx, hy, hm, hn, rfl⟩ := hA
        obtain ⟨hc', hx', hy', hm', hn', rfl⟩ := hQ'
        simp only [PtRep]
        apply Affine.Point.add_of_Y_eq hxf
        simp only [pmod, hc.1, fmod_eq_zero_iff] at hyy
        push_cast at hyy
        simp only [Affine.negY, shortW, zero_mul, sub_zero]
        linear_combination hyy
      · have hb : (pmod (A.y + Q.y) A.curve.p == 0) = false := by simpa using hyy
        simp only [hb, Bool.false_eq_true, if_false]
        have hgh : g = h := by
          obtain ⟨hc, hx, hy, hm, hn, rfl⟩ := hA
          obtain ⟨hc', hx', hy', hm', hn', rfl⟩ := hQ'
          rw [Affine.Point.some.injEq]
          refine ⟨hxf, Affine.Y_eq_of_Y_ne hn.left hn'.left hxf ?_⟩
          intro e
          apply hyy
          simp only [pmod, hc.1, fmod_eq_zero_iff]
          push_cast
          simp only [Affine.negY, shortW, zero_mul, sub_zero] at e
          linear_combination e
        rw [← hgh]
        exact affDouble_correct hp2 hH hA
    · simp only [hxx, if_false]
      obtain ⟨hc, hx, hy, hm, hn, rfl⟩ := hA
      obtain ⟨hc', hx', hy', hm', hn', rfl⟩ := hQ'
      have hxf : (A.x : ZMod p) ≠ (Q.x : ZMod p) := fun e => hxx ((hx.cast_inj hx').mp e)
      have hd : ((Q.x - A.x : ℤ) : ZMod p) ≠ 0 := by
        push_cast; exact sub_ne_zero.mpr (Ne.symm hxf)
      obtain ⟨zi, hzi, _, _, hcst⟩ := InvMod.inverseMod_prime_cast p (Q.x - A.x) hd
      have hadd := Affine.Point.add_of_X_ne (h₁ := hn) (h₂ := hn') hxf
      have hmem := H.add_mem hm hm'
      rw [hadd] at hmem ⊢
      set l : ℤ := pmod ((Q.y - A.y) * zi) p with hl
      set x3 : ℤ := pmod (l * l - A.x - Q.x) p with hx3
      set y3 : ℤ := pmod (l * (A.x - x3) - A.y) p with hy3
      have hsl : (shortW (a : ZMod p) (b : ZMod p)).toAffine.slope (A.x : ZMod p) Q.x A.y Q.y = (l : ZMod p) := by
        rw [Affine.slope_of_X_ne hxf, hl]; simp only [pmod]; kcast; rw [hcst]; push_cast
        have h1 : (A.x : ZMod p) - Q.x ≠ 0 := sub_ne_zero.mpr hxf
        have h2 : (Q.x : ZMod p) - A.x ≠ 0 := sub_ne_zero.mpr (Ne.symm hxf)
        field_simp
        ring
      have hx3c : (x3 : ZMod p) = (l : ZMod p) ^ 2 - A.x - Q.x := by
        rw [hx3]; simp only [pmod]; kcast; ring
      have hy3c : (y3 : ZMod p) = (l : ZMod p) * (A.x - x3) - A.y := by
        rw [hy3]; simp only [pmod]; kcast
      obtain ⟨hmk, hrep⟩ := mkPoint_rep (x := x3) (y := y3) hc
        (inRange_fmod _) (inRange_fmod _) _
        (by rw [hsl, hx3c]; simp only [Affine.addX, shortW, zero_mul, add_zero, sub_zero])
        (by rw [hsl, hy3c, hx3c]
            simp only [Affine.addY, Affine.negY, Affine.negAddY, Affine.addX, shortW, zero_mul, add_zero, sub_zero]
            ring)
        hmem none
      refine ⟨.aff ⟨A.curve, x3, y3, none⟩, ?_, hrep⟩
      simp only [hc.1, hzi, ok_bind, ← hl, ← hx3, ← hy3, hmk]

/-- **`Point.__eq__`** (incl. the reflected `PointJacobi.__eq__`) decides equality of the denoted elements -/
theorem affEq_iff (hH : NoOrder2 H) {A : AffPt} {other : Pt} {g h}
    (hA : AffRep p a b H A g) (hQ : PtRep p a b H other h) : affEq A other = true ↔ g = h := by
  cases other with
  | infinity =>
    simp only [PtRep] at hQ
    simp only [affEq, Bool.false_eq_true, false_iff, hQ]
    exact hA.ne_zero
  | jac Q =>
    simp only [affEq]
    rw [pjEq_iff hH (other := .aff A) hQ hA, eq_comm]
  | aff Q =>
    have hQ' : AffRep p a b H Q h := hQ
    simp only [affEq, hA.1.eqv hQ'.1, Bool.true_and, Bool.and_eq_true, beq_iff_eq]
    obtain ⟨hc, hx, hy, hm, hn, rfl⟩ := hA
    obtain ⟨hc', hx', hy', hm', hn', rfl⟩ := hQ'
    rw [Affine.Point.some.injEq, hx.cast_inj hx', hy.cast_inj hy']

/-- **`+`** on any two point values -/
theorem ptAdd_correct (hp2 : p ≠ 2) (hH : NoOrder2 H) {A B : Pt} {g h}
    (hA : PtRep p a b H A g) (hB : PtRep p a b H B h) :
    ∃ R, ptAdd A B = .ok R ∧ PtRep p a b H R (g + h) := by
  cases A with
  | jac P => exact pjAdd_correct hp2 hH hA hB
  | aff P => exact affAdd_correct hp2 hH hA hB
  | infinity =>
    simp only [PtRep] at hA
    subst hA
    rw [zero_add]
    cases B with
    | infinity => exact ⟨_, rfl, hB⟩
    | aff Q => exact ⟨_, rfl, hB⟩
    | jac Q =>
      obtain ⟨R, h1, h2⟩ := pjAdd_correct hp2 hH (other := .infinity) (h := 0) hB rfl
      exact ⟨R, h1, by rw [add_zero] at h2; exact h2⟩

/-- **`.double()`** on any point value -/
theorem ptDouble_correct (hp2 : p ≠ 2) (hH : NoOrder2 H) {A : Pt} {g} (hA : PtRep p a b H A g) :
    ∃ R, ptDouble A = .ok R ∧ PtRep p a b H R (g + g) := by
  cases A with
  | jac P => exact ⟨_, rfl, pjDouble_correct hH hA⟩
  | aff P => exact affDouble_correct hp2 hH hA
  | infinity =>
    simp only [PtRep] at hA
    subst hA
    exact ⟨_, rfl, by simp [PtRep]⟩

/-- **`==`** on any two point values -/
theorem ptEq_iff (hH : NoOrder2 H) {A B : Pt} {g h}
    (hA : PtRep p a b H A g) (hB : PtRep p a b H B h) : ptEq A B = true ↔ g = h := by
  cases A with
  | jac P => exact pjEq_iff hH hA hB
  | aff P => exact affEq_iff hH hA hB
  | infinity =>
    simp only [PtRep] at hA
    subst hA
    cases B with
    | infinity => simp only [PtRep] at hB; simp [ptEq, hB]
    | aff Q =>
      have := AffRep.ne_zero (show AffRep p a b H Q h from hB)
      simp only [ptEq, Bool.false_eq_true, false_iff]
      exact fun e => this e.symm
    | jac Q =>
      simp only [ptEq]
      rw [pjEq_iff hH (other := .infinity) (h := 0) hB rfl, eq_comm]

/-- **`== INFINITY`** -/
theorem ptIsInf_iff {A : Pt} {g} (hA : PtRep p a b H A g) : ptIsInf A = true ↔ g = 0 := by
  cases A with
  | infinity => simp only [PtRep] at hA; simp [ptIsInf, hA]
  | jac P =>
    simp only [ptIsInf, pjEqInf_false hA, Bool.false_eq_true, false_iff]
    exact good_ne_zero hA.2.2
  | aff P =>
    simp only [ptIsInf, Bool.false_eq_true, false_iff]
    exact AffRep.ne_zero hA

/-- unary minus on ANY point value, the identity included (`-INFINITY` is INFINITY: fix F12) -/
theorem ptNeg_correct (hH : NoOrder2 H) {A : Pt} {g} (hA : PtRep p a b H A g) :
    ∃ R, ptNeg A = .ok R ∧ PtRep p a b H R (-g) := by
  cases A with
  | infinity =>
    have : g = 0 := hA
    exact ⟨.infinity, rfl, by simp [PtRep, this]⟩
  | jac P => exact ⟨.jac (pjNeg P), rfl, pjNeg_correct hA⟩
  | aff Q =>
    obtain ⟨N, e, hN, _⟩ := affNeg_correct hH hA
    exact ⟨.aff N, by simp [ptNeg, e], hN⟩

end Jac
