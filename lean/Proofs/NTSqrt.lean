import Model.NumberTheory
import Proofs.NTPow
import Proofs.NTJacobi
import Mathlib.NumberTheory.LegendreSymbol.QuadraticReciprocity
/-! `square_root_mod_prime` outside the p ≡ 1 (mod 8) branch (C15) -/
namespace NTProofs
open NT NumberTheorySymbols

variable {p : ℕ} [hp : Fact p.Prime]

theorem cast_powMod (a : Int) (e : Nat) : ((powMod a e p : Int) : ZMod p) = (a : ZMod p) ^ e := by
  rw [powMod_eq _ _ _ (by exact_mod_cast hp.out.pos), ZMod.intCast_mod, Int.cast_pow]

theorem powMod_range (a : Int) (e : Nat) : 0 ≤ powMod a e p ∧ powMod a e p < p := by
  have hp0 : (0 : Int) < p := by exact_mod_cast hp.out.pos
  rw [powMod_eq _ _ _ hp0]
  exact ⟨Int.emod_nonneg _ (by omega), Int.emod_lt_of_pos _ hp0⟩

/-- an integer in `[0, p)` is determined by its class -/
theorem eq_of_cast_eq {x y : Int} (hx0 : 0 ≤ x) (hx1 : x < p) (hy0 : 0 ≤ y) (hy1 : y < p)
    (h : (x : ZMod p) = (y : ZMod p)) : x = y := by
  have := (ZMod.intCast_eq_intCast_iff' x y p).mp h
  rwa [Int.emod_eq_of_lt hx0 hx1, Int.emod_eq_of_lt hy0 hy1] at this

theorem cast_ne_zero {a : Int} (h0 : 0 < a) (h1 : a < p) : (a : ZMod p) ≠ 0 := by
  intro h
  have := (ZMod.intCast_zmod_eq_zero_iff_dvd a p).mp h
  have := Int.le_of_dvd h0 this
  omega

/-- the Jacobi test of the code, for a prime modulus -/
theorem jacobi_prime (hp2 : p ≠ 2) (a : Int) : jacobi a p = .ok (legendreSym p a) := by
  have h3 : 3 ≤ p := by have := hp.out.two_le; omega
  have hodd : p % 2 = 1 := hp.out.eq_two_or_odd.resolve_left hp2
  rw [jacobi_eq a p h3 hodd, jacobiSym.legendreSym.to_jacobiSym]

/-- the first lines of `square_root_mod_prime` for `0 < a < p`, `p` an odd prime -/
theorem sqrt_unfold (hp2 : p ≠ 2) (a : Int) (h0 : 0 < a) (h1 : a < p) :
    squareRootModPrime a p =
      if legendreSym p a = -1 then .error .squareRoot
      else if (p : Int) % 4 = 3 then .ok (powMod a (((p : Int) + 1) / 4).toNat p)
      else if (p : Int) % 8 = 5 then
        (let d := powMod a (((p : Int) - 1) / 4).toNat p
         if d = 1 then .ok (powMod a (((p : Int) + 3) / 8).toNat p)
         else if d = p - 1 then .ok ((2 * a * powMod (4 * a) (((p : Int) - 5) / 8).toNat p) % p)
         else .error .runtimeError)
      else sqrtSearch a p ((p : Int) - 2).toNat 2 := by
  have h2 := hp.out.two_le
  have hp0 : (0 : Int) < p := by omega
  unfold squareRootModPrime
  have c1 : (0 ≤ a ∧ a < (p : Int)) := ⟨by omega, h1⟩
  have c2 : (1 : Int) < p := by omega
  have c3 : ¬ a = 0 := by omega
  have c4 : ¬ ((p : Int) = 2) := by omega
  simp only [c1, c2, c3, c4, and_self, not_true_eq_false, ↓reduceIte, jacobi_prime hp2, bind, Except.bind,
    pmod_eq_emod (show (0 : Int) < 4 by decide), pmod_eq_emod (show (0 : Int) < 8 by decide), pmod_eq_emod hp0,
    pdiv_eq_ediv (show (0 : Int) < 4 by decide), pdiv_eq_ediv (show (0 : Int) < 8 by decide)]

theorem sqrt_nonresidue' (hp2 : p ≠ 2) (a : Int) (h0 : 0 < a) (h1 : a < p) (hn : ¬ IsSquare (a : ZMod p)) :
    squareRootModPrime a p = .error .squareRoot := by
  rw [sqrt_unfold hp2 a h0 h1, if_pos (legendreSym.eq_neg_one_iff p |>.mpr hn)]

theorem euler_one {a : Int} (h0 : 0 < a) (h1 : a < p) (hs : IsSquare (a : ZMod p)) : (a : ZMod p) ^ (p / 2) = 1 :=
  (ZMod.euler_criterion p (cast_ne_zero h0 h1)).mp hs

theorem leg_ne {a : Int} (hs : IsSquare (a : ZMod p)) : ¬ legendreSym p a = -1 := by
  intro h; exact (legendreSym.eq_neg_one_iff p).mp h hs

theorem sqrt_3mod4' (h34 : p % 4 = 3) (a : Int) (h0 : 0 < a) (h1 : a < p) (hs : IsSquare (a : ZMod p)) :
    ∃ r, squareRootModPrime a p = .ok r ∧ 0 ≤ r ∧ r < p ∧ (r * r) % p = a % p := by
  have hp2 : p ≠ 2 := by omega
  rw [sqrt_unfold hp2 a h0 h1, if_neg (leg_ne hs), if_pos (by omega)]
  refine ⟨_, rfl, (powMod_range a _).1, (powMod_range a _).2, ?_⟩
  rw [← ZMod.intCast_eq_intCast_iff', Int.cast_mul, cast_powMod]
  have hE := euler_one h0 h1 hs
  obtain ⟨k, hk⟩ : ∃ k, p = 4 * k + 3 := ⟨p / 4, by omega⟩
  have e1 : (((p : Int) + 1) / 4).toNat = k + 1 := by omega
  have e2 : p / 2 = 2 * k + 1 := by omega
  rw [e1]; rw [e2] at hE
  calc (a : ZMod p) ^ (k + 1) * (a : ZMod p) ^ (k + 1) = (a : ZMod p) * (a : ZMod p) ^ (2 * k + 1) := by ring
    _ = a := by rw [hE, mul_one]

theorem two_pow_half (h58 : p % 8 = 5) : (2 : ZMod p) ^ (p / 2) = -1 := by
  have hp2 : p ≠ 2 := by omega
  have h2ne : (2 : ZMod p) ≠ 0 := by
    have := cast_ne_zero (p := p) (a := 2) (by decide) (by have := hp.out.two_le; omega)
    simpa using this
  have hns : ¬ IsSquare (2 : ZMod p) := by
    rw [ZMod.exists_sq_eq_two_iff hp2]; omega
  rcases ZMod.pow_div_two_eq_neg_one_or_one p h2ne with h | h
  · exact absurd ((ZMod.euler_criterion p h2ne).mpr h) hns
  · exact h

theorem sqrt_5mod8' (h58 : p % 8 = 5) (a : Int) (h0 : 0 < a) (h1 : a < p) (hs : IsSquare (a : ZMod p)) :
    ∃ r, squareRootModPrime a p = .ok r ∧ 0 ≤ r ∧ r < p ∧ (r * r) % p = a % p := by
  have hp2 : p ≠ 2 := by omega
  have hp0 : (0 : Int) < p := by have := hp.out.pos; omega
  rw [sqrt_unfold hp2 a h0 h1, if_neg (leg_ne hs), if_neg (by omega), if_pos (by omega)]
  have hE := euler_one h0 h1 hs
  obtain ⟨k, hk⟩ : ∃ k, p = 8 * k + 5 := ⟨p / 8, by omega⟩
  have e1 : (((p : Int) - 1) / 4).toNat = 2 * k + 1 := by omega
  have e2 : p / 2 = 4 * k + 2 := by omega
  have e3 : (((p : Int) + 3) / 8).toNat = k + 1 := by omega
  have e4 : (((p : Int) - 5) / 8).toNat = k := by omega
  rw [e1, e3, e4]
  rw [e2] at hE
  have h2 := two_pow_half h58
  rw [e2] at h2
  set x : ZMod p := (a : ZMod p) with hx
  -- d² = 1
  have hd : (x ^ (2 * k + 1)) * (x ^ (2 * k + 1)) = 1 := by
    calc x ^ (2 * k + 1) * x ^ (2 * k + 1) = x ^ (4 * k + 2) := by ring
      _ = 1 := hE
  have hdr := powMod_range (p := p) a (2 * k + 1)
  simp only []
  rcases mul_self_eq_one_iff.mp hd with hd1 | hd1
  · -- d = 1
    have hdI : powMod a (2 * k + 1) p = 1 := by
      apply eq_of_cast_eq hdr.1 hdr.2 (by decide) (by omega)
      rw [cast_powMod, ← hx, hd1]; simp
    rw [if_pos hdI]
    refine ⟨_, rfl, (powMod_range a _).1, (powMod_range a _).2, ?_⟩
    rw [← ZMod.intCast_eq_intCast_iff', Int.cast_mul, cast_powMod, ← hx]
    calc x ^ (k + 1) * x ^ (k + 1) = x * x ^ (2 * k + 1) := by ring
      _ = x := by rw [hd1, mul_one]
  · -- d = -1
    have hdI : powMod a (2 * k + 1) p = p - 1 := by
      apply eq_of_cast_eq hdr.1 hdr.2 (by omega) (by omega)
      rw [cast_powMod, ← hx, hd1]; simp
    rw [if_neg (by omega), if_pos hdI]
    refine ⟨_, rfl, Int.emod_nonneg _ (by omega), Int.emod_lt_of_pos _ hp0, ?_⟩
    rw [← ZMod.intCast_eq_intCast_iff', Int.cast_mul, ZMod.intCast_mod, Int.cast_mul, Int.cast_mul, cast_powMod,
      Int.cast_mul, ← hx]
    simp only [Int.cast_ofNat]
    calc 2 * x * (4 * x) ^ k * (2 * x * (4 * x) ^ k) = x * ((2 : ZMod p) ^ (4 * k + 2) * x ^ (2 * k + 1)) := by
          have h4 : (4 : ZMod p) = 2 ^ 2 := by norm_num
          have h4x : (4 * x) ^ k = (2 : ZMod p) ^ (2 * k) * x ^ k := by rw [mul_pow, h4, ← pow_mul]
          rw [h4x]; ring
      _ = x := by rw [h2, hd1]; ring

end NTProofs
