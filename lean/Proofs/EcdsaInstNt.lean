import Proofs.EcdsaRecoverBase
import Props.C15
/-!
# Proofs.EcdsaInstNt — the model of `numbertheory.square_root_mod_prime` (C15) satisfies what recovery needs
-/
namespace Ecdsa

/-- `SqrtSpec` for `NT.squareRootModPrime` and every odd prime (from `C15.sqrt_spec`) -/
theorem sqrtSpec_nt (p : ℕ) (hp : p.Prime) (hp2 : p ≠ 2) : SqrtSpec NT.squareRootModPrime (p : ℤ) := by
  intro a h0 h1 ⟨y, hy⟩
  have hsq : IsSquare ((a : ℤ) : ZMod p) := by
    refine ⟨(y : ZMod p), ?_⟩
    have : ((y * y - a : ℤ) : ZMod p) = 0 := by
      rw [ZMod.intCast_zmod_eq_zero_iff_dvd]
      exact Int.dvd_of_emod_eq_zero hy
    push_cast at this
    exact (sub_eq_zero.mp this).symm
  obtain ⟨r, hr, r0, r1, hrr⟩ := (C15.sqrt_spec p hp hp2 a h0 h1).1 hsq
  refine ⟨r, hr, r0, r1, ?_⟩
  rw [emod_zero_iff_modEq]
  exact hrr

end Ecdsa
