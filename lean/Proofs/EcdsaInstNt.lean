import Proofs.EcdsaRecoverBase
import Props.C15
/-!
# Proofs.EcdsaInstNt — the model of `numbertheory.square_root_mod_prime` (C15) satisfies what recovery needs
-/
namespace Ecdsa

/-- `SqrtSpec` for `NT.squareRootModPrime` and every odd prime (from `C15.sqrt_spec`) -/
theorem sqrtSpec_nt (p : ℕ) (hp : p.Prime) (hp2 : p ≠ 2) : SqrtSpec NT.squareRootModPrime (p : ℤ) := by
  intro a h0 h1 ⟨y, hy⟩
  have hsq : IsSquare ((a : ℤ) : ZMod p) := by
    refine ⟨(y : ZMod p), ?_⟩
    have : ((y * y - a : ℤ) : ZMod p) = 0 := by
      rw [ZMod.intCast_zmod_eq_zero_iff_dvd]
      exact Int.dvd_of_emod_eq_zero hy
    push_cast at this
    exact (sub_eq_zero.mp this).symm
  obtain ⟨r, hr, r0, r1, hrr⟩ := (C15.sqrt_spec p hp hp2 a h0 h1).1 hsq
  refine ⟨r, hr, r0, r1, ?_⟩
  rw [emod_zero_iff_modEq]
  exact hrr

end Ecdsa

namespace Ecdsa

/-- the hand-written `Ecdsa.inverseMod` (used by the ECDSA model) returns exactly what the model of
`numbertheory.inverse_mod` whose text is regenerated from the source (`NT.inverseMod`, C15) returns — every `a`,
every positive modulus, success and `ValueError` alike -/
theorem inverseMod_eq_nt (a m : ℤ) (hm : 1 ≤ m) : inverseMod a m = NT.inverseMod a m := by
  by_cases ha : a = 0
  · subst ha; rw [inverseMod_zero, (C15.inverse_mod_other_inputs 0 m).1]
  by_cases hg : Int.gcd a m = 1
  · obtain ⟨c, hc, c0, c1, hcm⟩ := inverseMod_ok a m (by omega) ha hg
    obtain ⟨i, hi, i0, i1, him⟩ := C15.inverse_mod_spec a m hm hg
    rw [hc, hi]
    congr 1
    have h1 : a * c ≡ a * i [ZMOD m] := hcm.trans (show a * i ≡ 1 [ZMOD m] from him).symm
    -- cancel the invertible a
    have h2 : c * (a * c) ≡ c * (a * i) [ZMOD m] := h1.mul_left c
    have h3 : c * (a * c) ≡ c [ZMOD m] := by
      have := hcm.mul_left c; rwa [mul_one] at this
    have h4 : c * (a * i) ≡ i [ZMOD m] := by
      have : c * (a * i) = (a * c) * i := by ring
      rw [this]; have := hcm.mul_right i; rwa [one_mul] at this
    have h5 : c ≡ i [ZMOD m] := h3.symm.trans (h2.trans h4)
    have h6 : c % m = i % m := h5
    rwa [Int.emod_eq_of_lt c0 c1, Int.emod_eq_of_lt i0 i1] at h6
  · rw [inverseMod_err a m (by omega) ha hg, ((C15.inverse_mod_other_inputs a m).2.2.1 ha (by omega) hg)]

end Ecdsa
