import Proofs.NTSmallCheck
/-! kernel evaluation of `is_prime` (40 rounds) against trial division on [38656, 39936) — chunk 27 of 48 of the range (4096, 65536) -/
namespace NTSmall
set_option maxRecDepth 1000000 in
theorem goodC_27 : GoodC 38656 39936 := goodC_of_agree (by decide +kernel)
end NTSmall
