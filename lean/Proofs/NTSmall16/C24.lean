import Proofs.NTSmallCheck
/-! kernel evaluation of `is_prime` (40 rounds) against trial division on [34816, 36096) — chunk 24 of 48 of the range (4096, 65536) -/
namespace NTSmall
set_option maxRecDepth 1000000 in
theorem goodC_24 : GoodC 34816 36096 := goodC_of_agree (by decide +kernel)
end NTSmall
