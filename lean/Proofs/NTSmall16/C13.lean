import Proofs.NTSmallCheck
/-! kernel evaluation of `is_prime` (40 rounds) against trial division on [20736, 22016) — chunk 13 of 48 of the range (4096, 65536) -/
namespace NTSmall
set_option maxRecDepth 1000000 in
theorem goodC_13 : GoodC 20736 22016 := goodC_of_agree (by decide +kernel)
end NTSmall
