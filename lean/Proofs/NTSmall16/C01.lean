import Proofs.NTSmallCheck
/-! kernel evaluation of `is_prime` (40 rounds) against trial division on [5376, 6656) — chunk 1 of 48 of the range (4096, 65536) -/
namespace NTSmall
set_option maxRecDepth 1000000 in
theorem goodC_01 : GoodC 5376 6656 := goodC_of_agree (by decide +kernel)
end NTSmall
