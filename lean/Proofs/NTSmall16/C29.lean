import Proofs.NTSmallCheck
/-! kernel evaluation of `is_prime` (40 rounds) against trial division on [41216, 42496) — chunk 29 of 48 of the range (4096, 65536) -/
namespace NTSmall
set_option maxRecDepth 1000000 in
theorem goodC_29 : GoodC 41216 42496 := goodC_of_agree (by decide +kernel)
end NTSmall
