import Proofs.NTSmallCheck
/-! kernel evaluation of `is_prime` (40 rounds) against trial division on [13056, 14336) — chunk 7 of 48 of the range (4096, 65536) -/
namespace NTSmall
set_option maxRecDepth 1000000 in
theorem goodC_07 : GoodC 13056 14336 := goodC_of_agree (by decide +kernel)
end NTSmall
