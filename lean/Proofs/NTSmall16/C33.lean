import Proofs.NTSmallCheck
/-! kernel evaluation of `is_prime` (40 rounds) against trial division on [46336, 47616) — chunk 33 of 48 of the range (4096, 65536) -/
namespace NTSmall
set_option maxRecDepth 1000000 in
theorem goodC_33 : GoodC 46336 47616 := goodC_of_agree (by decide +kernel)
end NTSmall
