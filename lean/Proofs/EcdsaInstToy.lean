import Proofs.EcdsaInstCurve
/-!
# Proofs.EcdsaInstToy — `Matches` is satisfiable: y² = x³ + x + 6 over 𝔽₁₁, G = (2, 7), n = 13 (non-vacuity of the
ECDSA theorems instantiated at the model of the real point classes)
-/
namespace Ecdsa.OnCurve
open Curve Jac GroupInterface WeierstrassCurve

/-- the toy curve as the driver receives it: `11,1,6,2,7,13,1,j` -/
def toyCrv : Affine.Crv := ⟨11, 1, 6, 2, 7, 13, 1, true⟩

theorem toy_matches : ∃ C : Ctx 11 1 6, Matches toyCrv C := by
  obtain ⟨g, hg⟩ := toyG_rep
  have hnone : ∀ n, truthy toyG.order = some n → n • g = 0 := by intro n hn; simp [toyG, truthy] at hn
  obtain ⟨R, e, hR⟩ := pjMul_naf_correct (by decide) toy_n2t hg rfl hnone 13
  have e13 : pjMul toyG 13 = .ok .infinity := by
    have n13 : naf 13 = [1, 0, -1, 0, 1] := by
      simp [Naf.naf_of_ne_zero, Naf.naf_zero, nafStep, pmod, pdiv]
    simp only [pjMul, pjMulWith, n13, toyG, truthy, maybePrecompute]
    decide
  change pjMul toyG 13 = _ at e
  rw [e13] at e; cases e
  let C : Ctx 11 1 6 := ⟨g, 13, hR, by decide, by decide⟩
  refine ⟨C, ⟨by decide, rfl, rfl, rfl, rfl, by decide, rfl, ?_⟩⟩
  obtain ⟨h1, h2, h3⟩ := hg
  exact ⟨h1, h2, ⟨C.G_mem, h3.2⟩⟩

end Ecdsa.OnCurve
