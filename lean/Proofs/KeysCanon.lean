import Proofs.KeysRoundTrip
/-!
# Proofs.KeysCanon — an accepted point string is one of the four outputs of `to_string` for the accepted key
(one accepted byte string per key and form: `to_string ∘ from_string = id` on accepted inputs)
-/
namespace KeysP
open Keys

theorem take1_cons {s : Bytes} {a : UInt8} (h : s.take 1 = [a]) : s = a :: s.drop 1 := by
  cases s with
  | nil => simp at h
  | cons b t => simp at h; subst h; simp

theorem split_fixed (l : Nat) (t : Bytes) (h : t.length = 2 * l) :
    beFixed l (beVal (t.take l)) ++ beFixed l (beVal (t.drop l)) = t := by
  have h1 : (t.take l).length = l := by rw [List.length_take]; omega
  have h2 : (t.drop l).length = l := by rw [List.length_drop]; omega
  have e1 := beFixed_beVal (t.take l)
  have e2 := beFixed_beVal (t.drop l)
  rw [h1] at e1; rw [h2] at e2
  rw [e1, e2, List.take_append_drop]

/-- `from_string` accepts only byte strings that `to_string` produces for the accepted key -/
theorem fromString_ok_bytes (E : Ext) (c : Curve) (hpr : c.p.Prime) (hodd : c.p % 2 = 1) (hn : c.n ≠ 0)
    (hs : SqrtSpec E.sqrtModP c.p) (s : Bytes) (k : VK) (h : VK.fromString E c s true = .ok k) :
    ∃ enc, s = encBytes k enc := by
  obtain ⟨hc, henc, _⟩ := (fromString_ok_iff E c hpr hodd hn hs s k).mp h
  subst hc
  rcases henc with ⟨hl, hx, hy⟩ | ⟨hl, h4, hx, hy⟩ | ⟨hl, hpar, hx, hy⟩ | ⟨hl, _, hpar, hx⟩
  · refine ⟨.raw, ?_⟩
    simp only [encBytes]; rw [hx, hy, split_fixed _ _ hl]
  · refine ⟨.uncompressed, ?_⟩
    have hd : (s.drop 1).length = 2 * Util.orderlen k.curve.p := by rw [List.length_drop]; omega
    simp only [encBytes]; rw [hx, hy, split_fixed _ _ hd]
    exact take1_cons h4
  · refine ⟨.hybrid, ?_⟩
    have hd : (s.drop 1).length = 2 * Util.orderlen k.curve.p := by rw [List.length_drop]; omega
    simp only [encBytes]
    rcases hpar with ⟨h6, hev⟩ | ⟨h7, hod⟩
    · rw [if_neg (by omega), hx, hy, split_fixed _ _ hd]; exact take1_cons h6
    · rw [if_pos hod, hx, hy, split_fixed _ _ hd]; exact take1_cons h7
  · refine ⟨.compressed, ?_⟩
    have hd : (s.drop 1).length = Util.orderlen k.curve.p := by rw [List.length_drop]; omega
    have e := beFixed_beVal (s.drop 1)
    rw [hd] at e
    simp only [encBytes]
    rcases hpar with ⟨h2, hev⟩ | ⟨h3, hod⟩
    · rw [if_neg (by omega), hx, e]; exact take1_cons h2
    · rw [if_pos hod, hx, e]; exact take1_cons h3

end KeysP
