import Model.Der
/-!
# Proofs.DerDigits — big-endian base-256 digit strings without a leading zero are in bijection with ℕ
(`beVal` / `beMin` / `beFixed` of `Model/Basic.lean`), plus the byte-mask bank (exhaustive over the 256 bytes).
Core Lean only.
-/
namespace Der

/-- decidable equality on results, for the concrete (non-vacuity) examples -/
instance decEqExcept {ε α : Type} [DecidableEq ε] [DecidableEq α] : DecidableEq (Except ε α)
  | .ok a, .ok b => if h : a = b then isTrue (by rw [h]) else isFalse (by intro hc; cases hc; exact h rfl)
  | .error a, .error b => if h : a = b then isTrue (by rw [h]) else isFalse (by intro hc; cases hc; exact h rfl)
  | .ok _, .error _ => isFalse (by intro h; cases h)
  | .error _, .ok _ => isFalse (by intro h; cases h)

/-! ## exhaustive byte lemmas -/

theorem forall_u8 (P : UInt8 → Prop) (h : ∀ n : Fin 256, P (UInt8.ofNat n.val)) : ∀ b : UInt8, P b := by
  intro b
  have := h ⟨b.toNat, UInt8.toNat_lt b⟩
  simpa using this

theorem u8_toNat_lt (b : UInt8) : b.toNat < 256 := UInt8.toNat_lt_size b

theorem u8_ofNat_toNat (n : Nat) (h : n < 256) : (UInt8.ofNat n).toNat = n := UInt8.toNat_ofNat_of_lt' h

theorem u8_eq_of_toNat {a b : UInt8} (h : a.toNat = b.toNat) : a = b := UInt8.toNat_inj.mp h

theorem u8_ofNat_inj {a b : Nat} (ha : a < 256) (hb : b < 256) (h : UInt8.ofNat a = UInt8.ofNat b) : a = b := by
  have := congrArg UInt8.toNat h
  rwa [u8_ofNat_toNat a ha, u8_ofNat_toNat b hb] at this

/-- short-form length byte: top bit clear -/
theorem u8_short : ∀ b : UInt8, b &&& 0x80 = 0 →
    (b &&& 0x7f).toNat < 128 ∧ UInt8.ofNat (b &&& 0x7f).toNat = b ∧ (b &&& 0x7f) = b ∧ b.toNat < 128 := by
  apply forall_u8; decide +kernel

theorem u8_lt128 : ∀ b : UInt8, b.toNat < 128 → b &&& 0x80 = 0 := by
  apply forall_u8; decide +kernel

/-- long-form first byte: top bit set -/
theorem u8_long : ∀ b : UInt8, b &&& 0x80 ≠ 0 →
    (b &&& 0x7f).toNat < 128 ∧ UInt8.ofNat (0x80 ||| (b &&& 0x7f).toNat) = b ∧ 128 ≤ b.toNat := by
  apply forall_u8; decide +kernel

theorem u8_long_of_lt : ∀ k : Fin 128, (UInt8.ofNat (0x80 ||| k.val)) &&& 0x80 ≠ 0
    ∧ ((UInt8.ofNat (0x80 ||| k.val)) &&& 0x7f).toNat = k.val := by
  decide +kernel

theorem u8_lt_iff (a b : UInt8) : a < b ↔ a.toNat < b.toNat := UInt8.lt_iff_toNat_lt

theorem u8_le_iff (a b : UInt8) : a ≤ b ↔ a.toNat ≤ b.toNat := UInt8.le_iff_toNat_le

theorem u8_eq_zero_iff (a : UInt8) : a = 0 ↔ a.toNat = 0 := by
  constructor
  · intro h; subst h; rfl
  · intro h; exact u8_eq_of_toNat (by simpa using h)

/-! ## `beVal` -/

theorem beVal_nil : beVal [] = 0 := rfl

theorem beVal_foldl (s : Bytes) (a : Nat) :
    s.foldl (fun acc b => acc * 256 + b.toNat) a = a * 256 ^ s.length + beVal s := by
  induction s generalizing a with
  | nil => simp [beVal]
  | cons b t ih =>
    simp only [List.foldl_cons, List.length_cons, beVal]
    rw [ih, ih (0 * 256 + b.toNat)]
    simp only [Nat.pow_succ, Nat.zero_mul, Nat.zero_add, Nat.add_mul, Nat.mul_assoc, Nat.add_assoc]
    rw [Nat.mul_comm 256]

theorem beVal_cons (b : UInt8) (s : Bytes) : beVal (b :: s) = b.toNat * 256 ^ s.length + beVal s := by
  have := beVal_foldl s (0 * 256 + b.toNat)
  simp only [beVal, List.foldl_cons]
  simpa [beVal] using this

theorem beVal_append (a b : Bytes) : beVal (a ++ b) = beVal a * 256 ^ b.length + beVal b := by
  simp only [beVal, List.foldl_append]
  exact beVal_foldl b _

theorem beVal_snoc (s : Bytes) (b : UInt8) : beVal (s ++ [b]) = beVal s * 256 + b.toNat := by
  rw [beVal_append]; simp [beVal_cons, beVal_nil]

theorem beVal_singleton (b : UInt8) : beVal [b] = b.toNat := by
  simp [beVal_cons, beVal_nil]

theorem beVal_lt (s : Bytes) : beVal s < 256 ^ s.length := by
  induction s with
  | nil => simp [beVal_nil]
  | cons b t ih =>
    rw [beVal_cons, List.length_cons, Nat.pow_succ]
    have := u8_toNat_lt b
    have h1 : b.toNat * 256 ^ t.length ≤ 255 * 256 ^ t.length := Nat.mul_le_mul_right _ (by omega)
    omega

/-- a non-zero leading byte makes the value at least `256^(len-1)` -/
theorem beVal_ge (b : UInt8) (t : Bytes) (hb : b ≠ 0) : 256 ^ t.length ≤ beVal (b :: t) := by
  rw [beVal_cons]
  have : 1 ≤ b.toNat := by
    have : b.toNat ≠ 0 := fun h => hb ((u8_eq_zero_iff b).mpr h)
    omega
  have := Nat.mul_le_mul_right (256 ^ t.length) this
  omega

theorem beVal_pos (b : UInt8) (t : Bytes) (hb : b ≠ 0) : 0 < beVal (b :: t) :=
  Nat.lt_of_lt_of_le (Nat.pow_pos (by decide)) (beVal_ge b t hb)

/-- "no leading zero byte" -/
def NoLead0 (s : Bytes) : Prop := ∀ b t, s = b :: t → b ≠ 0

/-! ## `beMin` -/

theorem beMin_zero : beMin 0 = [] := by rw [beMin]

theorem beMin_pos (n : Nat) (h : 0 < n) : beMin n = beMin (n / 256) ++ [UInt8.ofNat (n % 256)] := by
  cases n with
  | zero => omega
  | succ n => rw [beMin]

theorem beVal_beMin (n : Nat) : beVal (beMin n) = n := by
  induction n using beMin.induct with
  | case1 => simp [beMin_zero, beVal_nil]
  | case2 n ih =>
    rw [beMin_pos (n+1) (by omega), beVal_snoc, ih, u8_ofNat_toNat _ (by omega)]; omega

theorem beMin_ne_nil (n : Nat) (h : 0 < n) : beMin n ≠ [] := by
  rw [beMin_pos n h]; simp

theorem beMin_noLead0 (n : Nat) : NoLead0 (beMin n) := by
  induction n using beMin.induct with
  | case1 => intro b t h; simp [beMin_zero] at h
  | case2 n ih =>
    intro b t h
    rw [beMin_pos (n+1) (by omega)] at h
    by_cases hq : (n + 1) / 256 = 0
    · rw [hq, beMin_zero] at h
      simp only [List.nil_append, List.cons.injEq] at h
      intro hb
      have h1 : UInt8.ofNat ((n + 1) % 256) = UInt8.ofNat 0 := by rw [h.1, hb]; rfl
      have := u8_ofNat_inj (by omega) (by omega) h1
      omega
    · have hne := beMin_ne_nil ((n+1)/256) (by omega)
      match hm : beMin ((n+1)/256), hne with
      | b' :: t', _ =>
        rw [hm] at h
        simp only [List.cons_append, List.cons.injEq] at h
        rw [← h.1]
        exact ih b' t' hm

theorem snoc_cases (s : Bytes) (h : s ≠ []) : ∃ init last, s = init ++ [last] :=
  ⟨s.dropLast, s.getLast h, (List.dropLast_concat_getLast h).symm⟩

theorem noLead0_init (init : Bytes) (last : UInt8) (h : NoLead0 (init ++ [last])) : NoLead0 init := by
  intro b t hb
  subst hb
  exact h b (t ++ [last]) (by simp)

/-- uniqueness: a string without a leading zero is the minimal encoding of its value -/
theorem beMin_beVal (s : Bytes) (h : NoLead0 s) : beMin (beVal s) = s := by
  generalize hn : beVal s = n
  induction n using beMin.induct generalizing s with
  | case1 =>
    cases s with
    | nil => exact beMin_zero
    | cons b t => have := beVal_pos b t (h b t rfl); omega
  | case2 n ih =>
    have hs : s ≠ [] := by intro h0; subst h0; simp [beVal_nil] at hn
    obtain ⟨init, last, rfl⟩ := snoc_cases s hs
    rw [beVal_snoc] at hn
    have hl := u8_toNat_lt last
    rw [beMin_pos (n+1) (by omega)]
    have h1 : beVal init = (n+1) / 256 := by omega
    have h2 : last.toNat = (n+1) % 256 := by omega
    rw [ih init (noLead0_init init last h) h1, ← h2, UInt8.ofNat_toNat]

theorem beMin_length_le (n k : Nat) (h : n < 256 ^ k) : (beMin n).length ≤ k := by
  induction n using beMin.induct generalizing k with
  | case1 => simp [beMin_zero]
  | case2 n ih =>
    rw [beMin_pos (n+1) (by omega)]; simp only [List.length_append, List.length_singleton]
    cases k with
    | zero => simp at h
    | succ k =>
      have : (n + 1) / 256 < 256 ^ k := by
        rw [Nat.div_lt_iff_lt_mul (by decide)]; rw [Nat.pow_succ] at h; omega
      have := ih k this; omega

/-- `len(beMin n) ≤ k ↔ n < 256^k` -/
theorem beMin_length_le_iff (n k : Nat) : (beMin n).length ≤ k ↔ n < 256 ^ k := by
  constructor
  · intro h
    have h1 := beVal_lt (beMin n)
    rw [beVal_beMin] at h1
    exact Nat.lt_of_lt_of_le h1 (Nat.pow_le_pow_right (by decide) h)
  · exact beMin_length_le n k

/-! ## `hexBytes` -/

theorem hexBytes_ne_nil (n : Nat) : hexBytes n ≠ [] := by
  unfold hexBytes; split
  · simp
  · exact beMin_ne_nil n (by omega)

theorem beVal_hexBytes (n : Nat) : beVal (hexBytes n) = n := by
  unfold hexBytes; split
  · subst_vars; rfl
  · exact beVal_beMin n

theorem hexBytes_pos (n : Nat) (h : 0 < n) : hexBytes n = beMin n := by
  unfold hexBytes; rw [if_neg (by omega)]

theorem hexBytes_length_le (n k : Nat) (hk : 0 < k) (h : n < 256 ^ k) : (hexBytes n).length ≤ k := by
  unfold hexBytes; split
  · simp; omega
  · exact beMin_length_le n k h

theorem hexBytes_length_le_iff (n k : Nat) (hk : 0 < k) : (hexBytes n).length ≤ k ↔ n < 256 ^ k := by
  constructor
  · intro h
    have h1 := beVal_lt (hexBytes n)
    rw [beVal_hexBytes] at h1
    exact Nat.lt_of_lt_of_le h1 (Nat.pow_le_pow_right (by decide) h)
  · exact hexBytes_length_le n k hk

/-- for `n > 0`: a non-empty string without a leading zero whose value is `n` is `hexBytes n` -/
theorem hexBytes_beVal (s : Bytes) (h : NoLead0 s) (hs : s ≠ []) : hexBytes (beVal s) = s := by
  match s, hs with
  | b :: t, _ =>
    have := beVal_pos b t (h b t rfl)
    rw [hexBytes_pos _ this, beMin_beVal _ h]

/-! ## `beFixed` -/

theorem beFixed_length (l n : Nat) : (beFixed l n).length = l := by
  induction l generalizing n with
  | zero => simp [beFixed]
  | succ l ih => simp [beFixed, ih]

theorem beVal_beFixed (l n : Nat) : beVal (beFixed l n) = n % 256 ^ l := by
  induction l generalizing n with
  | zero => simp [beFixed, beVal_nil, Nat.mod_one]
  | succ l ih =>
    rw [beFixed, beVal_snoc, ih, u8_ofNat_toNat _ (by omega), Nat.pow_succ]
    rw [Nat.mul_comm (256 ^ l) 256, Nat.mod_mul]
    omega

theorem beVal_beFixed_of_lt (l n : Nat) (h : n < 256 ^ l) : beVal (beFixed l n) = n := by
  rw [beVal_beFixed, Nat.mod_eq_of_lt h]

theorem beFixed_beVal (s : Bytes) : beFixed s.length (beVal s) = s := by
  generalize hl : s.length = l
  induction l generalizing s with
  | zero => simp [beFixed, List.length_eq_zero_iff.mp hl]
  | succ l ih =>
    have hs : s ≠ [] := by intro h0; subst h0; simp at hl
    obtain ⟨init, last, rfl⟩ := snoc_cases s hs
    simp only [List.length_append, List.length_singleton, Nat.add_right_cancel_iff] at hl
    have hb := u8_toNat_lt last
    rw [beFixed, beVal_snoc]
    have h1 : (beVal init * 256 + last.toNat) / 256 = beVal init := by omega
    have h2 : (beVal init * 256 + last.toNat) % 256 = last.toNat := by omega
    rw [h1, h2, ih init hl, UInt8.ofNat_toNat]

end Der
