import Proofs.DerSpec
/-!
# Proofs.DerClasses — the rejection classes named by property C11, as universally quantified theorems about the
readers (not via the encoders): non-minimal / indefinite / truncated length fields, zero-length, negative and padded
INTEGERs, padded OID sub-identifiers, bad BIT STRING unused-bit octets and non-zero padding, truncated bodies, and
"the declared length never exceeds the bytes present".  TLV-shaped hypotheses use the independent `X690.IsTLV`.
-/
set_option linter.unusedSimpArgs false
namespace Der
open X690

/-! ### length fields -/

/-- long form `81 xx` for a length below 128 (short form exists) -/
theorem readLength_long_below_128 (b : UInt8) (rest : Bytes) (hb : b < 0x80) :
    readLength (0x81 :: b :: rest) = .error .unexpectedDER := by
  have h1 : (0x81 : UInt8) &&& 0x80 ≠ 0 := by decide
  have h2 : ((0x81 : UInt8) &&& 0x7f).toNat = 1 := by decide
  simp only [readLength, h1, if_false, h2, idx_one_cons, bind, Except.bind]
  simp [hb]

/-- long form with a leading zero length octet (any number of length octets) -/
theorem readLength_leading_zero (first : UInt8) (rest : Bytes) (h : first &&& 0x80 ≠ 0) :
    readLength (first :: 0 :: rest) = .error .unexpectedDER := by
  simp only [readLength, h, if_false, idx_one_cons, bind, Except.bind]
  split
  · rfl
  · split
    · rfl
    · simp

/-- the indefinite form `80` -/
theorem readLength_indefinite (rest : Bytes) : readLength (0x80 :: rest) = .error .unexpectedDER := by
  have h1 : (0x80 : UInt8) &&& 0x80 ≠ 0 := by decide
  have h2 : ((0x80 : UInt8) &&& 0x7f).toNat = 0 := by decide
  simp [readLength, h1, h2]

/-- fewer length octets than announced -/
theorem readLength_truncated (first : UInt8) (rest : Bytes) (h : first &&& 0x80 ≠ 0)
    (ht : rest.length < (first &&& 0x7f).toNat) : readLength (first :: rest) = .error .unexpectedDER := by
  simp only [readLength, h, if_false]
  split
  · rfl
  · simp [ht]

theorem readLength_empty : readLength [] = .error .unexpectedDER := rfl

/-! ### truncated bodies / declared length vs bytes present -/

/-- every TLV reader: a declared length that exceeds the bytes present is refused -/
theorem truncated_body (t : UInt8) (s' : Bytes) (l k : Nat) (hr : readLength ((t :: s').drop 1) = .ok (l, k))
    (hlong : 1 + k + l > (t :: s').length) (expect : Unused) :
    removeInteger (t :: s') = .error .unexpectedDER ∧ removeOctetString (t :: s') = .error .unexpectedDER
    ∧ removeSequence (t :: s') = .error .unexpectedDER ∧ removeConstructed (t :: s') = .error .unexpectedDER
    ∧ removeObject (t :: s') = .error .unexpectedDER ∧ removeBitstring (t :: s') expect = .error .unexpectedDER := by
  have htl : tooLong l (t :: s') k = true := by
    rw [tooLong_iff]; simp only [List.length_cons] at hlong ⊢; omega
  refine ⟨?_, ?_, ?_, ?_, ?_, ?_⟩
  · unfold removeInteger; simp only [bind, Except.bind, hr, htl]; split <;> rfl
  · unfold removeOctetString tlvBody; simp only [bind, Except.bind, hr, htl]; split <;> rfl
  · unfold removeSequence tlvBody; simp only [bind, Except.bind, hr, htl]; split <;> rfl
  · unfold removeConstructed tlvBody; simp only [bind, Except.bind, hr, htl]; split <;> rfl
  · -- remove_object compares `len(body)` with the declared length instead
    have hr' := hr
    simp only [List.drop_succ_cons, List.drop_zero] at hr'
    obtain ⟨_, hk, r, hs⟩ := readLength_ok hr'
    subst hk hs
    simp only [List.length_cons, List.length_append] at hlong
    unfold removeObject
    simp only [bind, Except.bind, hr]
    rw [drop_hdr]
    have hlen : (r.take l).length ≠ l := by rw [List.length_take]; omega
    split
    · rfl
    · by_cases he : (r.take l).isEmpty
      · simp [he]
      · simp only [he, Bool.false_eq_true, if_false, ne_eq, hlen, not_false_eq_true, if_true]
  · unfold removeBitstring; simp only [bind, Except.bind, hr, htl]
    split
    · rfl
    · split <;> rfl

/-- what an accepted TLV looks like from the reader's side: the length field parses and `1 + k + l` bytes are present;
the value returned is the `l` bytes after the header and the remainder is everything after them -/
theorem tlv_present {tag : UInt8} {s body rest : Bytes} (hs : s = tag :: (encodeLength body.length ++ body ++ rest))
    (hl : body.length < 256 ^ 127) :
    ∃ l k, readLength (s.drop 1) = .ok (l, k) ∧ 1 + k + l ≤ s.length ∧ l = body.length
      ∧ body = (s.drop (1 + k)).take l ∧ rest = s.drop (1 + k + l) := by
  refine ⟨body.length, (encodeLength body.length).length, ?_, ?_, rfl, ?_, ?_⟩
  · rw [hs]; simp only [List.drop_succ_cons, List.drop_zero, List.append_assoc]
    exact readLength_encodeLength _ hl _
  · rw [hs]; simp only [List.length_cons, List.length_append]; omega
  · rw [hs, List.append_assoc, drop_hdr]; simp
  · rw [hs, List.append_assoc, drop_hdr_add]; simp

/-! ### INTEGER -/

theorem removeInteger_of_tlv {s body rest : Bytes} (h : IsTLV 127 0x02 s body rest) :
    removeInteger s = intCheck body rest := by
  obtain ⟨hs, hl⟩ := tlv_of_spec h
  rw [hs]; exact removeInteger_tlv body rest hl

/-- zero-length INTEGER -/
theorem removeInteger_empty_body {s rest : Bytes} (h : IsTLV 127 0x02 s [] rest) :
    removeInteger s = .error .unexpectedDER := by
  rw [removeInteger_of_tlv h]; rfl

/-- negative INTEGER: bit 8 of the first content octet set -/
theorem removeInteger_negative {s rest : Bytes} {b : UInt8} {t : Bytes} (h : IsTLV 127 0x02 s (b :: t) rest)
    (hb : ¬ b < 0x80) : removeInteger s = .error .unexpectedDER := by
  rw [removeInteger_of_tlv h]
  unfold intCheck
  cases t with
  | nil => simp [hb]
  | cons c t' => simp [hb]

/-- padded INTEGER: a leading `00` octet that is not needed as a sign octet -/
theorem removeInteger_padded {s rest : Bytes} {b : UInt8} {t : Bytes} (h : IsTLV 127 0x02 s (0 :: b :: t) rest)
    (hb : b < 0x80) : removeInteger s = .error .unexpectedDER := by
  rw [removeInteger_of_tlv h]
  unfold intCheck
  simp [hb]

/-- wrong identifier octet -/
theorem removeInteger_wrong_tag (t : UInt8) (s' : Bytes) (h : t ≠ 0x02) :
    removeInteger (t :: s') = .error .unexpectedDER := by
  unfold removeInteger; simp [h]

/-! ### OBJECT IDENTIFIER -/

/-- a padded sub-identifier (leading `0x80`) -/
theorem readNumber_padded (rest : Bytes) : readNumber (0x80 :: rest) = .error .unexpectedDER := by
  unfold readNumber; simp [idx, bind, Except.bind]

theorem loop_unterminated (s : Bytes) (acc k : Nat) (h : ∀ d ∈ s, d &&& 0x80 ≠ 0) :
    readNumberLoop s acc k = .error .unexpectedDER := by
  induction s generalizing acc k with
  | nil => rfl
  | cons c t ih =>
    have hc : c &&& 0x80 ≠ 0 := h c (by simp)
    simp only [readNumberLoop, hc, if_false]
    exact ih _ _ (fun d hd => h d (by simp [hd]))

/-- a sub-identifier that never ends (bit 8 set on every remaining octet) -/
theorem readNumber_unterminated (s : Bytes) (h : ∀ d ∈ s, d &&& 0x80 ≠ 0) :
    readNumber s = .error .unexpectedDER := by
  unfold readNumber
  cases s with
  | nil => rfl
  | cons b0 t =>
    simp only [List.isEmpty_cons, Bool.false_eq_true, if_false, idx_zero_cons, bind, Except.bind]
    split
    · rfl
    · exact loop_unterminated _ 0 0 h

theorem readNumbers_padded (ns : List Nat) (t : Bytes) (fuel : Nat) (hf : (encNums ns ++ 0x80 :: t).length ≤ fuel) :
    readNumbers fuel (encNums ns ++ 0x80 :: t) = .error .unexpectedDER := by
  induction ns generalizing fuel with
  | nil =>
    rw [encNums_nil, List.nil_append] at hf ⊢
    obtain ⟨f, rfl⟩ : ∃ f, fuel = f + 1 := ⟨fuel - 1, by simp at hf; omega⟩
    simp [readNumbers, readNumber_padded, bind, Except.bind]
  | cons n ns ih =>
    rw [encNums_cons, List.append_assoc] at hf ⊢
    have hpos := encodeNumber_length_pos n
    simp only [List.length_append] at hf
    obtain ⟨f, rfl⟩ : ∃ f, fuel = f + 1 := ⟨fuel - 1, by omega⟩
    have hne : (encodeNumber n ++ (encNums ns ++ 0x80 :: t)).isEmpty = false :=
      isEmpty_false_of_ne (by simp [encodeNumber_ne_nil n])
    simp only [readNumbers, hne, Bool.false_eq_true, if_false, readNumber_encode, bind, Except.bind,
      List.drop_left', ih f (by simp only [List.length_append]; omega)]

/-- an OID whose contents contain a padded sub-identifier, after any number of well-formed ones -/
theorem removeObject_padded_subid {s rest : Bytes} (ns : List Nat) (t : Bytes)
    (h : IsTLV 127 0x06 s (encNums ns ++ 0x80 :: t) rest) : removeObject s = .error .unexpectedDER := by
  obtain ⟨hs, hl⟩ := tlv_of_spec h
  rw [hs, removeObject_tlv _ rest hl]
  unfold objCheck
  have hne : (encNums ns ++ 0x80 :: t).isEmpty = false := isEmpty_false_of_ne (by simp)
  rw [hne, readNumbers_padded ns t _ (Nat.le_refl _)]
  rfl

/-- the same statement against the specification: the sub-identifiers before the padded one are any `IsSubIds` string -/
theorem removeObject_padded_subid_spec {s rest pre : Bytes} (ns : List Nat) (t : Bytes) (hpre : IsSubIds pre ns)
    (h : IsTLV 127 0x06 s (pre ++ 0x80 :: t) rest) : removeObject s = .error .unexpectedDER := by
  rw [(subIds_iff pre ns).mp hpre] at h
  exact removeObject_padded_subid ns t h

theorem removeObject_empty_body {s rest : Bytes} (h : IsTLV 127 0x06 s [] rest) :
    removeObject s = .error .unexpectedDER := by
  obtain ⟨hs, hl⟩ := tlv_of_spec h
  rw [hs, removeObject_tlv _ rest hl]; rfl

/-! ### BIT STRING -/

theorem removeBitstring_of_tlv {s body rest : Bytes} (expect : Unused) (h : IsTLV 127 0x03 s body rest) :
    removeBitstring s expect = if body.length = 0 then .error .unexpectedDER else bitsTail body rest expect := by
  obtain ⟨hs, hl⟩ := tlv_of_spec h
  rw [hs]; exact removeBitstring_tlv body rest expect hl

/-- more than 7 unused bits (`None` and integer conventions) -/
theorem removeBitstring_unused_gt_7 {s rest data : Bytes} {u : UInt8} (expect : Unused) (hx : expect ≠ .legacy)
    (h : IsTLV 127 0x03 s (u :: data) rest) (hu : 7 < u.toNat) : removeBitstring s expect = .error .unexpectedDER := by
  rw [removeBitstring_of_tlv expect h, if_neg (by simp)]
  cases expect with
  | legacy => exact absurd rfl hx
  | none => rw [bitsTail_none, if_pos (by omega)]
  | some k => rw [bitsTail_some, if_pos (by omega)]

/-- non-zero padding bits -/
theorem removeBitstring_nonzero_padding {s rest data : Bytes} {u last : UInt8} (expect : Unused) (hx : expect ≠ .legacy)
    (h : IsTLV 127 0x03 s (u :: data) rest) (hl : data.getLast? = some last)
    (hp : last.toNat % 2 ^ u.toNat ≠ 0) : removeBitstring s expect = .error .unexpectedDER := by
  rw [removeBitstring_of_tlv expect h, if_neg (by simp)]
  have hu0 : u.toNat ≠ 0 := by
    intro h0; rw [h0] at hp; simp [Nat.mod_one] at hp
  have hpad : bitsPadOK data u.toNat = false := by
    unfold bitsPadOK padBits
    simp [hu0, hl, Nat.and_two_pow_sub_one_eq_mod, hp]
  cases expect with
  | legacy => exact absurd rfl hx
  | none => rw [bitsTail_none]; split <;> simp [hpad]
  | some k =>
    rw [bitsTail_some]
    split
    · rfl
    · split <;> simp [hpad]

/-- unused bits announced for an empty bit string -/
theorem removeBitstring_unused_in_empty {s rest : Bytes} {u : UInt8} (expect : Unused) (hx : expect ≠ .legacy)
    (h : IsTLV 127 0x03 s [u] rest) (hu : u.toNat ≠ 0) : removeBitstring s expect = .error .unexpectedDER := by
  rw [removeBitstring_of_tlv expect h, if_neg (by simp)]
  have hpad : bitsPadOK [] u.toNat = false := by unfold bitsPadOK; simp [hu]
  cases expect with
  | legacy => exact absurd rfl hx
  | none => rw [bitsTail_none]; split <;> simp [hpad]
  | some k =>
    rw [bitsTail_some]
    split
    · rfl
    · split <;> simp [hpad]

/-- a number of unused bits other than the expected one -/
theorem removeBitstring_unexpected_unused {s rest data : Bytes} {u : UInt8} (k : Int)
    (h : IsTLV 127 0x03 s (u :: data) rest) (hk : k ≠ (u.toNat : Int)) :
    removeBitstring s (.some k) = .error .unexpectedDER := by
  rw [removeBitstring_of_tlv _ h, if_neg (by simp), bitsTail_some]
  split
  · rfl
  · simp [hk]

/-- zero-length BIT STRING, every convention -/
theorem removeBitstring_empty_body {s rest : Bytes} (expect : Unused) (h : IsTLV 127 0x03 s [] rest) :
    removeBitstring s expect = .error .unexpectedDER := by
  rw [removeBitstring_of_tlv expect h]; rfl

/-! ### encoders outside their domain -/

theorem u8_not_ctx : ∀ b : UInt8, ¬ (0xA0 ≤ b.toNat ∧ b.toNat ≤ 0xBF) → b &&& 0xE0 ≠ 0xA0 := by
  apply forall_u8; decide +kernel

/-- `encode_constructed` with a tag outside 0…31 either raises `struct.error` (outside −160…95) or produces an
identifier octet that `remove_constructed` refuses -/
theorem encodeConstructedPy_out_of_domain (tag : Int) (v : Bytes) (hl : v.length < 256 ^ 127)
    (h : ¬ (0 ≤ tag ∧ tag ≤ 31)) :
    (¬ (-160 ≤ tag ∧ tag ≤ 95) ∧ encodeConstructedPy tag v = .error .other)
    ∨ ((-160 ≤ tag ∧ tag ≤ 95) ∧ ∃ e, encodeConstructedPy tag v = .ok e
        ∧ ∀ rest, removeConstructed (e ++ rest) = .error .unexpectedDER) := by
  by_cases hr : -160 ≤ tag ∧ tag ≤ 95
  · right
    refine ⟨hr, ?_⟩
    have hb : int2byte (0xA0 + tag) = .ok (UInt8.ofNat (0xA0 + tag).toNat) := by
      unfold int2byte; rw [if_pos (by omega)]
    refine ⟨[UInt8.ofNat (0xA0 + tag).toNat] ++ encodeLength v.length ++ v, ?_, ?_⟩
    · unfold encodeConstructedPy
      simp only [bind, Except.bind, hb, encodeLengthPy_eq _ hl]
    · intro rest
      have hn : ¬ (0xA0 ≤ (UInt8.ofNat (0xA0 + tag).toNat).toNat ∧ (UInt8.ofNat (0xA0 + tag).toNat).toNat ≤ 0xBF) := by
        rw [u8_ofNat_toNat _ (by omega)]; omega
      have := u8_not_ctx _ hn
      unfold removeConstructed
      simp [this]
  · left
    refine ⟨hr, ?_⟩
    unfold encodeConstructedPy int2byte
    rw [if_neg (by omega)]; rfl

/-- `encode_oid` outside the domain of its `assert` (any integers) raises `AssertionError` -/
theorem encodeOidPy_out_of_domain (first second : Int) (pieces : List Nat)
    (h : ¬ ((0 ≤ first ∧ first < 2 ∧ 0 ≤ second ∧ second ≤ 39) ∨ (first = 2 ∧ 0 ≤ second))) :
    encodeOidPy first second pieces = .error .assertionError := by
  unfold encodeOidPy; rw [if_neg h]

end Der
