import Proofs.MulAll
import Proofs.GroupObj0
/-!
# Proofs.MulAdd0 — `*` and `mul_add` with identity-valued `PointJacobi` operands

The same proofs as Proofs/MulAdd.lean and Proofs/MulAll.lean, restated for `PJRep0` / `PtRep0` (a stored `PointJacobi`
may itself be the identity: Y = 0 or Z = 0).  The combined points of `mul_add` are then only known to have X and Z in
range (an identity operand is passed through with its unreduced `-Y`), which is all the loop needs.
An identity-valued object must not carry the generator flag: `_maybe_precompute` raises AttributeError on it
(`INFINITY.scale()`), in the code and in the model.
-/
namespace Jac
open WeierstrassCurve WeierstrassCurve.Jacobian Curve

variable {p : ℕ} [hp : Fact p.Prime] {a b : ℤ} {H : AddSubgroup (Grp (a : ZMod p) (b : ZMod p))}

/-- a combined point: represented, X and Z in [0, p) -/
def AccRepXZ (p : ℕ) [Fact p.Prime] (a b : ℤ) (H : AddSubgroup (Grp (a : ZMod p) (b : ZMod p)))
    (t : ℤ × ℤ × ℤ) (h : Grp (a : ZMod p) (b : ZMod p)) : Prop :=
  IRep p a b H t h ∧ InRange p t.1 ∧ InRange p t.2.2

/-- X and Z of the result of `_add` are in range as soon as X and Z of both operands are -/
theorem k_add_inRangeXZ {X1 Z1 X2 Z2 : ℤ} (Y1 Y2 a : ℤ) (hx1 : InRange p X1) (hz1 : InRange p Z1)
    (hx : InRange p X2) (hz : InRange p Z2) :
    InRange p (Gen.k_add X1 Y1 Z1 X2 Y2 Z2 p a).1 ∧ InRange p (Gen.k_add X1 Y1 Z1 X2 Y2 Z2 p a).2.2 := by
  have d1 := k_double_with_z_1_inRange (p := p)
  have d2 := k_double_inRange (p := p)
  unfold Gen.k_add
  split_ifs
  · exact ⟨hx, hz⟩
  · exact ⟨hx1, hz1⟩
  · unfold Gen.k_add_with_z_1; simp only []; split_ifs
    · exact ⟨(d1 _ _ _).1, (d1 _ _ _).2.2⟩
    · exact ⟨inRange_fmod _, inRange_fmod _⟩
  · unfold Gen.k_add_with_z_eq; simp only []; split_ifs
    · exact ⟨(d2 _ _ _ _).1, (d2 _ _ _ _).2.2⟩
    · exact ⟨inRange_fmod _, inRange_fmod _⟩
  · unfold Gen.k_add_with_z2_1; simp only []; split_ifs
    · exact ⟨(d1 _ _ _).1, (d1 _ _ _).2.2⟩
    · exact ⟨inRange_fmod _, inRange_fmod _⟩
  · unfold Gen.k_add_with_z2_1; simp only []; split_ifs
    · exact ⟨(d1 _ _ _).1, (d1 _ _ _).2.2⟩
    · exact ⟨inRange_fmod _, inRange_fmod _⟩
  · unfold Gen.k_add_with_z_ne; simp only []; split_ifs
    · exact ⟨(d2 _ _ _ _).1, (d2 _ _ _ _).2.2⟩
    · exact ⟨inRange_fmod _, inRange_fmod _⟩

theorem combo_rep0 (hp2 : p ≠ 2) (hH : NoOrder2 H) {X1 Y1 Z1 X2 Y2 Z2 : ℤ} {g h}
    (h1 : IRep p a b H (X1, Y1, Z1) g) (h2 : IRep p a b H (X2, Y2, Z2) h) (hx1 : InRange p X1)
    (hz1 : InRange p Z1) (hx : InRange p X2) (hz : InRange p Z2) :
    AccRepXZ p a b H (Gen.k_add X1 Y1 Z1 X2 Y2 Z2 p a) (g + h) :=
  ⟨k_add_correct hp2 hH h1 h2, k_add_inRangeXZ Y1 Y2 a hx1 hz1 hx hz⟩

theorem accRep_addXZ (hp2 : p ≠ 2) (hH : NoOrder2 H) {t : ℤ × ℤ × ℤ} {h} (ht : AccRep p a b H t h)
    {q : ℤ × ℤ × ℤ} {g} (hq : AccRepXZ p a b H q g) :
    AccRep p a b H (Gen.k_add t.1 t.2.1 t.2.2 q.1 q.2.1 q.2.2 p a) (h + g) :=
  accRep_add hp2 hH ht hq.1 hq.2.1 hq.2.2

/-- one iteration of the loop of `mul_add` -/
theorem mulAddStep_rep0 (hp2 : p ≠ 2) (hH : NoOrder2 H) {P1 P2 mAmB pAmB mApB pApB : ℤ × ℤ × ℤ} {g h}
    (h1 : IRep p a b H P1 g) (r1 : InRange p P1.1) (r1z : InRange p P1.2.2)
    (h2 : IRep p a b H P2 h) (r2 : InRange p P2.1) (r2z : InRange p P2.2.2)
    (hmm : AccRepXZ p a b H mAmB (-g + -h)) (hpm : AccRepXZ p a b H pAmB (g + -h))
    (hmp : AccRepXZ p a b H mApB (-g + h)) (hpp : AccRepXZ p a b H pApB (g + h))
    (t : ℤ × ℤ × ℤ) (h0) (A B : ℤ) (ht : AccRep p a b H t h0)
    (hA : A = -1 ∨ A = 0 ∨ A = 1) (hB : B = -1 ∨ B = 0 ∨ B = 1) :
    AccRep p a b H (mulAddStep p a P1 P2 mAmB pAmB mApB pApB t (A, B))
      ((h0 + h0) + (A • g + B • h)) := by
  have hd := accRep_double hH ht
  have n1 : IRep p a b H (P1.1, -P1.2.1, P1.2.2) (-g) := irep_neg h1
  have n2 : IRep p a b H (P2.1, -P2.2.1, P2.2.2) (-h) := irep_neg h2
  unfold mulAddStep
  simp only []
  rcases hA with rfl | rfl | rfl <;> rcases hB with rfl | rfl | rfl <;>
    simp only [one_ne_zero, if_false, if_true, Int.reduceNeg, Left.neg_neg_iff, zero_lt_one,
      Int.neg_eq_zero, lt_self_iff_false, neg_smul, one_smul, zero_smul, add_zero, zero_add, Int.reduceLT]
  · exact accRep_addXZ hp2 hH hd hmm
  · have := accRep_add hp2 hH hd n1 r1 r1z; simpa using this
  · exact accRep_addXZ hp2 hH hd hmp
  · have := accRep_add hp2 hH hd n2 r2 r2z; simpa using this
  · exact hd
  · exact accRep_add hp2 hH hd h2 r2 r2z
  · exact accRep_addXZ hp2 hH hd hpm
  · exact accRep_add hp2 hH hd h1 r1 r1z
  · exact accRep_addXZ hp2 hH hd hpp

/-- `MulSpec` / `MulEnv` for objects that may be identity-valued -/
def MulSpec0 (p : ℕ) [Fact p.Prime] (a b : ℤ) (H : AddSubgroup (Grp (a : ZMod p) (b : ZMod p)))
    (t : List (ℤ × ℤ)) (S : PJ) (g : Grp (a : ZMod p) (b : ZMod p)) : Prop :=
  ∀ k, ∃ R, pjMulWith t S k = .ok R ∧ PtRep0 p a b H R (k • g)

def MulEnv0 (p : ℕ) [Fact p.Prime] (a b : ℤ) (H : AddSubgroup (Grp (a : ZMod p) (b : ZMod p)))
    (pre : List (ℤ × ℤ)) (P : PJ) (g : Grp (a : ZMod p) (b : ZMod p)) : Prop :=
  ∃ t, maybePrecompute P pre = .ok t ∧
    ∀ S, PJRep0 p a b H S g → S.order = P.order → S.generator = P.generator → MulSpec0 p a b H t S g

theorem ptIsInf_zero0 {other : Pt} {h} (hO : PtRep0 p a b H other h) (hi : ptIsInf other = true) : h = 0 := by
  cases other with
  | infinity => exact hO
  | jac Q => exact (pjEqInf_iff0 hO).mp hi
  | aff A => simp [ptIsInf] at hi

theorem reduce2_smul0 {g h : Grp (a : ZMod p) (b : ZMod p)} {ord : Option ℤ}
    (ho : ∀ n, truthy ord = some n → n • g = 0 ∧ n • h = 0) (sm om : ℤ) :
    (match truthy ord with
      | some o => (pmod sm o, pmod om o)
      | none => (sm, om)).1 • g +
    (match truthy ord with
      | some o => (pmod sm o, pmod om o)
      | none => (sm, om)).2 • h = sm • g + om • h := by
  cases hh : truthy ord with
  | none => rfl
  | some o =>
    simp only [smul_pmod (ho o hh).1 sm o (dvd_refl o), smul_pmod (ho o hh).2 om o (dvd_refl o)]

/-- the part of `mul_add` after both operands are `PointJacobi` objects and the early exits are passed -/
theorem mulAdd_main0 (hp2 : p ≠ 2) (hH : NoOrder2 H) {P Q : PJ} {g h}
    (hP : PJRep0 p a b H P g) (hQ : PJRep0 p a b H Q h)
    (ho : ∀ n, truthy P.order = some n → n • g = 0 ∧ n • h = 0)
    {tP tQ : List (ℤ × ℤ)}
    (mP : ∀ S, PJRep0 p a b H S g → S.order = P.order → S.generator = P.generator → MulSpec0 p a b H tP S g)
    (mQ : ∀ S, PJRep0 p a b H S h → S.order = Q.order → S.generator = Q.generator → MulSpec0 p a b H tQ S h)
    (sm om : ℤ) :
    ∃ R, (if !tP.isEmpty && !tQ.isEmpty then do
        let r1 ← pjMulWith tP P sm
        let r2 ← pjMulWith tQ Q om
        ptAdd r1 r2
      else
        let (sm, om) := match truthy P.order with
          | some o => (pmod sm o, pmod om o)
          | none => (sm, om)
        let p' := P.curve.p
        let a' := P.curve.a
        do
        let SP ← pjScale P
        let SQ ← pjScale Q
        let P1 := (SP.x, SP.y, SP.z)
        let P2 := (SQ.x, SQ.y, SQ.z)
        let mAmB := Gen.k_add SP.x (-SP.y) SP.z SQ.x (-SQ.y) SQ.z p' a'
        let pAmB := Gen.k_add SP.x SP.y SP.z SQ.x (-SQ.y) SQ.z p' a'
        let mApB := Gen.k_add SP.x (-SP.y) SP.z SQ.x SQ.y SQ.z p' a'
        let pApB := Gen.k_add SP.x SP.y SP.z SQ.x SQ.y SQ.z p' a'
        if pApB.2.1 == 0 || pApB.2.2 == 0 then do
          let r1 ← pjMulWith tP SP sm
          let r2 ← pjMulWith tQ SQ om
          ptAdd r1 r2
        else
          let nafs := padNafs (naf sm).reverse (naf om).reverse
          let acc := (nafs.1.zip nafs.2).foldl (mulAddStep p' a' P1 P2 mAmB pAmB mApB pApB) (0, 0, 1)
          .ok (coordsOut P.curve P.order acc)) = .ok R ∧ PtRep0 p a b H R (sm • g + om • h) := by
  split_ifs with hboth
  · obtain ⟨r1, e1, h1⟩ := mP P hP rfl rfl sm
    obtain ⟨r2, e2, h2⟩ := mQ Q hQ rfl rfl om
    simp only [e1, e2, ok_bind]
    exact ptAdd_correct0 hp2 hH h1 h2
  · obtain ⟨SP, eSP, rSP, zSP, cSP, oSP, gSP⟩ := pjScale_correct0 hP
    obtain ⟨SQ, eSQ, rSQ, zSQ, cSQ, oSQ, gSQ⟩ := pjScale_correct0 hQ
    rw [← reduce2_smul0 ho sm om]
    generalize (match truthy P.order with
          | some o => (pmod sm o, pmod om o)
          | none => (sm, om)) = sc
    obtain ⟨sm', om'⟩ := sc
    simp only [eSP, eSQ, ok_bind, hP.1.1, hP.1.2.1]
    have i1 := rSP.irep
    have i2 := rSQ.irep
    have xr := rSQ.2.1.1
    have zr := rSQ.2.1.2.2
    have xp := rSP.2.1.1
    have zp := rSP.2.1.2.2
    have hpp := combo_rep0 hp2 hH i1 i2 xp zp xr zr
    have hpm := combo_rep0 hp2 hH i1 (irep_neg i2) xp zp xr zr
    have hmp := combo_rep0 hp2 hH (irep_neg i1) i2 xp zp xr zr
    have hmm := combo_rep0 hp2 hH (irep_neg i1) (irep_neg i2) xp zp xr zr
    split_ifs with hinf
    · obtain ⟨r1, e1, h1⟩ := mP SP rSP oSP gSP sm'
      obtain ⟨r2, e2, h2⟩ := mQ SQ rSQ oSQ gSQ om'
      simp only [e1, e2, ok_bind]
      exact ptAdd_correct0 hp2 hH h1 h2
    · refine ⟨_, rfl, ?_⟩
      have hl := Naf.mulAdd_rel (AccRep p a b H)
        (mulAddStep p a (SP.x, SP.y, SP.z) (SQ.x, SQ.y, SQ.z)
          (Gen.k_add SP.x (-SP.y) SP.z SQ.x (-SQ.y) SQ.z p a)
          (Gen.k_add SP.x SP.y SP.z SQ.x (-SQ.y) SQ.z p a)
          (Gen.k_add SP.x (-SP.y) SP.z SQ.x SQ.y SQ.z p a)
          (Gen.k_add SP.x SP.y SP.z SQ.x SQ.y SQ.z p a)) g h (0, 0, 1)
        (fun t h0 A B ht hA hB => mulAddStep_rep0 hp2 hH i1 xp zp i2 xr zr hmm hpm hmp hpp
          t h0 A B ht hA hB) accRep_sentinel sm' om'
      exact (coordsOut_rep hP.1 _ hl.1 hl.2).rep0

/-- **`PointJacobi.mul_add`** with explicit table states; the single multiplications it falls back on are
hypotheses (`MulSpec`, `MulEnv`) discharged in `Proofs/MulAdd0.lean (below)` by the NAF-path and table-path theorems -/
theorem pjMulAddWith_correct0 (hp2 : p ≠ 2) (hH : NoOrder2 H) {P : PJ} {other : Pt} {g h}
    (hP : PJRep0 p a b H P g) (hO : PtRep0 p a b H other h)
    (ho : ∀ n, truthy P.order = some n → n • g = 0 ∧ n • h = 0)
    {preP preQ : List (ℤ × ℤ)}
    (m0 : MulSpec0 p a b H preP P g)
    (mO : ∀ k, ∃ R, ptMulWith preQ other k = .ok R ∧ PtRep0 p a b H R (k • h))
    (eP : MulEnv0 p a b H preP P g)
    (eQ : ∀ Q, PJRep0 p a b H Q h → (other = .jac Q ∨ ∃ A, other = .aff A ∧ Q = pjFromAffine A) →
      MulEnv0 p a b H preQ Q h)
    (sm om : ℤ) :
    ∃ R, pjMulAddWith preP preQ P sm other om = .ok R ∧ PtRep0 p a b H R (sm • g + om • h) := by
  unfold pjMulAddWith
  split_ifs with c1 c2
  · -- other == INFINITY or other_mul == 0
    obtain ⟨R, e, hR⟩ := m0 sm
    refine ⟨R, e, ?_⟩
    have : om • h = 0 := by
      simp only [Bool.or_eq_true, beq_iff_eq] at c1
      rcases c1 with c1 | c1
      · rw [ptIsInf_zero0 hO c1, smul_zero]
      · rw [c1, zero_smul]
    rwa [this, add_zero]
  · -- self_mul == 0
    obtain ⟨R, e, hR⟩ := mO om
    refine ⟨R, e, ?_⟩
    simp only [beq_iff_eq] at c2
    rwa [c2, zero_smul, zero_add]
  · simp only [Bool.or_eq_true, beq_iff_eq, not_or] at c1
    have key : ∀ Q, PJRep0 p a b H Q h → (other = .jac Q ∨ ∃ A, other = .aff A ∧ Q = pjFromAffine A) →
        ∃ R, (do
          let tP ← maybePrecompute P preP
          let tQ ← maybePrecompute Q preQ
          if !tP.isEmpty && !tQ.isEmpty then do
            let r1 ← pjMulWith tP P sm
            let r2 ← pjMulWith tQ Q om
            ptAdd r1 r2
          else
            let (sm, om) := match truthy P.order with
              | some o => (pmod sm o, pmod om o)
              | none => (sm, om)
            let p' := P.curve.p
            let a' := P.curve.a
            do
            let SP ← pjScale P
            let SQ ← pjScale Q
            let P1 := (SP.x, SP.y, SP.z)
            let P2 := (SQ.x, SQ.y, SQ.z)
            let mAmB := Gen.k_add SP.x (-SP.y) SP.z SQ.x (-SQ.y) SQ.z p' a'
            let pAmB := Gen.k_add SP.x SP.y SP.z SQ.x (-SQ.y) SQ.z p' a'
            let mApB := Gen.k_add SP.x (-SP.y) SP.z SQ.x SQ.y SQ.z p' a'
            let pApB := Gen.k_add SP.x SP.y SP.z SQ.x SQ.y SQ.z p' a'
            if pApB.2.1 == 0 || pApB.2.2 == 0 then do
              let r1 ← pjMulWith tP SP sm
              let r2 ← pjMulWith tQ SQ om
              ptAdd r1 r2
            else
              let nafs := padNafs (naf sm).reverse (naf om).reverse
              let acc := (nafs.1.zip nafs.2).foldl (mulAddStep p' a' P1 P2 mAmB pAmB mApB pApB) (0, 0, 1)
              .ok (coordsOut P.curve P.order acc)) = .ok R ∧ PtRep0 p a b H R (sm • g + om • h) := by
      intro Q hQ hQo
      obtain ⟨tP, etP, mP⟩ := eP
      obtain ⟨tQ, etQ, mQ⟩ := eQ Q hQ hQo
      simp only [etP, etQ, ok_bind]
      exact mulAdd_main0 hp2 hH hP hQ ho mP mQ sm om
    cases other with
    | infinity => simp [ptIsInf] at c1
    | jac Q => exact key Q hO (Or.inl rfl)
    | aff A => exact key (pjFromAffine A) (AffRep.pj hH hO false).rep0 (Or.inr ⟨A, rfl, rfl⟩)

/-! ### assembly (as Proofs/MulAll.lean) -/

/-- `MulOK` with identity-valued objects admitted (they must not be generator-flagged) -/
def MulOK0 (p : ℕ) [Fact p.Prime] (a b : ℤ) (H : AddSubgroup (Grp (a : ZMod p) (b : ZMod p)))
    (P : PJ) (g : Grp (a : ZMod p) (b : ZMod p)) : Prop :=
  PJRep0 p a b H P g ∧ (∀ n, truthy P.order = some n → n • g = 0) ∧
    (P.generator = true → g ≠ 0 ∧ ∃ o, truthy P.order = some o ∧ 0 < o)

theorem MulOK.ok0 {P : PJ} {g} (h : MulOK p a b H P g) : MulOK0 p a b H P g :=
  ⟨h.1.rep0, h.2.1, fun hg => ⟨good_ne_zero h.1.2.2, h.2.2 hg⟩⟩

theorem PJRep0.good_of_ne {P : PJ} {g} (h : PJRep0 p a b H P g) (hg : g ≠ 0) : PJRep p a b H P g := by
  rcases h.cases with ⟨_, h0⟩ | ⟨_, _, hr⟩
  · exact absurd h0 hg
  · exact hr

/-- **`P * k` on ALL objects** (fresh table state), every integer k -/
theorem pjMul_correct0 (hp2 : p ≠ 2) (hH : NoOrder2 H) {P : PJ} {g} (hP : MulOK0 p a b H P g) (k : ℤ) :
    ∃ R, pjMul P k = .ok R ∧ PtRep0 p a b H R (k • g) := by
  obtain ⟨rP, ho, hg⟩ := hP
  cases hgen : P.generator with
  | false => exact pjMul_naf_correct0 hp2 hH rP hgen ho k
  | true =>
    obtain ⟨hne, hord⟩ := hg hgen
    obtain ⟨R, e, hR⟩ := pjMul_correct hp2 hH ⟨rP.good_of_ne hne, ho, fun _ => hord⟩ k
    exact ⟨R, e, hR.rep0⟩

theorem mulEnv_fresh0 (hp2 : p ≠ 2) (hH : NoOrder2 H) {P : PJ} {g} (hP : MulOK0 p a b H P g) :
    MulEnv0 p a b H [] P g := by
  obtain ⟨rP, ho, hg⟩ := hP
  cases hgen : P.generator with
  | false =>
    refine ⟨[], by simp [maybePrecompute, hgen], ?_⟩
    intro S rS oS gS k
    exact pjMul_naf_correct0 hp2 hH rS (gS.trans hgen) (fun n hn => ho n (oS ▸ hn)) k
  | true =>
    obtain ⟨hne, hord⟩ := hg hgen
    obtain ⟨t, et, hm⟩ := mulEnv_fresh hp2 hH (P := P) ⟨rP.good_of_ne hne, ho, fun _ => hord⟩
    refine ⟨t, et, ?_⟩
    intro S rS oS gS k
    obtain ⟨R, e, hR⟩ := hm S (rS.good_of_ne hne) oS gS k
    exact ⟨R, e, hR.rep0⟩

def PtMulOK0 (p : ℕ) [Fact p.Prime] (a b : ℤ) (H : AddSubgroup (Grp (a : ZMod p) (b : ZMod p))) :
    Pt → Grp (a : ZMod p) (b : ZMod p) → Prop
  | .infinity, h => h = 0
  | .jac Q, h => MulOK0 p a b H Q h
  | .aff A, h => AffRep p a b H A h ∧ ∀ n, truthy A.order = some n → n • h = 0

theorem PtMulOK0.rep {other : Pt} {h} (hO : PtMulOK0 p a b H other h) : PtRep0 p a b H other h := by
  cases other with
  | infinity => exact hO
  | jac Q => exact hO.1
  | aff A => exact hO.1

theorem ptMul_correct0 (hp2 : p ≠ 2) (hH : NoOrder2 H) {other : Pt} {h} (hO : PtMulOK0 p a b H other h)
    (k : ℤ) : ∃ R, ptMulWith [] other k = .ok R ∧ PtRep0 p a b H R (k • h) := by
  cases other with
  | infinity =>
    have : h = 0 := hO
    exact ⟨.infinity, rfl, by simp [PtRep0, this]⟩
  | jac Q => exact pjMul_correct0 hp2 hH hO k
  | aff A =>
    obtain ⟨R, e, hR⟩ := affMul_correct hp2 hH hO.1 hO.2 k
    exact ⟨R, e, hR.rep0⟩

/-- **`P.mul_add(a, Q, b)` on ALL objects**: either operand may be an identity-valued `PointJacobi` -/
theorem pjMulAdd_correct0 (hp2 : p ≠ 2) (hH : NoOrder2 H) {P : PJ} {other : Pt} {g h}
    (hP : MulOK0 p a b H P g) (hO : PtMulOK0 p a b H other h)
    (ho : ∀ n, truthy P.order = some n → n • h = 0) (sm om : ℤ) :
    ∃ R, pjMulAdd P sm other om = .ok R ∧ PtRep0 p a b H R (sm • g + om • h) := by
  unfold pjMulAdd
  refine pjMulAddWith_correct0 hp2 hH hP.1 hO.rep (fun n hn => ⟨hP.2.1 n hn, ho n hn⟩)
    (fun k => pjMul_correct0 hp2 hH hP k) (fun k => ptMul_correct0 hp2 hH hO k) (mulEnv_fresh0 hp2 hH hP)
    ?_ sm om
  intro Q rQ hQ
  rcases hQ with rfl | ⟨A, rfl, rfl⟩
  · exact mulEnv_fresh0 hp2 hH hO
  · exact mulEnv_fresh0 hp2 hH ⟨rQ, hO.2, by simp [pjFromAffine]⟩

end Jac
