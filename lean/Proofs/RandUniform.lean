import Proofs.Bits
import Proofs.RandBasic
/-!
# Proofs.RandUniform — one iteration of `randrange` in arithmetic form, and the exact count of chunks per target
-/
namespace Rand
open Bits

/-! ### fixed-length big-endian encoding is a bijection `[0, 256^l)` ↔ byte strings of length `l` -/

@[simp] theorem beFixed_length (l n : Nat) : (beFixed l n).length = l := by
  induction l generalizing n with
  | zero => rfl
  | succ l ih => simp [beFixed, ih]

theorem beVal_beFixed (l n : Nat) : beVal (beFixed l n) = n % 256 ^ l := by
  induction l generalizing n with
  | zero => simp [beFixed, Nat.mod_one]
  | succ l ih =>
    rw [beFixed, beVal_append, ih]
    simp only [List.length_singleton, Nat.pow_one, beVal_cons, List.length_nil, Nat.pow_zero, Nat.mul_one,
      beVal_nil, Nat.add_zero, UInt8.toNat_ofNat']
    have : n % 256 % 2 ^ 8 = n % 256 := Nat.mod_eq_of_lt (by omega)
    rw [this, Nat.pow_succ, Nat.mul_comm (256 ^ l) 256, Nat.mod_mul]
    omega

theorem beFixed_beVal (c : Bytes) : beFixed c.length (beVal c) = c := by
  generalize hl : c.length = l
  induction l generalizing c with
  | zero => cases c <;> simp_all [beFixed]
  | succ l ih =>
    have hne : c ≠ [] := by intro h; simp [h] at hl
    have hc := List.dropLast_concat_getLast hne
    have hdl : c.dropLast.length = l := by simp [List.length_dropLast, hl]
    rw [← hc, beVal_append, beFixed]
    simp only [List.length_singleton, Nat.pow_one, beVal_cons, List.length_nil, Nat.pow_zero, Nat.mul_one,
      beVal_nil, Nat.add_zero]
    have hb : (c.getLast hne).toNat < 256 := (c.getLast hne).toNat_lt
    have h1 : (beVal c.dropLast * 256 + (c.getLast hne).toNat) / 256 = beVal c.dropLast := by omega
    have h2 : (beVal c.dropLast * 256 + (c.getLast hne).toNat) % 256 = (c.getLast hne).toNat := by omega
    rw [h1, h2, ih _ hdl, UInt8.ofNat_toNat]

/-- all byte strings of length `l`, each once, in numeric order -/
def allChunks (l : Nat) : List Bytes := (List.range (256 ^ l)).map (beFixed l)

theorem mem_allChunks (l : Nat) (c : Bytes) : c ∈ allChunks l ↔ c.length = l := by
  constructor
  · intro h
    simp only [allChunks, List.mem_map, List.mem_range] at h
    obtain ⟨v, _, rfl⟩ := h
    simp
  · intro h
    simp only [allChunks, List.mem_map, List.mem_range]
    exact ⟨beVal c, h ▸ beVal_lt c, h ▸ beFixed_beVal c⟩

theorem allChunks_length (l : Nat) : (allChunks l).length = 256 ^ l := by simp [allChunks]

theorem allChunks_nodup (l : Nat) : (allChunks l).Nodup := by
  unfold allChunks List.Nodup
  rw [List.pairwise_map]
  refine List.Pairwise.imp_of_mem ?_ (List.nodup_range (n := 256 ^ l))
  intro a b ha hb hne hab
  have := congrArg beVal hab
  rw [beVal_beFixed, beVal_beFixed, Nat.mod_eq_of_lt (List.mem_range.1 ha), Nat.mod_eq_of_lt (List.mem_range.1 hb)] at this
  exact hne this

/-! ### counting the naturals below `N` with a given quotient -/

theorem countP_range_div (m q N : Nat) (hm : 0 < m) :
    ((List.range N).filter (fun v => decide (v / m = q))).length = min N (q * m + m) - min N (q * m) := by
  induction N with
  | zero => simp
  | succ N ih =>
    rw [List.range_succ, List.filter_append, List.length_append, ih]
    have hiff : N / m = q ↔ q * m ≤ N ∧ N < q * m + m := by
      rw [Nat.div_eq_iff hm]; omega
    by_cases h : N / m = q
    · have := hiff.1 h
      simp [h]; omega
    · have : ¬ (q * m ≤ N ∧ N < q * m + m) := fun hh => h (hiff.2 hh)
      simp [h]; omega

/-! ### `entropy_to_bits` is the fixed-width bit string -/

theorem zfill_binDigitsAux (w v : Nat) (hv : v < 2 ^ w) : zfill (binDigitsAux v) w = natBits w v := by
  induction w generalizing v with
  | zero =>
    have : v = 0 := by simpa using hv
    subst this; simp [zfill, binDigitsAux, natBits]
  | succ w ih =>
    rcases Nat.eq_zero_or_pos v with rfl | hpos
    · rw [natBits_zero]; simp [zfill, binDigitsAux]
    · obtain ⟨u, rfl⟩ : ∃ u, v = u + 1 := ⟨v - 1, by omega⟩
      rw [binDigitsAux, natBits, ← ih ((u + 1) / 2) (by rw [Nat.pow_succ] at hv; omega)]
      simp only [zfill, List.length_append, List.length_singleton, List.append_assoc]
      congr 2; omega

theorem entropyToBits_eq (c : Bytes) (hc : c ≠ []) : entropyToBits c = natBits (c.length * 8) (beVal c) := by
  have hlen : 0 < c.length := List.length_pos_iff.2 hc
  have hlt : beVal c < 2 ^ (c.length * 8) := by
    have := beVal_lt c; rwa [pow256, Nat.mul_comm] at this
  unfold entropyToBits binDigits
  split
  · rename_i h0
    rw [h0, natBits_zero]
    have : c.length * 8 = (c.length * 8 - 1) + 1 := by omega
    simp only [zfill, List.length_singleton]
    rw [← List.replicate_succ', ← this]
  · exact zfill_binDigitsAux _ _ hlt

/-- the top-bits value one iteration extracts from a chunk: `int(ent_2[:upper_2], 2)` -/
def topBits (order : Int) (c : Bytes) : Nat := beVal c / 2 ^ (c.length * 8 - upper2 order)

theorem upper2_pos (order : Int) : 0 < upper2 order := by
  unfold upper2 bitLength1; split <;> omega

/-- one iteration of `randrange` on a non-empty chunk, in arithmetic form -/
theorem oneDraw_eq (order : Int) (c : Bytes) (hc : c ≠ []) :
    oneDraw order c = if ((topBits order c + 1 : Nat) : Int) < order then .ok (some (topBits order c + 1)) else .ok none := by
  have hlen : 0 < c.length := List.length_pos_iff.2 hc
  unfold oneDraw
  rw [entropyToBits_eq c hc]
  have hne : (List.take (upper2 order) (natBits (c.length * 8) (beVal c))).isEmpty = false := by
    have := upper2_pos order
    rw [List.isEmpty_eq_false_iff]
    intro h
    have := congrArg List.length h
    simp at this; omega
  have hval : bitsVal (List.take (upper2 order) (natBits (c.length * 8) (beVal c))) = topBits order c := by
    rw [bitsVal_take, bitsVal_natBits, natBits_length]
    have hlt : beVal c < 2 ^ (c.length * 8) := by
      have := beVal_lt c; rwa [pow256, Nat.mul_comm] at this
    rw [Nat.mod_eq_of_lt hlt]; rfl
  simp only [intBase2, hne, Bool.false_eq_true, if_false, bind, Except.bind, hval]
  have : 0 < topBits order c + 1 := by omega
  simp [this]

end Rand

namespace Rand
open Bits

theorem lt_two_pow_bitLength (n : Nat) : n < 2 ^ bitLength n := by
  induction n using Nat.strongRecOn with
  | _ n ih =>
    cases n with
    | zero => simp [bitLength]
    | succ k =>
      rw [bitLength]
      have := ih ((k + 1) / 2) (by omega)
      rw [Nat.pow_succ]; omega

theorem lt_two_pow_upper2 (order : Int) : (order - 2).toNat < 2 ^ upper2 order := by
  unfold upper2 bitLength1
  split
  · rename_i h
    have := lt_two_pow_bitLength (order - 2).toNat
    rw [h] at this; omega
  · exact lt_two_pow_bitLength _

theorem upper2_lt (order : Int) : upper2 order < upper256 order * 8 := by
  unfold upper256; omega

/-- the number of chunks of the requested length with the same top bits: `2^(8·len − bits)` -/
def perTarget (order : Int) : Nat := 2 ^ (upper256 order * 8 - upper2 order)

theorem topBits_beFixed (order : Int) (v : Nat) (hv : v < 256 ^ upper256 order) :
    topBits order (beFixed (upper256 order) v) = v / perTarget order := by
  unfold topBits perTarget
  rw [beVal_beFixed, beFixed_length, Nat.mod_eq_of_lt hv]

theorem beFixed_ne_nil (order : Int) (v : Nat) : beFixed (upper256 order) v ≠ [] := by
  intro h
  have := congrArg List.length h
  simp [upper256] at this

theorem pow_split (order : Int) : 256 ^ upper256 order = 2 ^ upper2 order * perTarget order := by
  unfold perTarget
  rw [pow256, ← Nat.pow_add]
  congr 1
  have := upper2_lt order
  omega

/-- exactly `perTarget` chunks of the requested length are mapped to each target `t ∈ [1, order − 1]` -/
theorem count_target (order : Int) (t : Nat) (h1 : 1 ≤ t) (h2 : (t : Int) < order) :
    ((allChunks (upper256 order)).filter (fun c => decide (oneDraw order c = .ok (some t)))).length = perTarget order := by
  have hm : 0 < perTarget order := Nat.two_pow_pos _
  unfold allChunks
  rw [List.filter_map, List.length_map]
  have hcongr : (List.range (256 ^ upper256 order)).filter
        ((fun c => decide (oneDraw order c = .ok (some t))) ∘ beFixed (upper256 order)) =
      (List.range (256 ^ upper256 order)).filter (fun v => decide (v / perTarget order = t - 1)) := by
    apply List.filter_congr
    intro v hv
    have hv' := List.mem_range.1 hv
    simp only [Function.comp]
    rw [oneDraw_eq order _ (beFixed_ne_nil order v), topBits_beFixed order v hv']
    by_cases h : v / perTarget order = t - 1
    · have : v / perTarget order + 1 = t := by omega
      rw [this]
      simp [h2, h]
    · simp only [h, decide_false]
      split
      · simp; omega
      · simp
  rw [hcongr, countP_range_div _ _ _ hm, pow_split]
  -- t ≤ 2^bits because order − 2 < 2^bits
  have hb := lt_two_pow_upper2 order
  have ht : t ≤ 2 ^ upper2 order := by omega
  have h3 : (t - 1) * perTarget order + perTarget order = t * perTarget order := by
    have : t = (t - 1) + 1 := by omega
    conv => rhs; rw [this, Nat.add_mul, Nat.one_mul]
  have h4 : t * perTarget order ≤ 2 ^ upper2 order * perTarget order := Nat.mul_le_mul_right _ ht
  have h5 : (t - 1) * perTarget order ≤ t * perTarget order := Nat.mul_le_mul_right _ (by omega)
  rw [h3, Nat.min_eq_right h4, Nat.min_eq_right (Nat.le_trans h5 h4)]
  omega

/-- a chunk of the requested length is never an error: it is accepted with value `topBits + 1 < order` or rejected -/
theorem oneDraw_total (order : Int) (c : Bytes) (hc : c.length = upper256 order) :
    (∃ t, oneDraw order c = .ok (some t) ∧ t = topBits order c + 1 ∧ 1 ≤ t ∧ (t : Int) < order)
    ∨ (oneDraw order c = .ok none ∧ order ≤ (topBits order c + 1 : Nat)) := by
  have hne : c ≠ [] := by intro h; simp [h, upper256] at hc
  rw [oneDraw_eq order c hne]
  split
  · left; exact ⟨_, rfl, rfl, by omega, by assumption⟩
  · right; exact ⟨rfl, by omega⟩

end Rand
