import Proofs.NTJacobiDepth
/-! the TIGHT recursion depth of `jacobi`: `⌊log₂ n⌋ + 3` nested calls always suffice — one frame per bit of the modulus
(C15).  Potential: `n + m`, `m` the odd part of the reduced first argument; it at least halves in every recursive call
(`n = q·M + r` with `n`, `M` odd: `q` odd ⇒ `r` even ⇒ its odd part is ≤ r/2; `q` even ⇒ `q ≥ 2`; in both cases
`M + 2·odd(r) ≤ n`).  The bound is sharp up to the additive constant: `n_k = n_{k-1} + 2·n_{k-2}` grows like `2^k`. -/
namespace NTProofs
open NT NumberTheorySymbols

theorem jacobiF_eq_pot : ∀ (f : Nat) (a : Int) (n : Nat), 3 ≤ n → n % 2 = 1 →
    (∀ (k : Nat) (m : Int), a % (n : Int) = 2 ^ k * m → m % 2 = 1 → (n : Int) + m < 2 ^ f) →
    jacobiF (f + 1) a n = .ok J(a | n) := by
  intro f
  induction f using Nat.strong_induction_on with
  | _ f ih =>
    intro a n hn3 hodd hpot
    have hnpos : (0 : Int) < n := by omega
    unfold jacobiF
    have hA1 : Gen.NT.jacobi_assert1 a n = true := by simp [Gen.NT.jacobi_assert1]; omega
    have hA2 : Gen.NT.jacobi_assert2 a n = true := by
      simp only [Gen.NT.jacobi_assert2, decide_eq_true_eq, Int.fmod_eq_emod_of_nonneg (n : Int) (show (0 : Int) ≤ 2 by decide)]
      omega
    simp only [hA1, hA2, Bool.not_true, Bool.false_eq_true, ↓reduceIte, jacobi_pre_eq,
      Int.fmod_eq_emod_of_nonneg a (le_of_lt hnpos)]
    have hmod : J(a | n) = J(a % n | n) := jacobiSym.mod_left a n
    have h0 : 0 ≤ a % n := Int.emod_nonneg a (by omega)
    have hl : a % n < n := Int.emod_lt_of_pos a hnpos
    rw [hmod]
    generalize a % (n : Int) = a' at h0 hl hpot
    by_cases c0 : a' = 0
    · subst c0; simp only [↓reduceIte]; rw [jacobiSym.zero_left (by omega)]
    by_cases c1 : a' = 1
    · subst c1; simp only [show ¬ ((1 : Int) = 0) by decide, ↓reduceIte]; rw [jacobiSym.one_left]
    simp only [c0, c1, ↓reduceIte]
    obtain ⟨k, m, hs, ham, hm2, hm0⟩ := jacobiStrip_spec (a'.natAbs + 1) a' 0 (by omega) (by omega)
    rw [hs]
    simp only [jacobi_post_eq, zero_add]
    have hJ := jacobi_two_pow_mul k m n hodd
    rw [ham, hJ]
    have hk2 : ((k : Int) % 2 = 0) ↔ (k % 2 = 0) := by omega
    have hn8a : ((n : Int) % 8 = 1) ↔ (n % 8 = 1) := by omega
    have hn8b : ((n : Int) % 8 = 7) ↔ (n % 8 = 7) := by omega
    simp only [hk2, hn8a, hn8b]
    by_cases cm : m = 1
    · subst cm; simp [jacobiSym.one_left]
    simp only [cm, ↓reduceIte]
    -- m ≥ 3, odd, m < n
    have hmle : m ≤ a' := by
      have : (1 : Int) ≤ 2 ^ k := one_le_pow₀ (by decide)
      rw [ham]; nlinarith
    have hpm : (n : Int) + m < 2 ^ f := hpot k m ham hm2
    obtain ⟨M, rfl⟩ : ∃ M : Nat, m = M := ⟨m.toNat, by omega⟩
    have hM3 : 3 ≤ M := by omega
    have hModd : M % 2 = 1 := by omega
    have hfpos : 1 ≤ f := by
      rcases Nat.eq_zero_or_pos f with h | h
      · subst h; simp at hpm; omega
      · exact h
    obtain ⟨g, rfl⟩ : ∃ g, f = g + 1 := ⟨f - 1, by omega⟩
    have hMn : (M : Int) < n := by omega
    have hMpos : (0 : Int) < M := by omega
    -- the potential (modulus) + (odd part of the reduced argument) at least halves in the recursive call
    have hpot' : ∀ (k' : Nat) (m' : Int), (Int.fmod n M) % (M : Int) = 2 ^ k' * m' → m' % 2 = 1 →
        (M : Int) + m' < 2 ^ g := by
      intro k' m' hr hm'
      rw [Int.fmod_eq_emod_of_nonneg _ (by omega), Int.emod_emod_of_dvd _ (dvd_refl _)] at hr
      have hr0 := Int.emod_nonneg (n : Int) (show (M : Int) ≠ 0 by omega)
      have hr1 := Int.emod_lt_of_pos (n : Int) hMpos
      have hdiv := Int.emod_add_mul_ediv (n : Int) M
      have hq1 : 1 ≤ (n : Int) / M := Int.le_ediv_of_mul_le hMpos (by omega)
      have hp2 : (0 : Int) < 2 ^ k' := by positivity
      have hm'pos : 0 < m' := by
        by_contra hneg
        have hle : m' ≤ 0 := by omega
        have : m' ≠ 0 := by intro h; rw [h] at hm'; simp at hm'
        have hlt0 : m' < 0 := by omega
        have : 2 ^ k' * m' < 0 := mul_neg_of_pos_of_neg hp2 hlt0
        omega
      have key : (M : Int) + 2 * m' ≤ n := by
        rcases Nat.eq_zero_or_pos k' with hk0 | hkpos
        · -- r = m' odd, so the quotient is even, hence ≥ 2
          subst hk0
          simp only [pow_zero, one_mul] at hr
          have hqeven : ((n : Int) / M) % 2 = 0 := by
            have hn2 : (n : Int) % 2 = 1 := by omega
            have hM2 : (M : Int) % 2 = 1 := by omega
            have hprod : ((M : Int) * ((n : Int) / M)) % 2 = 0 := by
              have : (M : Int) * ((n : Int) / M) = n - (n : Int) % M := by linarith
              rw [this, hr]; omega
            rcases Int.emod_two_eq_zero_or_one ((n : Int) / M) with h | h
            · exact h
            · exfalso
              have : ((M : Int) * ((n : Int) / M)) % 2 = 1 := by
                rw [Int.mul_emod, hM2, h]; rfl
              omega
          have hq2 : 2 ≤ (n : Int) / M := by omega
          rw [← hr]
          nlinarith
        · obtain ⟨j, rfl⟩ : ∃ j, k' = j + 1 := ⟨k' - 1, by omega⟩
          have hj : (1 : Int) ≤ 2 ^ j := one_le_pow₀ (by decide)
          have : (2 : Int) ^ (j + 1) * m' = 2 * (2 ^ j * m') := by ring
          rw [this] at hr
          have : m' ≤ 2 ^ j * m' := by nlinarith
          nlinarith
      have : (2 : Int) ^ (g + 1) = 2 * 2 ^ g := by ring
      rw [this] at hpm
      linarith
    have hrec := ih g (by omega) (Int.fmod n M) M hM3 hModd hpot'
    rw [hrec, Int.fmod_eq_emod_of_nonneg _ (by omega), ← jacobiSym.mod_left]
    have hqr := jacobiSym.quadratic_reciprocity_if (a := M) (b := n) hModd hodd
    have hn4 : ((n : Int) % 4 = 3) ↔ (n % 4 = 3) := by omega
    have hM4 : ((M : Int) % 4 = 3) ↔ (M % 4 = 3) := by omega
    simp only [hn4, hM4, Except.map]
    rw [← hqr]
    congr 1
    by_cases q : M % 4 = 3 ∧ n % 4 = 3
    · have q' : n % 4 = 3 ∧ M % 4 = 3 := ⟨q.2, q.1⟩
      simp only [q, q', and_self, ↓reduceIte]; ring
    · have q' : ¬ (n % 4 = 3 ∧ M % 4 = 3) := fun h => q ⟨h.2, h.1⟩
      simp only [q, q', ↓reduceIte]

/-- **tight recursion depth**: `⌊log₂ n⌋ + 3` nested `jacobi` calls (= bit length of `n` plus 2) always suffice -/
theorem jacobi_depth_tight (a : Int) (n : Nat) (hn3 : 3 ≤ n) (hodd : n % 2 = 1) :
    jacobiF (Nat.log2 n + 3) a n = .ok J(a | n) := by
  apply jacobiF_eq_pot (Nat.log2 n + 2) a n hn3 hodd
  intro k m ham hm2
  have hnpos : (0 : Int) < n := by omega
  have h0 := Int.emod_nonneg a (show (n : Int) ≠ 0 by omega)
  have h1 := Int.emod_lt_of_pos a hnpos
  have hlt : n < 2 ^ (Nat.log2 n + 1) := by
    rw [Nat.log2_eq_log_two]; exact Nat.lt_pow_succ_log_self (by decide) n
  have hlt' : (n : Int) < 2 ^ (Nat.log2 n + 1) := by exact_mod_cast hlt
  have hp2 : (1 : Int) ≤ 2 ^ k := one_le_pow₀ (by decide)
  have hmle : m ≤ a % (n : Int) := by
    rw [ham]
    have hm0 : 0 ≤ m := by
      by_contra hneg
      have hlt0 : m < 0 := by omega
      have : 2 ^ k * m < 0 := mul_neg_of_pos_of_neg (by positivity) hlt0
      omega
    nlinarith
  have : (2 : Int) ^ (Nat.log2 n + 2) = 2 * 2 ^ (Nat.log2 n + 1) := by ring
  rw [this]
  linarith

end NTProofs
