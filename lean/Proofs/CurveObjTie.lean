import Model.Curve
import Generated.CurveObjGuards
import Proofs.CurveObjSkel
/-!
# Proofs.CurveObjTie — the point-object layer of `Model/Curve.lean` follows the current `ellipticcurve.py`

`harness/translate/gen_curveobj.py` re-extracts, on every run, the control skeleton and every integer test / expression
of the `CurveFp` / `PointJacobi` / `Point` methods (`Generated/CurveObjGuards.lean`).  Here:

* `skel_*`  — the skeleton extracted from the working tree equals the one the model transcribes
              (`Proofs/CurveObjSkel.lean`): ordering of early exits, kernel / method calls with their exact arguments
              (`-Y2`, `-Y1`, the literal `1` for Z), loop headers, stores;
* the other theorems — each model function, unfolded, tests and computes exactly the generated expressions
  (small functions are restated whole with the generated definitions in place; for the big dispatchers every test /
  expression is proved equal, for all integer values).

`C06t.Tie.*`: curve, equality, coordinates, scaling, conversion, double / add / neg, legacy `Point` add / double / neg / eq.
`C07t.Tie.*`: `_naf`, the generator table, `_mul_precompute`, `__mul__`, `mul_add`, legacy `Point.__mul__`, `leftmost_bit`.
(The seven `_double* / _add*` kernels are translated whole by gen_kernels.py, the loop bodies by gen_steps.py.)
Core Lean only.
-/
set_option linter.unusedSimpArgs false
open Curve Gen.CurveObj

theorem Gen.CurveObj.pand_nat (a b : Nat) : pand (a : Int) (b : Int) = ((a &&& b : Nat) : Int) := by simp [pand]

namespace C06t.Tie

/-! ### skeletons -/

theorem skel_curve : skel_CurveFp_eq = Curve.Skel.CurveFp_eq ∧ skel_CurveFp_ne = Curve.Skel.CurveFp_ne
    ∧ skel_CurveFp_contains_point = Curve.Skel.CurveFp_contains_point := ⟨rfl, rfl, rfl⟩
theorem skel_pj_init : skel_PJ_init = Curve.Skel.PJ_init := rfl
theorem skel_pj_eq : skel_PJ_eq = Curve.Skel.PJ_eq ∧ skel_PJ_ne = Curve.Skel.PJ_ne := ⟨rfl, rfl⟩
theorem skel_pj_xy : skel_PJ_x = Curve.Skel.PJ_x ∧ skel_PJ_y = Curve.Skel.PJ_y := ⟨rfl, rfl⟩
theorem skel_pj_scale : skel_PJ_scale = Curve.Skel.PJ_scale := rfl
theorem skel_pj_affine : skel_PJ_to_affine = Curve.Skel.PJ_to_affine ∧ skel_PJ_from_affine = Curve.Skel.PJ_from_affine :=
  ⟨rfl, rfl⟩
theorem skel_pj_double : skel_PJ_double = Curve.Skel.PJ_double := rfl
theorem skel_pj_add : skel_PJ_add = Curve.Skel.PJ_add ∧ skel_PJ_radd = Curve.Skel.PJ_radd := ⟨rfl, rfl⟩
theorem skel_pj_neg : skel_PJ_neg = Curve.Skel.PJ_neg := rfl
theorem skel_point_init : skel_Point_init = Curve.Skel.Point_init := rfl
theorem skel_point_eq : skel_Point_eq = Curve.Skel.Point_eq ∧ skel_Point_ne = Curve.Skel.Point_ne := ⟨rfl, rfl⟩
theorem skel_point_neg : skel_Point_neg = Curve.Skel.Point_neg := rfl
theorem skel_point_add : skel_Point_add = Curve.Skel.Point_add := rfl
theorem skel_point_double : skel_Point_double = Curve.Skel.Point_double := rfl

/-- the seven `_double* / _add*` kernels: the model calls `Gen.k_double` / `Gen.k_add`, i.e. the current source text
translated whole (gen_kernels.py), so a change of a kernel changes the model itself and the C06 kernel theorems are
re-checked against it; this theorem additionally names the exact text those proofs were developed against -/
theorem skel_kernels :
    skel_K_double_with_z_1 = Curve.Skel.K_double_with_z_1 ∧ skel_K_double = Curve.Skel.K_double
    ∧ skel_K_add_with_z_1 = Curve.Skel.K_add_with_z_1 ∧ skel_K_add_with_z_eq = Curve.Skel.K_add_with_z_eq
    ∧ skel_K_add_with_z2_1 = Curve.Skel.K_add_with_z2_1 ∧ skel_K_add_with_z_ne = Curve.Skel.K_add_with_z_ne
    ∧ skel_K_add = Curve.Skel.K_add := ⟨rfl, rfl, rfl, rfl, rfl, rfl, rfl⟩

/-! ### `CurveFp` -/

theorem curve_eq (c d : CurveFp) : c.eqv d = CurveFp_eq_ret0 c.p d.p c.a d.a c.b d.b := by
  unfold CurveFp.eqv CurveFp_eq_ret0; grind

theorem contains_point (c : CurveFp) (x y : Int) :
    containsPoint c x y = CurveFp_contains_point_ret0 y x c.a c.b c.p := by
  unfold containsPoint CurveFp_contains_point_ret0 pmod; grind

/-! ### `PointJacobi.__eq__` -/

theorem pj_eq_infinity (P : PJ) : pjEqInf P = PJ_eq_ret0 P.y P.z := by
  unfold pjEqInf PJ_eq_ret0; grind

/-- the cross-multiplied comparison, with `zz1`, `zz2` as the source computes them -/
theorem pj_eq_coords (p x1 y1 z1 x2 y2 z2 : Int) :
    coordsEq p x1 y1 z1 x2 y2 z2 = PJ_eq_ret4 x1 (PJ_eq_let5 z2 p) x2 (PJ_eq_let4 z1 p) p y1 z2 y2 z1 := by
  unfold coordsEq PJ_eq_ret4 PJ_eq_let4 PJ_eq_let5 pmod; grind

/-- the identity test in front of the comparison (fix F13): a point with Y = 0 or Z = 0 is the point at infinity and
equals exactly the other such points -/
theorem pj_eq_identity (p x1 y1 z1 x2 y2 z2 : Int) :
    eqCoords p x1 y1 z1 x2 y2 z2 =
      (if PJ_eq_if4 y1 z1 y2 z2 then PJ_eq_ret3 y1 z1 y2 z2 else coordsEq p x1 y1 z1 x2 y2 z2) := by
  unfold eqCoords PJ_eq_if4 PJ_eq_ret3; grind

/-- a legacy `Point` operand is compared as `(other.x(), other.y(), 1)`, a `PointJacobi` by its coordinates; a
different curve gives `False` before any arithmetic -/
theorem pj_eq_dispatch (P : PJ) (A : AffPt) (Q : PJ) :
    pjEq P .infinity = PJ_eq_ret0 P.y P.z
    ∧ pjEq P (.aff A) = (if !(P.curve.eqv A.curve) then false else eqCoords P.curve.p P.x P.y P.z A.x A.y 1)
    ∧ pjEq P (.jac Q) = (if !(P.curve.eqv Q.curve) then false else eqCoords P.curve.p P.x P.y P.z Q.x Q.y Q.z) :=
  ⟨pj_eq_infinity P, rfl, rfl⟩

/-! ### `x()`, `y()`, `scale()`, `to_affine()`, `from_affine()` -/

theorem pj_x (P : PJ) :
    pjX P = if PJ_x_if0 P.z then .ok P.x
            else (inverseMod P.z P.curve.p).bind fun z => .ok (PJ_x_ret1 P.x z P.curve.p) := by
  unfold pjX PJ_x_if0 PJ_x_ret1 pmod
  by_cases h : P.z = 1 <;> simp [h] <;> rfl

theorem pj_y (P : PJ) :
    pjY P = if PJ_y_if0 P.z then .ok P.y
            else (inverseMod P.z P.curve.p).bind fun z => .ok (PJ_y_ret1 P.y z P.curve.p) := by
  unfold pjY PJ_y_if0 PJ_y_ret1 pmod
  by_cases h : P.z = 1 <;> simp [h] <;> rfl

theorem pj_scale (P : PJ) :
    pjScale P = if PJ_scale_if0 P.z then .ok P
      else (inverseMod P.z P.curve.p).bind fun zInv =>
        .ok { P with x := PJ_scale_let4 P.x (PJ_scale_let3 zInv P.curve.p) P.curve.p,
                     y := PJ_scale_let5 P.y (PJ_scale_let3 zInv P.curve.p) zInv P.curve.p, z := 1 } := by
  unfold pjScale PJ_scale_if0 PJ_scale_let3 PJ_scale_let4 PJ_scale_let5 pmod
  by_cases h : P.z = 1 <;> simp [h] <;> rfl

theorem pj_to_affine (P : PJ) :
    pjToAffine P = if PJ_to_affine_if0 P.y P.z then .ok .infinity
      else (pjScale P).bind fun S => (mkPoint S.curve S.x S.y S.order).bind fun A => .ok (.aff A) := by
  unfold pjToAffine PJ_to_affine_if0
  by_cases h1 : P.y = 0 <;> by_cases h2 : P.z = 0 <;> simp [h1, h2] <;> rfl

/-- `PointJacobi(point.curve(), point.x(), point.y(), 1, point.order(), generator)` -/
theorem pj_from_affine (A : AffPt) (g : Bool) : pjFromAffine A g = ⟨A.curve, A.x, A.y, 1, A.order, g⟩ := rfl

/-! ### `double()`, `__add__`, `__neg__` -/

theorem coords_out (c : CurveFp) (order : Option Int) (t : Int × Int × Int) :
    coordsOut c order t = if PJ_double_if1 t.2.1 t.2.2 then .infinity else .jac ⟨c, t.1, t.2.1, t.2.2, order, false⟩ := by
  unfold coordsOut PJ_double_if1
  by_cases h1 : t.2.1 = 0 <;> by_cases h2 : t.2.2 = 0 <;> simp [h1, h2]

/-- the same exit test closes `__add__`, `_mul_precompute`, `__mul__` and `mul_add` -/
theorem exit_tests (Y3 Z3 : Int) :
    PJ_double_if1 Y3 Z3 = PJ_add_if4 Y3 Z3 := rfl

theorem pj_double (P : PJ) :
    pjDouble P = if PJ_double_if0 P.y then .infinity
      else coordsOut P.curve P.order (Gen.k_double P.x P.y P.z P.curve.p P.curve.a) := by
  unfold pjDouble PJ_double_if0
  by_cases h1 : P.y = 0 <;> simp [h1]

/-- `__add__`: early exits in source order (`self == INFINITY` → other; `other == INFINITY` → self), conversion of a legacy
point with Z = 1, curve test, then `_add` on the six coordinates and the exit test -/
theorem pj_add (P : PJ) :
    (∀ o, pjEq P .infinity = true → pjAdd P o = .ok o)
    ∧ (pjEq P .infinity = false → pjAdd P .infinity = .ok (.jac P))
    ∧ (∀ Q, pjEq P .infinity = false → pjEqInf Q = true → pjAdd P (.jac Q) = .ok (.jac P))
    ∧ (∀ Q, pjEq P .infinity = false → pjEqInf Q = false → pjAdd P (.jac Q) = pjAddCore P Q)
    ∧ (∀ A, pjEq P .infinity = false → pjAdd P (.aff A) = pjAddCore P ⟨A.curve, A.x, A.y, 1, A.order, false⟩)
    ∧ (∀ Q, pjAddCore P Q = if !(P.curve.eqv Q.curve) then .error .valueError
        else .ok (coordsOut P.curve P.order (Gen.k_add P.x P.y P.z Q.x Q.y Q.z P.curve.p P.curve.a))) := by
  refine ⟨?_, ?_, ?_, ?_, ?_, fun Q => rfl⟩
  · intro o h; unfold pjAdd; simp [h]
  · intro h; unfold pjAdd; simp [h]
  · intro Q h hq; unfold pjAdd; simp [h, hq]
  · intro Q h hq; unfold pjAdd; simp [h, hq]
  · intro A h; unfold pjAdd; simp [h]; rfl

theorem pj_neg (P : PJ) : pjNeg P = ⟨P.curve, P.x, PJ_neg_e0 P.y P.curve.p, P.z, P.order, false⟩ := rfl

/-! ### legacy `Point` -/

theorem point_eq (P Q : AffPt) :
    affEq P (.aff Q) = (P.curve.eqv Q.curve && Point_eq_c0 P.x Q.x && Point_eq_c1 P.y Q.y) := by
  unfold affEq Point_eq_c0 Point_eq_c1; grind

theorem point_neg (P : AffPt) : affNeg P = mkPoint P.curve P.x (Point_neg_e0 P.curve.p P.y) none := rfl

theorem point_double (P : AffPt) :
    affDouble P = (inverseMod (Point_double_e0 P.y) P.curve.p).bind fun inv =>
      let l := Point_double_let2 P.x P.curve.a inv P.curve.p
      let x3 := Point_double_let3 l P.x P.curve.p
      let y3 := Point_double_let4 l P.x x3 P.y P.curve.p
      (mkPoint P.curve x3 y3 none).bind fun R => .ok (.aff R) := rfl

theorem point_add (P Q : AffPt) :
    affAdd P (.aff Q) =
      if !(P.curve.eqv Q.curve) then .error .assertionError
      else if Point_add_if3 P.x Q.x then
        (if Point_add_if4 P.y Q.y P.curve.p then .ok .infinity else affDouble P)
      else (inverseMod (Point_add_e0 Q.x P.x) P.curve.p).bind fun inv =>
        let l := Point_add_let1 Q.y P.y inv P.curve.p
        let x3 := Point_add_let2 l P.x Q.x P.curve.p
        let y3 := Point_add_let3 l P.x x3 P.y P.curve.p
        (mkPoint P.curve x3 y3 none).bind fun R => .ok (.aff R) := by
  unfold affAdd Point_add_if3 Point_add_if4 pmod
  by_cases hc : P.curve.eqv Q.curve <;> by_cases hx : P.x = Q.x <;> simp [hc, hx]
  all_goals first
    | rfl
    | (by_cases hy : (P.y + Q.y).fmod P.curve.p = 0 <;> simp [hy])

/-- the other operand kinds of `Point.__add__` / `Point.__eq__` -/
theorem point_dispatch (P : AffPt) (Q : PJ) :
    affAdd P .infinity = .ok (.aff P) ∧ affAdd P (.jac Q) = pjAdd Q (.aff P)
    ∧ affEq P .infinity = false ∧ affEq P (.jac Q) = pjEq Q (.aff P) := ⟨rfl, rfl, rfl, rfl⟩

end C06t.Tie

namespace C07t.Tie

/-! ### skeletons -/

theorem skel_naf : skel_PJ_naf = Curve.Skel.PJ_naf := rfl
theorem skel_maybe_precompute : skel_PJ_maybe_precompute = Curve.Skel.PJ_maybe_precompute := rfl
theorem skel_mul_precompute : skel_PJ_mul_precompute = Curve.Skel.PJ_mul_precompute := rfl
theorem skel_mul : skel_PJ_mul = Curve.Skel.PJ_mul ∧ skel_PJ_rmul = Curve.Skel.PJ_rmul := ⟨rfl, rfl⟩
theorem skel_mul_add : skel_PJ_mul_add = Curve.Skel.PJ_mul_add := rfl
theorem skel_point_mul : skel_Point_mul = Curve.Skel.Point_mul ∧ skel_Point_rmul = Curve.Skel.Point_rmul := ⟨rfl, rfl⟩

/-! ### `_naf` -/

/-- one round of `while mult:` written with the generated tests and expressions -/
theorem naf_step (mult : Int) :
    nafStep mult =
      if PJ_naf_if0 mult then
        let nd := PJ_naf_let1 mult
        let nd := if PJ_naf_if1 nd then PJ_naf_let2 nd else nd
        (nd, PJ_naf_let4 (PJ_naf_let3 mult nd))
      else (0, PJ_naf_let4 mult) := by
  unfold nafStep PJ_naf_if0 PJ_naf_if1 PJ_naf_let1 PJ_naf_let2 PJ_naf_let3 PJ_naf_let4 pmod pdiv
  by_cases h : Int.fmod mult 2 = 0 <;> simp [h]
  all_goals (by_cases h2 : Int.fmod mult 4 ≥ 2 <;> simp [h2])

/-- the loop runs while `mult` is non-zero, least significant digit first -/
theorem naf_loop (mult : Int) :
    naf mult = if PJ_naf_while0 mult then (nafStep mult).1 :: naf (nafStep mult).2 else [] := by
  unfold PJ_naf_while0
  rw [naf]
  by_cases h : mult = 0 <;> simp [h]

/-! ### the generator table (`_maybe_precompute`) -/

theorem table_order (P : PJ) :
    precomputeTable P =
      match truthy P.order with
      | none => .error .assertionError
      | some order =>
        let doubler : PJ := ⟨P.curve, P.x, P.y, P.z, some (PJ_maybe_precompute_let3 order), false⟩
        (pjX doubler).bind fun x => (pjY doubler).bind fun y =>
          tableLoop (PJ_maybe_precompute_let6 (PJ_maybe_precompute_let3 order)) 1 (by decide) doubler [(x, y)] := by
  unfold precomputeTable PJ_maybe_precompute_let3 PJ_maybe_precompute_let6
  cases truthy P.order <;> rfl

/-- `assert order` is the truthiness of `self.__order` (`None` and `0` fail) -/
theorem table_assert (o : Option Int) : (truthy o).isSome = PJ_maybe_precompute_assert0 (o.getD 0) := by
  unfold truthy PJ_maybe_precompute_assert0
  cases o with
  | none => simp
  | some n => by_cases h : n = 0 <;> simp [h]

theorem table_loop (bound i : Int) (hi : 0 < i) (doubler : PJ) (acc : List (Int × Int)) :
    tableLoop bound i hi doubler acc =
      if PJ_maybe_precompute_while0 i bound then
        match pjDouble doubler with
        | .jac D => (pjScale D).bind fun S => (pjX S).bind fun x => (pjY S).bind fun y =>
            tableLoop bound (PJ_maybe_precompute_let7 i) (by unfold PJ_maybe_precompute_let7; omega) S (acc ++ [(x, y)])
        | _ => .error .attributeError
      else .ok acc := by
  unfold PJ_maybe_precompute_while0 PJ_maybe_precompute_let7
  rw [tableLoop]
  by_cases h : i < bound <;> simp [h]
  cases pjDouble doubler <;> rfl

/-- the table is built only for a generator whose table is still empty -/
theorem maybe_precompute (P : PJ) (pre : List (Int × Int)) :
    maybePrecompute P pre = if !P.generator || !pre.isEmpty then .ok pre else precomputeTable P := rfl

/-! ### `_mul_precompute` -/

theorem mul_precompute_step (p a : Int) (st : Int × Int × Int × Int) (e : Int × Int) :
    mulPrecomputeStep p a st e =
      if PJ_mul_precompute_if0 st.1 then
        if PJ_mul_precompute_if1 st.1 then
          (PJ_mul_precompute_let2 st.1, Gen.k_add st.2.1 st.2.2.1 st.2.2.2 e.1 (PJ_mul_precompute_e0 e.2) 1 p a)
        else (PJ_mul_precompute_let4 st.1, Gen.k_add st.2.1 st.2.2.1 st.2.2.2 e.1 e.2 1 p a)
      else (PJ_mul_precompute_let6 st.1, st.2.1, st.2.2.1, st.2.2.2) := by
  unfold mulPrecomputeStep PJ_mul_precompute_if0 PJ_mul_precompute_if1 PJ_mul_precompute_let2 PJ_mul_precompute_let4
    PJ_mul_precompute_let6 PJ_mul_precompute_e0 pmod pdiv
  by_cases h : Int.fmod st.1 2 = 0 <;> simp [h]
  all_goals (by_cases h2 : Int.fmod st.1 4 ≥ 2 <;> simp [h2])

/-- starts from `(0, 0, 1)`, folds over the table, ends with the exit test -/
theorem mul_precompute (P : PJ) (table : List (Int × Int)) (k : Int) :
    mulPrecompute P table k =
      (let st := table.foldl (mulPrecomputeStep P.curve.p P.curve.a) (k, 0, 0, 1)
       if PJ_mul_precompute_if2 st.2.2.1 st.2.2.2 then .infinity
       else .jac ⟨P.curve, st.2.1, st.2.2.1, st.2.2.2, P.order, false⟩) := by
  unfold mulPrecompute
  simp only [C06t.Tie.coords_out]
  rfl

/-! ### `__mul__` -/

theorem mul_naf_step (p a X2 Y2 : Int) (acc : Int × Int × Int) (i : Int) :
    mulNafStep p a X2 Y2 acc i =
      (let d := Gen.k_double acc.1 acc.2.1 acc.2.2 p a
       if PJ_mul_if4 i then Gen.k_add d.1 d.2.1 d.2.2 X2 (PJ_mul_e0 Y2) 1 p a
       else if PJ_mul_if5 i then Gen.k_add d.1 d.2.1 d.2.2 X2 Y2 1 p a
       else d) := by
  unfold mulNafStep PJ_mul_if4 PJ_mul_if5 PJ_mul_e0
  by_cases h : i < 0 <;> by_cases h2 : i > 0 <;> simp [h, h2]

/-- `__mul__` restated with the generated tests: the two early exits in source order, the reduction modulo
`2 * order` (only when the order is truthy), the table path, else scale + NAF loop from `(0, 0, 1)` + exit test -/
theorem mul (pre : List (Int × Int)) (P : PJ) (k : Int) :
    pjMulWith pre P k =
      if PJ_mul_if0 P.y k then .ok .infinity
      else if PJ_mul_if1 k then .ok (.jac P)
      else
        let k := match truthy P.order with
          | some o => PJ_mul_let0 k o
          | none => k
        (maybePrecompute P pre).bind fun table =>
          if !table.isEmpty then .ok (mulPrecompute P table k)
          else (pjScale P).bind fun S =>
            let acc := (naf k).reverse.foldl (mulNafStep S.curve.p S.curve.a S.x S.y) (0, 0, 1)
            .ok (if PJ_mul_if6 acc.2.1 acc.2.2 then .infinity else .jac ⟨S.curve, acc.1, acc.2.1, acc.2.2, S.order, false⟩) := by
  unfold pjMulWith PJ_mul_if0 PJ_mul_if1 PJ_mul_let0 pmod
  by_cases h1 : P.y = 0 <;> by_cases h2 : k = 0 <;> by_cases h3 : k = 1 <;> simp [h1, h2, h3]
  all_goals (simp only [C06t.Tie.coords_out]; rfl)

/-- `if self.__order:` is the truthiness of the order -/
theorem mul_order_test (o : Option Int) :
    (truthy o).isSome = PJ_mul_if2 (o.getD 0) ∧ (truthy o).isSome = PJ_mul_add_if4 (o.getD 0) := by
  unfold truthy PJ_mul_if2 PJ_mul_add_if4
  cases o with
  | none => simp
  | some n => by_cases h : n = 0 <;> simp [h]

/-! ### `mul_add` -/

/-- early exits in source order, conversion of a legacy point, the two tables -/
theorem mul_add_exits (preP preQ : List (Int × Int)) (P : PJ) (sm : Int) (other : Pt) (om : Int) :
    ((ptIsInf other || PJ_mul_add_c0 om) = true → pjMulAddWith preP preQ P sm other om = pjMulWith preP P sm)
    ∧ ((ptIsInf other || PJ_mul_add_c0 om) = false → PJ_mul_add_if1 sm = true →
        pjMulAddWith preP preQ P sm other om = ptMulWith preQ other om) := by
  unfold PJ_mul_add_c0 PJ_mul_add_if1
  constructor
  · intro h
    unfold pjMulAddWith
    have : (ptIsInf other || om == 0) = true := by grind
    simp [this]
  · intro h h2
    unfold pjMulAddWith
    have h' : (ptIsInf other || om == 0) = false := by grind
    have h2' : (sm == 0) = true := by grind
    simp [h', h2']

/-- fall back to two multiplications when `P + Q` is the identity -/
theorem mul_add_fallback (Y Z : Int) : (Y == 0 || Z == 0) = PJ_mul_add_if5 Y Z := by
  unfold PJ_mul_add_if5; grind

/-- the main path of `mul_add` (both early exits not taken, `other` a `PointJacobi` — a legacy point is first converted
by `from_affine`), restated with the generated tests / expressions in source order: the two tables; the two-table
shortcut; the reductions by `self.__order`; `self.scale()` before `other.scale()`; the four combined points with their
negations; the fall-back when `P + Q` is the identity; NAF padding; the dispatch loop from `(0, 0, 1)`; the exit test -/
theorem mul_add_main (preP preQ : List (Int × Int)) (P Q : PJ) (sm om : Int)
    (h1 : (pjEqInf Q || PJ_mul_add_c0 om) = false) (h2 : PJ_mul_add_if1 sm = false) :
    pjMulAddWith preP preQ P sm (.jac Q) om =
      (maybePrecompute P preP).bind fun tP => (maybePrecompute Q preQ).bind fun tQ =>
        if !tP.isEmpty && !tQ.isEmpty then
          (pjMulWith tP P sm).bind fun r1 => (pjMulWith tQ Q om).bind fun r2 => ptAdd r1 r2
        else
          let smom := match truthy P.order with
            | some o => (PJ_mul_add_let1 sm o, PJ_mul_add_let2 om o)
            | none => (sm, om)
          let p := P.curve.p
          let a := P.curve.a
          (pjScale P).bind fun SP => (pjScale Q).bind fun SQ =>
            let mAmB := Gen.k_add SP.x (PJ_mul_add_e0 SP.y) SP.z SQ.x (PJ_mul_add_e1 SQ.y) SQ.z p a
            let pAmB := Gen.k_add SP.x SP.y SP.z SQ.x (PJ_mul_add_e2 SQ.y) SQ.z p a
            let mApB := Gen.k_add SP.x (PJ_mul_add_e3 SP.y) SP.z SQ.x SQ.y SQ.z p a
            let pApB := Gen.k_add SP.x SP.y SP.z SQ.x SQ.y SQ.z p a
            if PJ_mul_add_if5 pApB.2.1 pApB.2.2 then
              (pjMulWith tP SP smom.1).bind fun r1 => (pjMulWith tQ SQ smom.2).bind fun r2 => ptAdd r1 r2
            else
              let nafs := padNafs (naf smom.1).reverse (naf smom.2).reverse
              let acc := (nafs.1.zip nafs.2).foldl
                (mulAddStep p a (SP.x, SP.y, SP.z) (SQ.x, SQ.y, SQ.z) mAmB pAmB mApB pApB) (0, 0, 1)
              .ok (coordsOut P.curve P.order acc) := by
  unfold PJ_mul_add_c0 at h1
  unfold PJ_mul_add_if1 at h2
  have h1' : (ptIsInf (.jac Q) || om == 0) = false := by
    unfold ptIsInf; grind
  have h2' : (sm == 0) = false := by grind
  unfold pjMulAddWith
  simp only [h1', h2', Bool.false_eq_true, if_false, mul_add_fallback]
  cases truthy P.order <;> rfl

/-- a legacy `Point` operand enters the same path as `from_affine(other)` (Z = 1, not a generator) -/
theorem mul_add_affine (preP preQ : List (Int × Int)) (P : PJ) (A : AffPt) (sm om : Int)
    (h1 : PJ_mul_add_c0 om = false) (h2 : PJ_mul_add_if1 sm = false) (hq : pjEqInf (pjFromAffine A) = false) :
    pjMulAddWith preP preQ P sm (.aff A) om = pjMulAddWith preP preQ P sm (.jac (pjFromAffine A)) om := by
  unfold PJ_mul_add_c0 at h1
  unfold PJ_mul_add_if1 at h2
  have h2' : (sm == 0) = false := by grind
  have h1' : (om == 0) = false := by grind
  unfold pjMulAddWith
  simp only [ptIsInf, h1', h2', hq, Bool.or_false, Bool.false_eq_true, if_false]

/-- the reductions `self_mul % self.__order`, `other_mul % self.__order` (BOTH by the order of `self`) -/
theorem mul_add_reduce (sm om o : Int) :
    (pmod sm o, pmod om o) = (PJ_mul_add_let1 sm o, PJ_mul_add_let2 om o) := rfl

/-- the four combined points: which operand is negated in which -/
theorem mul_add_combos (X1 Y1 Z1 X2 Y2 Z2 p a : Int) :
    Gen.k_add X1 (-Y1) Z1 X2 (-Y2) Z2 p a = Gen.k_add X1 (PJ_mul_add_e0 Y1) Z1 X2 (PJ_mul_add_e1 Y2) Z2 p a
    ∧ Gen.k_add X1 Y1 Z1 X2 (-Y2) Z2 p a = Gen.k_add X1 Y1 Z1 X2 (PJ_mul_add_e2 Y2) Z2 p a
    ∧ Gen.k_add X1 (-Y1) Z1 X2 Y2 Z2 p a = Gen.k_add X1 (PJ_mul_add_e3 Y1) Z1 X2 Y2 Z2 p a := ⟨rfl, rfl, rfl⟩

/-- zero-padding of the shorter NAF on the left -/
theorem mul_add_pad (sa sb : List Int) :
    padNafs sa sb =
      if PJ_mul_add_if6 sa.length sb.length then
        (List.replicate (PJ_mul_add_e4 sb.length sa.length).toNat 0 ++ sa, sb)
      else if PJ_mul_add_if7 sa.length sb.length then
        (sa, List.replicate (PJ_mul_add_e5 sa.length sb.length).toNat 0 ++ sb)
      else (sa, sb) := by
  unfold padNafs PJ_mul_add_if6 PJ_mul_add_if7 PJ_mul_add_e4 PJ_mul_add_e5
  by_cases h1 : sa.length < sb.length <;> by_cases h2 : sa.length > sb.length <;> simp [h1, h2]
  all_goals (congr 2; omega)

/-- the 9-way digit dispatch with the generated tests, negations and operand order -/
theorem mul_add_step (p a : Int) (P1 P2 mAmB pAmB mApB pApB acc : Int × Int × Int) (A B : Int) :
    mulAddStep p a P1 P2 mAmB pAmB mApB pApB acc (A, B) =
      (let d := Gen.k_double acc.1 acc.2.1 acc.2.2 p a
       let add := fun (t : Int × Int × Int) => Gen.k_add d.1 d.2.1 d.2.2 t.1 t.2.1 t.2.2 p a
       if PJ_mul_add_if8 A then
         if PJ_mul_add_if9 B then d
         else if PJ_mul_add_if10 B then add (P2.1, PJ_mul_add_e6 P2.2.1, P2.2.2)
         else add P2
       else if PJ_mul_add_if11 A then
         if PJ_mul_add_if12 B then add (P1.1, PJ_mul_add_e7 P1.2.1, P1.2.2)
         else if PJ_mul_add_if13 B then add mAmB
         else add mApB
       else
         if PJ_mul_add_if14 B then add P1
         else if PJ_mul_add_if15 B then add pAmB
         else add pApB) := by
  unfold mulAddStep PJ_mul_add_if8 PJ_mul_add_if9 PJ_mul_add_if10 PJ_mul_add_if11 PJ_mul_add_if12 PJ_mul_add_if13
    PJ_mul_add_if14 PJ_mul_add_if15 PJ_mul_add_e6 PJ_mul_add_e7
  by_cases hA0 : A = 0 <;> by_cases hA : A < 0 <;> by_cases hB0 : B = 0 <;> by_cases hB : B < 0 <;>
    simp [hA0, hA, hB0, hB]

/-- the `assert`s inside the dispatch can not fail: they follow from the tests before them -/
theorem mul_add_asserts (A B : Int) :
    (PJ_mul_add_if9 B = false → PJ_mul_add_if10 B = false → PJ_mul_add_assert0 B = true)
    ∧ (PJ_mul_add_if8 A = false → PJ_mul_add_if11 A = false → PJ_mul_add_assert2 A = true)
    ∧ PJ_mul_add_assert1 B = PJ_mul_add_assert0 B ∧ PJ_mul_add_assert3 B = PJ_mul_add_assert0 B := by
  unfold PJ_mul_add_if8 PJ_mul_add_if9 PJ_mul_add_if10 PJ_mul_add_if11 PJ_mul_add_assert0 PJ_mul_add_assert1
    PJ_mul_add_assert2 PJ_mul_add_assert3
  refine ⟨?_, ?_, rfl, rfl⟩ <;> grind

theorem mul_add_exit (c : CurveFp) (order : Option Int) (t : Int × Int × Int) :
    coordsOut c order t = if PJ_mul_add_if16 t.2.1 t.2.2 then .infinity else .jac ⟨c, t.1, t.2.1, t.2.2, order, false⟩ :=
  C06t.Tie.coords_out c order t

/-! ### legacy `Point.__mul__` and `leftmost_bit` -/

theorem leftmost_loop (x result : Nat) (h : 0 < result) :
    leftmostLoop x result h =
      if Point_mul_while0 result x then leftmostLoop x (Point_mul_let1 result).toNat (by unfold Point_mul_let1; omega)
      else (Point_mul_ret0 result).toNat := by
  unfold Point_mul_while0 Point_mul_let1 Point_mul_ret0
  rw [leftmostLoop]
  by_cases h2 : result ≤ x
  · have : ((2 : Int) * (result : Int)).toNat = 2 * result := by omega
    simp [h2, this]
  · have : (Int.fdiv (result : Int) 2).toNat = result / 2 := by
      rw [Int.fdiv_eq_ediv_of_nonneg _ (by decide)]; omega
    simp [h2, this]

/-- early exits of `Point.__mul__` in source order, `(-self) * (-e)` for a negative scalar -/
theorem point_mul (P : AffPt) (e : Int) :
    affMul P e =
      if Point_mul_if0 e ((truthy P.order).getD 0) then .ok .infinity
      else if Point_mul_if2 e then (affNeg P).bind fun N => affMulPos N (Point_mul_e0 e)
      else affMulPos P e := by
  unfold affMul Point_mul_if0 Point_mul_if2 Point_mul_e0 pmod
  cases ho : truthy P.order with
  | none =>
    by_cases h0 : e = 0 <;> by_cases h1 : e < 0 <;> simp [h0, h1] <;> rfl
  | some o =>
    have ho' : o ≠ 0 := by
      unfold truthy at ho
      cases hq : P.order with
      | none => rw [hq] at ho; cases ho
      | some n => rw [hq] at ho; by_cases hn : n = 0 <;> simp [hn] at ho; omega
    by_cases h0 : e = 0 <;> by_cases h1 : e < 0 <;> by_cases h2 : Int.fmod e o = 0 <;> simp [h0, h1, h2, ho'] <;> rfl

/-- `e3 = 3 * e`, `negative_self` with `-y % p`, the start index `leftmost_bit(e3) // 2`, `result = self` -/
theorem point_mul_pos (P : AffPt) (e : Int) :
    affMulPos P e =
      (mkPoint P.curve P.x (Point_mul_e1 P.y P.curve.p) P.order).bind fun negSelf =>
        affMulLoop (.aff P) (.aff negSelf) e.toNat (Point_mul_let3 e).toNat
          (Point_mul_let5 (leftmostBit (Point_mul_let3 e).toNat)).toNat (.aff P) := by
  unfold affMulPos Point_mul_e1 Point_mul_let3 Point_mul_let5 pmod
  have : ∀ n : Nat, (Int.fdiv (n : Int) 2).toNat = n / 2 := by
    intro n; rw [Int.fdiv_eq_ediv_of_nonneg _ (by decide)]; omega
  simp only [this]
  rfl

/-- one round of `while i > 1:` — double, conditional `+ self`, conditional `+ negative_self`, `i // 2` -/
theorem point_mul_loop (self negSelf : Pt) (e e3 i : Nat) (result : Pt) :
    affMulLoop self negSelf e e3 i result =
      if Point_mul_while1 i then
        (ptDouble result).bind fun r =>
          (if Point_mul_if3 e3 i e then ptAdd r self else pure r).bind fun r =>
            (if Point_mul_if4 e3 i e then ptAdd r negSelf else pure r).bind fun r =>
              affMulLoop self negSelf e e3 (Point_mul_let10 i).toNat r
      else .ok result := by
  unfold Point_mul_while1 Point_mul_if3 Point_mul_if4 Point_mul_let10
  rw [affMulLoop]
  have hd : (Int.fdiv (i : Int) 2).toNat = i / 2 := by
    rw [Int.fdiv_eq_ediv_of_nonneg _ (by decide)]; omega
  simp only [pand_nat, hd]
  by_cases h : i > 1
  · have h' : ((i : Int) > 1) := by omega
    simp only [h, h', dite_true, decide_true, if_true]
    have e1 : ((e3 &&& i) != 0 && (e &&& i) == 0) = (decide (((e3 &&& i : Nat) : Int) ≠ 0) && decide (((e &&& i : Nat) : Int) = 0)) := by
      grind
    have e2 : ((e3 &&& i) == 0 && (e &&& i) != 0) = (decide (((e3 &&& i : Nat) : Int) = 0) && decide (((e &&& i : Nat) : Int) ≠ 0)) := by
      grind
    rw [e1, e2]
    generalize (decide (((e3 &&& i : Nat) : Int) ≠ 0) && decide (((e &&& i : Nat) : Int) = 0)) = b1
    generalize (decide (((e3 &&& i : Nat) : Int) = 0) && decide (((e &&& i : Nat) : Int) ≠ 0)) = b2
    cases b1 <;> cases b2 <;> rfl
  · have h' : ¬ ((i : Int) > 1) := by omega
    simp [h, h']

end C07t.Tie
