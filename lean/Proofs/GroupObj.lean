import Proofs.JacRep
import Proofs.InvMod
import Model.Curve
/-!
# Proofs.GroupObj — the object layer of `PointJacobi` (`+`, `double`, `-`, `==`, `x()`, `y()`, `scale`, `to_affine`)

Denotation of model values: `PJRep p a b H P g` — the `PointJacobi` value `P` lies on the curve (p, a, b), its stored
coordinates are in [0, p) ("as the library produces them") and they are a proper (non-identity) representation of
`g ∈ H`; the library never keeps an identity in a `PointJacobi` (it returns INFINITY).  `PtRep` extends this to
INFINITY and legacy affine points.
-/
namespace Jac
open WeierstrassCurve WeierstrassCurve.Jacobian Curve

variable {p : ℕ} [hp : Fact p.Prime]

def InRange (p : ℕ) (x : ℤ) : Prop := 0 ≤ x ∧ x < p

omit hp in
@[simp] theorem ok_bind {ε α β : Type} (x : α) (f : α → Except ε β) : (Except.ok x >>= f) = f x := rfl
omit hp in
@[simp] theorem error_bind {ε α β : Type} (e : ε) (f : α → Except ε β) :
    ((Except.error e : Except ε α) >>= f) = Except.error e := rfl

theorem InRange.zt {x : ℤ} (h : InRange p x) : ZT p x :=
  zt_of_range (by
    have := h.1
    have : (0 : ℤ) < p := by exact_mod_cast hp.out.pos
    omega) h.2

theorem inRange_fmod (x : ℤ) : InRange p (Int.fmod x (p : ℤ)) := ⟨fmod_nonneg x, fmod_lt x⟩

theorem inRange_zero : InRange p 0 := ⟨le_refl _, by exact_mod_cast hp.out.pos⟩
theorem inRange_one : InRange p 1 := ⟨by norm_num, by exact_mod_cast hp.out.one_lt⟩

def InRange3 (p : ℕ) (t : ℤ × ℤ × ℤ) : Prop := InRange p t.1 ∧ InRange p t.2.1 ∧ InRange p t.2.2

theorem k_double_with_z_1_inRange (X1 Y1 a : ℤ) : InRange3 p (Gen.k_double_with_z_1 X1 Y1 p a) := by
  unfold Gen.k_double_with_z_1
  simp only []
  split_ifs
  · exact ⟨inRange_zero, inRange_zero, inRange_one⟩
  · exact ⟨inRange_fmod _, inRange_fmod _, inRange_fmod _⟩

theorem k_double_inRange (X1 Y1 Z1 a : ℤ) : InRange3 p (Gen.k_double X1 Y1 Z1 p a) := by
  unfold Gen.k_double
  simp only []
  split_ifs
  · exact k_double_with_z_1_inRange _ _ _
  · exact ⟨inRange_zero, inRange_zero, inRange_one⟩
  · exact ⟨inRange_zero, inRange_zero, inRange_one⟩
  · exact ⟨inRange_fmod _, inRange_fmod _, inRange_fmod _⟩

theorem k_add_inRange {X1 Y1 Z1 X2 Z2 : ℤ} (Y2 a : ℤ) (h1 : InRange3 p (X1, Y1, Z1)) (hx : InRange p X2)
    (hz : InRange p Z2) : InRange3 p (Gen.k_add X1 Y1 Z1 X2 Y2 Z2 p a) := by
  unfold Gen.k_add
  split_ifs
  · exact ⟨hx, inRange_fmod _, hz⟩
  · exact h1
  · unfold Gen.k_add_with_z_1; simp only []; split_ifs
    · exact k_double_with_z_1_inRange _ _ _
    · exact ⟨inRange_fmod _, inRange_fmod _, inRange_fmod _⟩
  · unfold Gen.k_add_with_z_eq; simp only []; split_ifs
    · exact k_double_inRange _ _ _ _
    · exact ⟨inRange_fmod _, inRange_fmod _, inRange_fmod _⟩
  · unfold Gen.k_add_with_z2_1; simp only []; split_ifs
    · exact k_double_with_z_1_inRange _ _ _
    · exact ⟨inRange_fmod _, inRange_fmod _, inRange_fmod _⟩
  · unfold Gen.k_add_with_z2_1; simp only []; split_ifs
    · exact k_double_with_z_1_inRange _ _ _
    · exact ⟨inRange_fmod _, inRange_fmod _, inRange_fmod _⟩
  · unfold Gen.k_add_with_z_ne; simp only []; split_ifs
    · exact k_double_inRange _ _ _ _
    · exact ⟨inRange_fmod _, inRange_fmod _, inRange_fmod _⟩

/-! ### denotation of model values -/

/-- the curve object has the parameters (p, a, b) -/
def OnCurve (p : ℕ) (a b : ℤ) (c : CurveFp) : Prop := c.p = p ∧ c.a = a ∧ c.b = b

variable {a b : ℤ} {H : AddSubgroup (Grp (a : ZMod p) (b : ZMod p))}

/-- a stored `PointJacobi` value denoting `g` -/
def PJRep (p : ℕ) [Fact p.Prime] (a b : ℤ) (H : AddSubgroup (Grp (a : ZMod p) (b : ZMod p)))
    (P : PJ) (g : Grp (a : ZMod p) (b : ZMod p)) : Prop :=
  OnCurve p a b P.curve ∧ InRange3 p (P.x, P.y, P.z) ∧
    Good (a : ZMod p) (b : ZMod p) H (cast3 p (P.x, P.y, P.z)) g

/-- a legacy affine `Point` value denoting `g` -/
def AffRep (p : ℕ) [Fact p.Prime] (a b : ℤ) (H : AddSubgroup (Grp (a : ZMod p) (b : ZMod p)))
    (A : AffPt) (g : Grp (a : ZMod p) (b : ZMod p)) : Prop :=
  OnCurve p a b A.curve ∧ InRange p A.x ∧ InRange p A.y ∧ g ∈ H ∧
    ∃ h : (shortW (a : ZMod p) (b : ZMod p)).toAffine.Nonsingular (A.x : ZMod p) (A.y : ZMod p),
      Affine.Point.some _ _ h = g

/-- any point value denoting `g` -/
def PtRep (p : ℕ) [Fact p.Prime] (a b : ℤ) (H : AddSubgroup (Grp (a : ZMod p) (b : ZMod p))) :
    Pt → Grp (a : ZMod p) (b : ZMod p) → Prop
  | .infinity, g => g = 0
  | .jac P, g => PJRep p a b H P g
  | .aff A, g => AffRep p a b H A g

theorem PJRep.irep {P : PJ} {g} (h : PJRep p a b H P g) : IRep p a b H (P.x, P.y, P.z) g :=
  ⟨h.2.1.2.1.zt, h.2.1.2.2.zt, h.2.2.rep⟩

theorem PJRep.y_ne {P : PJ} {g} (h : PJRep p a b H P g) : P.y ≠ 0 := by
  intro h0; have := h.2.2.2.1; simp [cast3, h0] at this

theorem PJRep.z_ne {P : PJ} {g} (h : PJRep p a b H P g) : P.z ≠ 0 := by
  intro h0; have := h.2.2.2.2.1; simp [cast3, h0] at this

theorem PJRep.mem {P : PJ} {g} (h : PJRep p a b H P g) : g ∈ H := h.2.2.1

theorem PtRep.mem {R : Pt} {g} (h : PtRep p a b H R g) : g ∈ H := by
  cases R with
  | infinity => simp only [PtRep] at h; rw [h]; exact H.zero_mem
  | jac P => exact PJRep.mem h
  | aff A => exact h.2.2.2.1

theorem good_ne_zero {P : Fin 3 → ZMod p} {g} (h : Good (a : ZMod p) (b : ZMod p) H P g) : g ≠ 0 := by
  obtain ⟨_, _, hz, hn, rfl⟩ := h
  rw [Point.toAffine_of_Z_ne_zero hn hz]; exact Affine.Point.some_ne_zero _

/-- under N2T an affine point of H has y ≠ 0, so (x, y, 1) is a proper representation -/
theorem AffRep.good (hH : NoOrder2 H) {A : AffPt} {g} (h : AffRep p a b H A g) :
    Good (a : ZMod p) (b : ZMod p) H (cast3 p (A.x, A.y, 1)) g := by
  obtain ⟨_, _, _, hm, hn, rfl⟩ := h
  have hns : (shortW (a : ZMod p) (b : ZMod p)).Nonsingular ![(A.x : ZMod p), (A.y : ZMod p), 1] :=
    (nonsingular_some ..).mpr hn
  have hy : (A.y : ZMod p) ≠ 0 := by
    intro hy
    have h2 := toAffine_order_two hns (by simp) (by simpa using hy)
    rw [Point.toAffine_some hns] at h2
    exact h2.2 (hH _ hm h2.1)
  simpa using good_of_affine hn hm hy

theorem AffRep.y_ne (hH : NoOrder2 H) {A : AffPt} {g} (h : AffRep p a b H A g) : A.y ≠ 0 := by
  intro h0; have := (h.good hH).2.1; simp [cast3, h0] at this

/-- the stored-object view of an affine point -/
theorem AffRep.pj (hH : NoOrder2 H) {A : AffPt} {g} (h : AffRep p a b H A g) (gen : Bool) :
    PJRep p a b H (pjFromAffine A gen) g :=
  ⟨h.1, ⟨h.2.1, h.2.2.1, inRange_one⟩, h.good hH⟩

/-- `coordsOut` turns a represented accumulator into a represented point value -/
theorem coordsOut_rep {c : CurveFp} (hc : OnCurve p a b c) (o : Option ℤ) {t : ℤ × ℤ × ℤ} {g}
    (h : IRep p a b H t g) (hr : InRange3 p t) : PtRep p a b H (coordsOut c o t) g := by
  unfold coordsOut
  split_ifs with h0
  · simp only [Bool.or_eq_true, beq_iff_eq] at h0
    exact h.eq_zero h0
  · simp only [Bool.or_eq_true, beq_iff_eq, not_or] at h0
    exact ⟨hc, hr, h.good h0.1 h0.2⟩

omit hp in
theorem OnCurve.eqv {c d : CurveFp} (hc : OnCurve p a b c) (hd : OnCurve p a b d) : c.eqv d = true := by
  simp [CurveFp.eqv, hc.1, hc.2.1, hc.2.2, hd.1, hd.2.1, hd.2.2]

theorem pjEqInf_false {P : PJ} {g} (h : PJRep p a b H P g) : pjEqInf P = false := by
  simp [pjEqInf, h.y_ne, h.z_ne]

/-- the core of `__add__` on two stored objects -/
theorem pjAddCore_correct (hp2 : p ≠ 2) (hH : NoOrder2 H) {P Q : PJ} {g h}
    (hP : PJRep p a b H P g) (hQ : PJRep p a b H Q h) :
    ∃ R, pjAddCore P Q = .ok R ∧ PtRep p a b H R (g + h) := by
  unfold pjAddCore
  rw [hP.1.eqv hQ.1]
  simp only [Bool.not_true, Bool.false_eq_true, if_false]
  refine ⟨_, rfl, ?_⟩
  rw [hP.1.1, hP.1.2.1]
  exact coordsOut_rep hP.1 _ (k_add_correct hp2 hH hP.irep hQ.irep)
    (k_add_inRange _ _ hP.2.1 hQ.2.1.1 hQ.2.1.2.2)

/-- **`PointJacobi.__add__`** with any point value as second operand -/
theorem pjAdd_correct (hp2 : p ≠ 2) (hH : NoOrder2 H) {P : PJ} {other : Pt} {g h}
    (hP : PJRep p a b H P g) (hQ : PtRep p a b H other h) :
    ∃ R, pjAdd P other = .ok R ∧ PtRep p a b H R (g + h) := by
  unfold pjAdd
  simp only [pjEq, pjEqInf_false hP, Bool.false_eq_true, if_false]
  cases other with
  | infinity =>
    simp only [PtRep] at hQ
    exact ⟨_, rfl, by rw [hQ, add_zero]; exact hP⟩
  | jac Q =>
    simp only [pjEqInf_false hQ, Bool.false_eq_true, if_false]
    exact pjAddCore_correct hp2 hH hP hQ
  | aff A => exact pjAddCore_correct hp2 hH hP (AffRep.pj hH hQ false)

/-- **`PointJacobi.double`** -/
theorem pjDouble_correct (hH : NoOrder2 H) {P : PJ} {g} (hP : PJRep p a b H P g) :
    PtRep p a b H (pjDouble P) (g + g) := by
  unfold pjDouble
  simp only [beq_iff_eq, hP.y_ne, if_false]
  rw [hP.1.1, hP.1.2.1]
  exact coordsOut_rep hP.1 _ (k_double_correct hH hP.irep) (k_double_inRange _ _ _ _)

/-- **`PointJacobi.__neg__`** (after F2 the stored y is `-y % p`) -/
theorem pjNeg_correct {P : PJ} {g} (hP : PJRep p a b H P g) : PJRep p a b H (pjNeg P) (-g) := by
  refine ⟨hP.1, ⟨hP.2.1.1, ?_, hP.2.1.2.2⟩, ?_⟩
  · simp only [pjNeg, pmod, hP.1.1]; exact inRange_fmod _
  · have := good_neg hP.2.2
    simp only [pjNeg, pmod, hP.1.1]
    convert this using 2
    simp [cast3]

/-- the cross-multiplied comparison of `__eq__` is equivalence of triples -/
theorem coordsEq_iff (x1 y1 z1 x2 y2 z2 : ℤ) :
    coordsEq p x1 y1 z1 x2 y2 z2 = true ↔
      ((x1 : ZMod p) * z2 ^ 2 = x2 * z1 ^ 2 ∧ (y1 : ZMod p) * z2 ^ 3 = y2 * z1 ^ 3) := by
  simp only [coordsEq, pmod, Bool.and_eq_true, beq_iff_eq, fmod_eq_zero_iff]
  kcast
  constructor
  · rintro ⟨h1, h2⟩; exact ⟨by linear_combination h1, by linear_combination h2⟩
  · rintro ⟨h1, h2⟩; exact ⟨by linear_combination h1, by linear_combination h2⟩

omit hp in
/-- away from identity-valued operands `__eq__` is the cross-multiplied comparison (fix F13 put an identity test first) -/
theorem eqCoords_of_ne {q x1 y1 z1 x2 y2 z2 : ℤ} (h1 : y1 ≠ 0) (h2 : z1 ≠ 0) (h3 : y2 ≠ 0) (h4 : z2 ≠ 0) :
    eqCoords q x1 y1 z1 x2 y2 z2 = coordsEq q x1 y1 z1 x2 y2 z2 := by
  simp [eqCoords, h1, h2, h3, h4]

/-- **`PointJacobi.__eq__`** decides equality of the denoted group elements -/
theorem pjEq_iff (hH : NoOrder2 H) {P : PJ} {other : Pt} {g h}
    (hP : PJRep p a b H P g) (hQ : PtRep p a b H other h) : pjEq P other = true ↔ g = h := by
  cases other with
  | infinity =>
    simp only [PtRep] at hQ
    simp only [pjEq, pjEqInf_false hP, Bool.false_eq_true, false_iff, hQ]
    exact good_ne_zero hP.2.2
  | jac Q =>
    simp only [pjEq, hP.1.eqv hQ.1, Bool.not_true, Bool.false_eq_true, if_false, hP.1.1,
      eqCoords_of_ne hP.y_ne hP.z_ne (PJRep.y_ne hQ) (PJRep.z_ne hQ), coordsEq_iff]
    rw [← good_equiv_iff hP.2.2 hQ.2.2, equiv_iff_cross hP.2.2.2.2.1 hQ.2.2.2.2.1]
    simp [cast3]
  | aff A =>
    have hA := AffRep.pj hH hQ false
    simp only [pjEq, hP.1.eqv hQ.1, Bool.not_true, Bool.false_eq_true, if_false, hP.1.1,
      eqCoords_of_ne hP.y_ne hP.z_ne (AffRep.y_ne hH hQ) one_ne_zero, coordsEq_iff]
    rw [← good_equiv_iff hP.2.2 hA.2.2, equiv_iff_cross hP.2.2.2.2.1 hA.2.2.2.2.1]
    simp [cast3, pjFromAffine]

omit hp in
theorem some_congr {W : WeierstrassCurve.Affine (ZMod p)} {x y x' y' : ZMod p} (ex : x = x') (ey : y = y')
    (h : W.Nonsingular x y) : ∃ h' : W.Nonsingular x' y', Affine.Point.some x y h = Affine.Point.some x' y' h' := by
  subst ex; subst ey; exact ⟨h, rfl⟩

/-- the affine coordinates of the element denoted by a proper representation -/
theorem good_coords {P : Fin 3 → ZMod p} {g} (h : Good (a : ZMod p) (b : ZMod p) H P g) :
    ∃ hn : (shortW (a : ZMod p) (b : ZMod p)).toAffine.Nonsingular (P 0 / P 2 ^ 2) (P 1 / P 2 ^ 3),
      g = Affine.Point.some _ _ hn := by
  obtain ⟨_, _, hz, hn, rfl⟩ := h
  exact ⟨_, Point.toAffine_of_Z_ne_zero hn hz⟩

/-- **`x()` and `y()`**: canonical residues, and they are the affine coordinates of the denoted point -/
theorem pjXY_correct {P : PJ} {g} (hP : PJRep p a b H P g) :
    ∃ x y, pjX P = .ok x ∧ pjY P = .ok y ∧ InRange p x ∧ InRange p y ∧
      ∃ hn : (shortW (a : ZMod p) (b : ZMod p)).toAffine.Nonsingular (x : ZMod p) (y : ZMod p),
        g = Affine.Point.some _ _ hn := by
  obtain ⟨hn0, hg⟩ := good_coords hP.2.2
  simp only [cast3_mk, Matrix.cons_val_zero, Matrix.cons_val_one, Matrix.cons_val_two, Matrix.head_cons,
    Matrix.tail_cons] at hn0 hg
  by_cases hz : P.z = 1
  · refine ⟨P.x, P.y, by simp [pjX, hz], by simp [pjY, hz], hP.2.1.1, hP.2.1.2.1, ?_⟩
    obtain ⟨h', e⟩ := some_congr (x' := (P.x : ZMod p)) (y' := (P.y : ZMod p)) (by simp [hz]) (by simp [hz]) hn0
    exact ⟨h', hg.trans e⟩
  · have hzf : (P.z : ZMod p) ≠ 0 := by simpa [cast3] using hP.2.2.2.2.1
    obtain ⟨zi, hzi, _, _, hc⟩ := InvMod.inverseMod_prime_cast p P.z hzf
    refine ⟨pmod (P.x * zi ^ 2) p, pmod (P.y * zi ^ 3) p, ?_, ?_, inRange_fmod _, inRange_fmod _, ?_⟩
    · simp only [pjX, hz, if_false, hP.1.1, hzi]; rfl
    · simp only [pjY, hz, if_false, hP.1.1, hzi]; rfl
    · obtain ⟨h', e⟩ := some_congr (x' := ((pmod (P.x * zi ^ 2) p : ℤ) : ZMod p))
        (y' := ((pmod (P.y * zi ^ 3) p : ℤ) : ZMod p))
        (by simp only [pmod]; kcast; rw [hc]; field_simp)
        (by simp only [pmod]; kcast; rw [hc]; field_simp) hn0
      exact ⟨h', hg.trans e⟩

/-- **`scale()`**: the object afterwards has Z = 1, reduced coordinates and denotes the same element -/
theorem pjScale_correct {P : PJ} {g} (hP : PJRep p a b H P g) :
    ∃ S, pjScale P = .ok S ∧ PJRep p a b H S g ∧ S.z = 1 ∧ S.curve = P.curve ∧ S.order = P.order ∧
      S.generator = P.generator := by
  by_cases hz : P.z = 1
  · exact ⟨P, by simp [pjScale, hz], hP, hz, rfl, rfl, rfl⟩
  · have hzf : (P.z : ZMod p) ≠ 0 := by simpa [cast3] using hP.2.2.2.2.1
    obtain ⟨zi, hzi, _, _, hc⟩ := InvMod.inverseMod_prime_cast p P.z hzf
    refine ⟨⟨P.curve, pmod (P.x * pmod (zi * zi) p) p, pmod (P.y * pmod (zi * zi) p * zi) p, 1, P.order,
      P.generator⟩, by simp only [pjScale, hz, if_false, hP.1.1, hzi]; rfl, ⟨hP.1, ?_, ?_⟩, rfl, rfl, rfl, rfl⟩
    · exact ⟨inRange_fmod _, inRange_fmod _, inRange_one⟩
    · have := good_smul hP.2.2 (inv_ne_zero hzf)
      convert this using 2
      simp only [pmod, cast3_mk, Matrix.cons_val_zero, Matrix.cons_val_one, Matrix.cons_val_two,
        Matrix.head_cons, Matrix.tail_cons]
      kcast
      rw [hc]
      congr 1
      · ring
      · congr 1
        · ring
        · rw [inv_mul_cancel₀ hzf]

/-- membership test of `Point.__init__` on a nonsingular affine point -/
theorem containsPoint_of {c : CurveFp} (hc : OnCurve p a b c) {x y : ℤ}
    (h : (shortW (a : ZMod p) (b : ZMod p)).toAffine.Nonsingular (x : ZMod p) (y : ZMod p)) :
    containsPoint c x y = true := by
  have e : (y : ZMod p) ^ 2 = (x : ZMod p) ^ 3 + a * x + b := by
    have := (Affine.equation_iff _ _).mp h.left
    simpa [shortW] using this
  simp only [containsPoint, pmod, hc.1, hc.2.1, hc.2.2, beq_iff_eq, fmod_eq_zero_iff]
  kcast
  linear_combination e

/-- **`to_affine()`** -/
theorem pjToAffine_correct {P : PJ} {g} (hP : PJRep p a b H P g) :
    ∃ A, pjToAffine P = .ok (.aff A) ∧ AffRep p a b H A g ∧ A.order = P.order := by
  obtain ⟨S, hS, rS, zS, cS, oS, _⟩ := pjScale_correct hP
  obtain ⟨hn0, hg⟩ := good_coords rS.2.2
  simp only [cast3_mk, Matrix.cons_val_zero, Matrix.cons_val_one, Matrix.cons_val_two, Matrix.head_cons,
    Matrix.tail_cons, zS, Int.cast_one, one_pow, div_one] at hn0 hg
  refine ⟨⟨S.curve, S.x, S.y, S.order⟩, ?_, ⟨rS.1, rS.2.1.1, rS.2.1.2.1, rS.mem, hn0, hg.symm⟩, oS⟩
  have h0 : (P.y == 0 || P.z == 0) = false := by simp [hP.y_ne, hP.z_ne]
  simp only [pjToAffine, h0, Bool.false_eq_true, if_false, hS, ok_bind, mkPoint, containsPoint_of rS.1 hn0,
    if_true]

end Jac
