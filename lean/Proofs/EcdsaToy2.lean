import Proofs.EcdsaRecoverBase
import Mathlib.Tactic.IntervalCases
import Mathlib.Tactic.FinCases
/-!
# Proofs.EcdsaToy2 — a concrete instance of `RecoverOpsCorrect` on a real curve (non-vacuity of C14)

`y² = x³ + 2x + 1` over `𝔽₅` has 7 points: `∞, G=(0,1), 2G=(1,3), 3G=(3,3), 4G=(3,2), 5G=(1,2), 6G=(0,4)`.
A point object is its discrete logarithm in `ZMod 7`; coordinates come from that table.
-/
namespace Ecdsa.Toy2

def xval (A : ZMod 7) : ℤ := match A.val with
  | 1 => 0 | 6 => 0 | 2 => 1 | 5 => 1 | 3 => 3 | 4 => 3 | _ => 0
def yval (A : ZMod 7) : ℤ := match A.val with
  | 1 => 1 | 2 => 3 | 3 => 3 | 4 => 2 | 5 => 2 | 6 => 4 | _ => 0
def xc (A : ZMod 7) : Option ℤ := if A = 0 then none else some (xval A)

def mk (x y : ℤ) : ZMod 7 :=
  if x = 0 ∧ y = 1 then 1 else if x = 1 ∧ y = 3 then 2 else if x = 3 ∧ y = 3 then 3
  else if x = 3 ∧ y = 2 then 4 else if x = 1 ∧ y = 2 then 5 else if x = 0 ∧ y = 4 then 6 else 0

def ops : PointOps (ZMod 7) where
  order := 7
  p := 5
  a := 2
  b := 1
  cofactorIsOne := true
  genHasMulAdd := true
  mulG k := .ok (k : ZMod 7)
  mulAddG u1 Q u2 := .ok ((u1 : ZMod 7) + (u2 : ZMod 7) * Q)
  mul k Q := .ok ((k : ZMod 7) * Q)
  add A B := .ok (A + B)
  isInfinity A := decide (A = 0)
  xOf A := if A = 0 then .error .typeError else .ok (xval A)
  yOf A := if A = 0 then .error .typeError else .ok (yval A)
  scale A := .ok A
  containsPoint x y := decide ((y * y - (x ^ 3 + 2 * x + 1)) % 5 = 0)
  mkPoint x y := mk x y
  fromAffine A := A
  isInfObj A := decide (A = 0)

/-- square roots modulo 5 by table -/
def sqrt (a _p : ℤ) : Res ℤ := if a = 0 then .ok 0 else if a = 1 then .ok 1 else if a = 4 then .ok 2 else .error .squareRoot

theorem base : PointOpsCorrect ops (1 : ZMod 7) id xc (fun _ => True) where
  n_prime := by decide
  nG := by decide
  G_ne := by decide
  xc_none := by decide
  xc_neg := by decide
  xc_range := by
    intro R x h
    revert x
    revert R
    decide
  mulG k := ⟨(k : ZMod 7), rfl, trivial, by simp⟩
  mulAddG _ u1 Q u2 _ := ⟨_, rfl, trivial, by simp⟩
  mul k Q _ := ⟨_, rfl, trivial, by simp⟩
  add A B _ _ := ⟨_, rfl, trivial, rfl⟩
  isInf A _ := by simp [ops]
  xOf A _ h := ⟨xval A, by simp [ops, show A ≠ 0 from h], by simp [xc, show A ≠ 0 from h]⟩
  yOf A _ h := by
    refine ⟨yval A, by simp [ops, show A ≠ 0 from h], ?_, ?_⟩ <;> (revert A; decide)
  scale A _ := ⟨A, rfl, trivial, rfl⟩
  fromAffine A _ := ⟨trivial, rfl⟩
  isInfObj A _ h := by simp [ops, show A ≠ 0 from h]

theorem correct : RecoverOpsCorrect ops (1 : ZMod 7) id xc (fun _ => True) where
  toPointOpsCorrect := base
  containsPoint_iff x y := by simp [ops, OnC]
  mkPoint_valid := by
    intro x y hx0 hx1 hy0 hy1 hc _
    have hx1 : x < 5 := hx1
    have hy1 : y < 5 := hy1
    interval_cases x <;> interval_cases y <;> revert hc <;> decide
  mkPoint_neg := by
    intro x y y' hx0 hx1 hy0 hy1 hz0 hz1 hc _ hs
    have hx1 : x < 5 := hx1
    have hy1 : y < 5 := hy1
    have hz1 : y' < 5 := hz1
    interval_cases x <;> interval_cases y <;> interval_cases y' <;> revert hc hs <;> decide
  xc_inj := by decide
  xc_curve := by
    intro R x h
    refine ⟨yval R, ?_⟩
    unfold OnC
    revert x
    revert R
    decide
  on_curve := by
    intro A _ hne x y hx hy
    have hA : A ≠ 0 := hne
    simp only [ops, hA, if_false] at hx hy
    injection hx with hx; injection hy with hy
    subst hx; subst hy
    revert hA
    revert A
    decide

theorem sqrt_spec : SqrtSpec sqrt ops.p := by
  intro a h0 h1 hy
  have h1 : a < 5 := h1
  have hp : ops.p = 5 := rfl
  rw [hp] at hy ⊢
  interval_cases a
  · exact ⟨0, rfl, by decide, by decide, by decide⟩
  · exact ⟨1, rfl, by decide, by decide, by decide⟩
  · exfalso
    obtain ⟨y, hy⟩ := hy
    have h5 : (y * y - 2) % 5 = ((y % 5) * (y % 5) - 2) % 5 := by
      rw [Int.sub_emod, Int.mul_emod, ← Int.sub_emod]
    rw [h5] at hy
    have := Int.emod_nonneg y (show (5 : ℤ) ≠ 0 by decide)
    have := Int.emod_lt_of_pos y (show (0 : ℤ) < 5 by decide)
    generalize y % 5 = z at *
    interval_cases z <;> omega
  · exfalso
    obtain ⟨y, hy⟩ := hy
    have h5 : (y * y - 3) % 5 = ((y % 5) * (y % 5) - 3) % 5 := by
      rw [Int.sub_emod, Int.mul_emod, ← Int.sub_emod]
    rw [h5] at hy
    have := Int.emod_nonneg y (show (5 : ℤ) ≠ 0 by decide)
    have := Int.emod_lt_of_pos y (show (0 : ℤ) < 5 by decide)
    generalize y % 5 = z at *
    interval_cases z <;> omega
  · exact ⟨2, rfl, by decide, by decide, by decide⟩

end Ecdsa.Toy2
