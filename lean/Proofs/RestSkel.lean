/-!
# Proofs.RestSkel — pinned source skeletons of the parts of `src/ecdsa` that no other translator covers

`harness/tiecoverage.py` measures, by mutation, which functions and module-level statements of the library the
generators of `harness/translate` see.  What none of them saw is re-extracted on every run by `gen_rest.py`
(`Generated/RestGuards.lean`): the module-level skeleton of every module (imports, constants, `__all__`, the GMPY /
Python-version dispatch with the definitions inside it, exception classes, class-level statements, `INFINITY = …`;
top-level functions and methods by header) and the control skeleton of each function of the list in `gen_rest.py`.
This file is the text the hand-written models, the correspondence harnesses and the proofs were made against;
`Props/Ct*.lean` prove generated = pinned, so a change there breaks the tie of the properties that depend on the module.
Update an entry ONLY after re-checking the model / harness that relies on it.
-/
namespace Rest.Skel

def mod_init : List String := [
  "import six",
  "from .keys import SigningKey, VerifyingKey, BadSignatureError, BadDigestError, MalformedPointError",
  "from .curves import NIST192p, NIST224p, NIST256p, NIST384p, NIST521p, SECP256k1, BRAINPOOLP160r1, BRAINPOOLP192r1, BRAINPOOLP224r1, BRAINPOOLP256r1, BRAINPOOLP320r1, BRAINPOOLP384r1, BRAINPOOLP512r1, SECP112r1, SECP112r2, SECP128r1, SECP160r1",
  "from .ecdh import ECDH, NoKeyError, NoCurveError, InvalidCurveError, InvalidSharedSecretError",
  "from .der import UnexpectedDER",
  "from ._version import get_versions",
  "__version__ = get_versions()['version']",
  "del get_versions",
  "__all__ = ['curves', 'der', 'ecdsa', 'ellipticcurve', 'keys', 'numbertheory', 'test_pyecdsa', 'util', 'six']",
  "_hush_pyflakes = [SigningKey, VerifyingKey, BadSignatureError, BadDigestError, MalformedPointError, UnexpectedDER, InvalidCurveError, NoKeyError, InvalidSharedSecretError, ECDH, NoCurveError, NIST192p, NIST224p, NIST256p, NIST384p, NIST521p, SECP256k1, BRAINPOOLP160r1, BRAINPOOLP192r1, BRAINPOOLP224r1, BRAINPOOLP256r1, BRAINPOOLP320r1, BRAINPOOLP384r1, BRAINPOOLP512r1, SECP112r1, SECP112r2, SECP128r1, SECP160r1, six.b('')]",
  "del _hush_pyflakes"
]

def mod_compat : List String := [
  "import sys",
  "import re",
  "from six import integer_types",
  "def str_idx_as_int(string, index)",
  "if sys.version_info < (3, 0)",
  ".def normalise_bytes(buffer_object)",
  "..return buffer(buffer_object)",
  ".def hmac_compat(ret)",
  "..return ret",
  ".if sys.version_info < (2, 7) or sys.version_info < (2, 7, 4)",
  "..def remove_whitespace(text)",
  "...return re.sub('\\\\s+', '', text)",
  ".else",
  "..def remove_whitespace(text)",
  "...return re.sub('\\\\s+', '', text, flags=re.UNICODE)",
  "else",
  ".if sys.version_info < (3, 4)",
  "..def hmac_compat(data)",
  "...if not isinstance(data, bytes)",
  "....return bytes(data)",
  "...return data",
  ".else",
  "..def hmac_compat(data)",
  "...return data",
  ".def normalise_bytes(buffer_object)",
  "..return memoryview(buffer_object).cast('B')",
  ".def remove_whitespace(text)",
  "..return re.sub('\\\\s+', '', text, flags=re.UNICODE)"
]

def mod_rwlock : List String := [
  "import threading",
  "__author__ = 'Mateusz Kobos'",
  "class RWLock()",
  ".def __init__(self)",
  ".def reader_acquire(self)",
  ".def reader_release(self)",
  ".def writer_acquire(self)",
  ".def writer_release(self)",
  "class _LightSwitch()",
  ".def __init__(self)",
  ".def acquire(self, lock)",
  ".def release(self, lock)"
]

def mod_curves : List String := [
  "from __future__ import division",
  "from . import der, ecdsa",
  "from .util import orderlen",
  "__all__ = ['UnknownCurveError', 'orderlen', 'Curve', 'SECP112r1', 'SECP112r2', 'SECP128r1', 'SECP160r1', 'NIST192p', 'NIST224p', 'NIST256p', 'NIST384p', 'NIST521p', 'curves', 'find_curve', 'SECP256k1', 'BRAINPOOLP160r1', 'BRAINPOOLP192r1', 'BRAINPOOLP224r1', 'BRAINPOOLP256r1', 'BRAINPOOLP320r1', 'BRAINPOOLP384r1', 'BRAINPOOLP512r1']",
  "class UnknownCurveError(Exception)",
  ".pass",
  "class Curve()",
  ".def __init__(self, name, curve, generator, oid, openssl_name=None)",
  ".def __repr__(self)",
  "SECP112r1 = Curve('SECP112r1', ecdsa.curve_112r1, ecdsa.generator_112r1, (1, 3, 132, 0, 6), 'secp112r1')",
  "SECP112r2 = Curve('SECP112r2', ecdsa.curve_112r2, ecdsa.generator_112r2, (1, 3, 132, 0, 7), 'secp112r2')",
  "SECP128r1 = Curve('SECP128r1', ecdsa.curve_128r1, ecdsa.generator_128r1, (1, 3, 132, 0, 28), 'secp128r1')",
  "SECP160r1 = Curve('SECP160r1', ecdsa.curve_160r1, ecdsa.generator_160r1, (1, 3, 132, 0, 8), 'secp160r1')",
  "NIST192p = Curve('NIST192p', ecdsa.curve_192, ecdsa.generator_192, (1, 2, 840, 10045, 3, 1, 1), 'prime192v1')",
  "NIST224p = Curve('NIST224p', ecdsa.curve_224, ecdsa.generator_224, (1, 3, 132, 0, 33), 'secp224r1')",
  "NIST256p = Curve('NIST256p', ecdsa.curve_256, ecdsa.generator_256, (1, 2, 840, 10045, 3, 1, 7), 'prime256v1')",
  "NIST384p = Curve('NIST384p', ecdsa.curve_384, ecdsa.generator_384, (1, 3, 132, 0, 34), 'secp384r1')",
  "NIST521p = Curve('NIST521p', ecdsa.curve_521, ecdsa.generator_521, (1, 3, 132, 0, 35), 'secp521r1')",
  "SECP256k1 = Curve('SECP256k1', ecdsa.curve_secp256k1, ecdsa.generator_secp256k1, (1, 3, 132, 0, 10), 'secp256k1')",
  "BRAINPOOLP160r1 = Curve('BRAINPOOLP160r1', ecdsa.curve_brainpoolp160r1, ecdsa.generator_brainpoolp160r1, (1, 3, 36, 3, 3, 2, 8, 1, 1, 1), 'brainpoolP160r1')",
  "BRAINPOOLP192r1 = Curve('BRAINPOOLP192r1', ecdsa.curve_brainpoolp192r1, ecdsa.generator_brainpoolp192r1, (1, 3, 36, 3, 3, 2, 8, 1, 1, 3), 'brainpoolP192r1')",
  "BRAINPOOLP224r1 = Curve('BRAINPOOLP224r1', ecdsa.curve_brainpoolp224r1, ecdsa.generator_brainpoolp224r1, (1, 3, 36, 3, 3, 2, 8, 1, 1, 5), 'brainpoolP224r1')",
  "BRAINPOOLP256r1 = Curve('BRAINPOOLP256r1', ecdsa.curve_brainpoolp256r1, ecdsa.generator_brainpoolp256r1, (1, 3, 36, 3, 3, 2, 8, 1, 1, 7), 'brainpoolP256r1')",
  "BRAINPOOLP320r1 = Curve('BRAINPOOLP320r1', ecdsa.curve_brainpoolp320r1, ecdsa.generator_brainpoolp320r1, (1, 3, 36, 3, 3, 2, 8, 1, 1, 9), 'brainpoolP320r1')",
  "BRAINPOOLP384r1 = Curve('BRAINPOOLP384r1', ecdsa.curve_brainpoolp384r1, ecdsa.generator_brainpoolp384r1, (1, 3, 36, 3, 3, 2, 8, 1, 1, 11), 'brainpoolP384r1')",
  "BRAINPOOLP512r1 = Curve('BRAINPOOLP512r1', ecdsa.curve_brainpoolp512r1, ecdsa.generator_brainpoolp512r1, (1, 3, 36, 3, 3, 2, 8, 1, 1, 13), 'brainpoolP512r1')",
  "curves = [NIST192p, NIST224p, NIST256p, NIST384p, NIST521p, SECP256k1, BRAINPOOLP160r1, BRAINPOOLP192r1, BRAINPOOLP224r1, BRAINPOOLP256r1, BRAINPOOLP320r1, BRAINPOOLP384r1, BRAINPOOLP512r1, SECP112r1, SECP112r2, SECP128r1, SECP160r1]",
  "def find_curve(oid_curve)"
]

def mod_der : List String := [
  "from __future__ import division",
  "import binascii",
  "import base64",
  "import warnings",
  "from itertools import chain",
  "from six import int2byte, b, text_type, integer_types",
  "from ._compat import str_idx_as_int",
  "class UnexpectedDER(Exception)",
  ".pass",
  "def encode_constructed(tag, value)",
  "def encode_integer(r)",
  "_sentry = object()",
  "def encode_bitstring(s, unused=_sentry)",
  "def encode_octet_string(s)",
  "def encode_oid(first, second, *pieces)",
  "def encode_sequence(*encoded_pieces)",
  "def encode_number(n)",
  "def is_sequence(string)",
  "def remove_constructed(string)",
  "def remove_sequence(string)",
  "def remove_octet_string(string)",
  "def oid_to_text(oid)",
  "def remove_object(string)",
  "def remove_integer(string)",
  "def read_number(string)",
  "def encode_length(l)",
  "def read_length(string)",
  "def remove_bitstring(string, expect_unused=_sentry)",
  "def unpem(pem)",
  "def topem(der, name)"
]

def mod_ecdh : List String := [
  "from .util import number_to_string",
  "from .ellipticcurve import INFINITY",
  "from .keys import SigningKey, VerifyingKey",
  "__all__ = ['ECDH', 'NoKeyError', 'NoCurveError', 'InvalidCurveError', 'InvalidSharedSecretError']",
  "class NoKeyError(Exception)",
  ".pass",
  "class NoCurveError(Exception)",
  ".pass",
  "class InvalidCurveError(Exception)",
  ".pass",
  "class InvalidSharedSecretError(Exception)",
  ".pass",
  "class ECDH(object)",
  ".def __init__(self, curve=None, private_key=None, public_key=None)",
  ".def _get_shared_secret(self, remote_public_key)",
  ".def set_curve(self, key_curve)",
  ".def generate_private_key(self)",
  ".def load_private_key(self, private_key)",
  ".def load_private_key_bytes(self, private_key)",
  ".def load_private_key_der(self, private_key_der)",
  ".def load_private_key_pem(self, private_key_pem)",
  ".def get_public_key(self)",
  ".def load_received_public_key(self, public_key)",
  ".def load_received_public_key_bytes(self, public_key_str)",
  ".def load_received_public_key_der(self, public_key_der)",
  ".def load_received_public_key_pem(self, public_key_pem)",
  ".def generate_sharedsecret_bytes(self)",
  ".def generate_sharedsecret(self)"
]

def mod_ecdsa : List String := [
  "from six import int2byte, b",
  "from . import ellipticcurve",
  "from . import numbertheory",
  "from .util import bit_length",
  "from ._compat import remove_whitespace",
  "class RSZeroError(RuntimeError)",
  ".pass",
  "class InvalidPointError(RuntimeError)",
  ".pass",
  "class Signature(object)",
  ".def __init__(self, r, s)",
  ".def recover_public_keys(self, hash, generator)",
  "class Public_key(object)",
  ".def __init__(self, generator, point, verify=True)",
  ".def __eq__(self, other)",
  ".def __ne__(self, other)",
  ".def verifies(self, hash, signature)",
  "class Private_key(object)",
  ".def __init__(self, public_key, secret_multiplier)",
  ".def __eq__(self, other)",
  ".def __ne__(self, other)",
  ".def sign(self, hash, random_k)",
  "def int_to_string(x)",
  "def string_to_int(s)",
  "def digest_integer(m)",
  "def point_is_valid(generator, x, y)",
  "_p = int(remove_whitespace('DB7C 2ABF62E3 5E668076 BEAD208B'), 16)",
  "_a = int(remove_whitespace('DB7C 2ABF62E3 5E668076 BEAD2088'), 16)",
  "_b = int(remove_whitespace('659E F8BA0439 16EEDE89 11702B22'), 16)",
  "_Gx = int(remove_whitespace('09487239 995A5EE7 6B55F9C2 F098'), 16)",
  "_Gy = int(remove_whitespace('A89C E5AF8724 C0A23E0E 0FF77500'), 16)",
  "_r = int(remove_whitespace('DB7C 2ABF62E3 5E7628DF AC6561C5'), 16)",
  "_h = 1",
  "curve_112r1 = ellipticcurve.CurveFp(_p, _a, _b, _h)",
  "generator_112r1 = ellipticcurve.PointJacobi(curve_112r1, _Gx, _Gy, 1, _r, generator=True)",
  "_p = int(remove_whitespace('DB7C 2ABF62E3 5E668076 BEAD208B'), 16)",
  "_a = int(remove_whitespace('6127 C24C05F3 8A0AAAF6 5C0EF02C'), 16)",
  "_b = int(remove_whitespace('51DE F1815DB5 ED74FCC3 4C85D709'), 16)",
  "_Gx = int(remove_whitespace('4BA30AB5 E892B4E1 649DD092 8643'), 16)",
  "_Gy = int(remove_whitespace('ADCD 46F5882E 3747DEF3 6E956E97'), 16)",
  "_r = int(remove_whitespace('36DF 0AAFD8B8 D7597CA1 0520D04B'), 16)",
  "_h = 4",
  "curve_112r2 = ellipticcurve.CurveFp(_p, _a, _b, _h)",
  "generator_112r2 = ellipticcurve.PointJacobi(curve_112r2, _Gx, _Gy, 1, _r, generator=True)",
  "_p = int(remove_whitespace('FFFFFFFD FFFFFFFF FFFFFFFF FFFFFFFF'), 16)",
  "_b = int(remove_whitespace('E87579C1 1079F43D D824993C 2CEE5ED3'), 16)",
  "_Gx = int(remove_whitespace('161FF752 8B899B2D 0C28607C A52C5B86'), 16)",
  "_Gy = int(remove_whitespace('CF5AC839 5BAFEB13 C02DA292 DDED7A83'), 16)",
  "_r = int(remove_whitespace('FFFFFFFE 00000000 75A30D1B 9038A115'), 16)",
  "_h = 1",
  "curve_128r1 = ellipticcurve.CurveFp(_p, -3, _b, _h)",
  "generator_128r1 = ellipticcurve.PointJacobi(curve_128r1, _Gx, _Gy, 1, _r, generator=True)",
  "_p = int(remove_whitespace('FFFFFFFF FFFFFFFF FFFFFFFF FFFFFFFF 7FFFFFFF'), 16)",
  "_b = int(remove_whitespace('1C97BEFC 54BD7A8B 65ACF89F 81D4D4AD C565FA45'), 16)",
  "_Gx = int(remove_whitespace('4A96B568 8EF57328 46646989 68C38BB9 13CBFC82'), 16)",
  "_Gy = int(remove_whitespace('23A62855 3168947D 59DCC912 04235137 7AC5FB32'), 16)",
  "_r = int(remove_whitespace('01 00000000 00000000 0001F4C8 F927AED3 CA752257'), 16)",
  "_h = 1",
  "curve_160r1 = ellipticcurve.CurveFp(_p, -3, _b, _h)",
  "generator_160r1 = ellipticcurve.PointJacobi(curve_160r1, _Gx, _Gy, 1, _r, generator=True)",
  "_p = 6277101735386680763835789423207666416083908700390324961279",
  "_r = 6277101735386680763835789423176059013767194773182842284081",
  "_b = int(remove_whitespace('\\n    64210519 E59C80E7 0FA7E9AB 72243049 FEB8DEEC C146B9B1'), 16)",
  "_Gx = int(remove_whitespace('\\n    188DA80E B03090F6 7CBF20EB 43A18800 F4FF0AFD 82FF1012'), 16)",
  "_Gy = int(remove_whitespace('\\n    07192B95 FFC8DA78 631011ED 6B24CDD5 73F977A1 1E794811'), 16)",
  "curve_192 = ellipticcurve.CurveFp(_p, -3, _b, 1)",
  "generator_192 = ellipticcurve.PointJacobi(curve_192, _Gx, _Gy, 1, _r, generator=True)",
  "_p = int(remove_whitespace('\\n    2695994666715063979466701508701963067355791626002630814351\\n    0066298881'))",
  "_r = int(remove_whitespace('\\n    2695994666715063979466701508701962594045780771442439172168\\n    2722368061'))",
  "_b = int(remove_whitespace('\\n    B4050A85 0C04B3AB F5413256 5044B0B7 D7BFD8BA 270B3943\\n    2355FFB4'), 16)",
  "_Gx = int(remove_whitespace('\\n    B70E0CBD 6BB4BF7F 321390B9 4A03C1D3 56C21122 343280D6\\n    115C1D21'), 16)",
  "_Gy = int(remove_whitespace('\\n    BD376388 B5F723FB 4C22DFE6 CD4375A0 5A074764 44D58199\\n    85007E34'), 16)",
  "curve_224 = ellipticcurve.CurveFp(_p, -3, _b, 1)",
  "generator_224 = ellipticcurve.PointJacobi(curve_224, _Gx, _Gy, 1, _r, generator=True)",
  "_p = int(remove_whitespace('\\n    1157920892103562487626974469494075735300861434152903141955\\n    33631308867097853951'))",
  "_r = int(remove_whitespace('\\n    115792089210356248762697446949407573529996955224135760342\\n    422259061068512044369'))",
  "_b = int(remove_whitespace('\\n    5AC635D8 AA3A93E7 B3EBBD55 769886BC 651D06B0 CC53B0F6\\n    3BCE3C3E 27D2604B'), 16)",
  "_Gx = int(remove_whitespace('\\n    6B17D1F2 E12C4247 F8BCE6E5 63A440F2 77037D81 2DEB33A0\\n    F4A13945 D898C296'), 16)",
  "_Gy = int(remove_whitespace('\\n    4FE342E2 FE1A7F9B 8EE7EB4A 7C0F9E16 2BCE3357 6B315ECE\\n    CBB64068 37BF51F5'), 16)",
  "curve_256 = ellipticcurve.CurveFp(_p, -3, _b, 1)",
  "generator_256 = ellipticcurve.PointJacobi(curve_256, _Gx, _Gy, 1, _r, generator=True)",
  "_p = int(remove_whitespace('\\n    3940200619639447921227904010014361380507973927046544666794\\n    8293404245721771496870329047266088258938001861606973112319'))",
  "_r = int(remove_whitespace('\\n    3940200619639447921227904010014361380507973927046544666794\\n    6905279627659399113263569398956308152294913554433653942643'))",
  "_b = int(remove_whitespace('\\n    B3312FA7 E23EE7E4 988E056B E3F82D19 181D9C6E FE814112\\n    0314088F 5013875A C656398D 8A2ED19D 2A85C8ED D3EC2AEF'), 16)",
  "_Gx = int(remove_whitespace('\\n    AA87CA22 BE8B0537 8EB1C71E F320AD74 6E1D3B62 8BA79B98\\n    59F741E0 82542A38 5502F25D BF55296C 3A545E38 72760AB7'), 16)",
  "_Gy = int(remove_whitespace('\\n    3617DE4A 96262C6F 5D9E98BF 9292DC29 F8F41DBD 289A147C\\n    E9DA3113 B5F0B8C0 0A60B1CE 1D7E819D 7A431D7C 90EA0E5F'), 16)",
  "curve_384 = ellipticcurve.CurveFp(_p, -3, _b, 1)",
  "generator_384 = ellipticcurve.PointJacobi(curve_384, _Gx, _Gy, 1, _r, generator=True)",
  "_p = int('6864797660130609714981900799081393217269435300143305409394463459185543183397656052122559640661454554977296311391480858037121987999716643812574028291115057151')",
  "_r = int('6864797660130609714981900799081393217269435300143305409394463459185543183397655394245057746333217197532963996371363321113864768612440380340372808892707005449')",
  "_b = int(remove_whitespace('\\n         051 953EB961 8E1C9A1F 929A21A0 B68540EE A2DA725B\\n    99B315F3 B8B48991 8EF109E1 56193951 EC7E937B 1652C0BD\\n    3BB1BF07 3573DF88 3D2C34F1 EF451FD4 6B503F00'), 16)",
  "_Gx = int(remove_whitespace('\\n          C6 858E06B7 0404E9CD 9E3ECB66 2395B442 9C648139\\n    053FB521 F828AF60 6B4D3DBA A14B5E77 EFE75928 FE1DC127\\n    A2FFA8DE 3348B3C1 856A429B F97E7E31 C2E5BD66'), 16)",
  "_Gy = int(remove_whitespace('\\n         118 39296A78 9A3BC004 5C8A5FB4 2C7D1BD9 98F54449\\n    579B4468 17AFBD17 273E662C 97EE7299 5EF42640 C550B901\\n    3FAD0761 353C7086 A272C240 88BE9476 9FD16650'), 16)",
  "curve_521 = ellipticcurve.CurveFp(_p, -3, _b, 1)",
  "generator_521 = ellipticcurve.PointJacobi(curve_521, _Gx, _Gy, 1, _r, generator=True)",
  "_a = 0",
  "_b = 7",
  "_p = 115792089237316195423570985008687907853269984665640564039457584007908834671663",
  "_Gx = 55066263022277343669578718895168534326250603453777594175500187360389116729240",
  "_Gy = 32670510020758816978083085130507043184471273380659243275938904335757337482424",
  "_r = 115792089237316195423570985008687907852837564279074904382605163141518161494337",
  "curve_secp256k1 = ellipticcurve.CurveFp(_p, _a, _b, 1)",
  "generator_secp256k1 = ellipticcurve.PointJacobi(curve_secp256k1, _Gx, _Gy, 1, _r, generator=True)",
  "_a = 297190522446607939568481567949428902921613329152",
  "_b = 173245649450172891208247283053495198538671808088",
  "_p = 1332297598440044874827085558802491743757193798159",
  "_Gx = 1089473557631435284577962539738532515920566082499",
  "_Gy = 127912481829969033206777085249718746721365418785",
  "_q = 1332297598440044874827085038830181364212942568457",
  "curve_brainpoolp160r1 = ellipticcurve.CurveFp(_p, _a, _b, 1)",
  "generator_brainpoolp160r1 = ellipticcurve.PointJacobi(curve_brainpoolp160r1, _Gx, _Gy, 1, _q, generator=True)",
  "_a = 2613009377683017747869391908421543348309181741502784219375",
  "_b = 1731160591135112004210203499537764623771657619977468323273",
  "_p = 4781668983906166242955001894344923773259119655253013193367",
  "_Gx = 4723188856514392935399337699153522173525168621081341681622",
  "_Gy = 507884783101387741749746950209061101579755255809652136847",
  "_q = 4781668983906166242955001894269038308119863659119834868929",
  "curve_brainpoolp192r1 = ellipticcurve.CurveFp(_p, _a, _b, 1)",
  "generator_brainpoolp192r1 = ellipticcurve.PointJacobi(curve_brainpoolp192r1, _Gx, _Gy, 1, _q, generator=True)",
  "_a = 11020725272625742361946480833014344015343456918668456061589001510723",
  "_b = 3949606626053374030787926457695139766118442946052311411513528958987",
  "_p = 22721622932454352787552537995910928073340732145944992304435472941311",
  "_Gx = 1428364927244201726431498207475486496993067267318520844137448783997",
  "_Gy = 9337555360448823227812410753177468631215558779020518084752618816205",
  "_q = 22721622932454352787552537995910923612567546342330757191396560966559",
  "curve_brainpoolp224r1 = ellipticcurve.CurveFp(_p, _a, _b, 1)",
  "generator_brainpoolp224r1 = ellipticcurve.PointJacobi(curve_brainpoolp224r1, _Gx, _Gy, 1, _q, generator=True)",
  "_a = 56698187605326110043627228396178346077120614539475214109386828188763884139993",
  "_b = 17577232497321838841075697789794520262950426058923084567046852300633325438902",
  "_p = 76884956397045344220809746629001649093037950200943055203735601445031516197751",
  "_Gx = 63243729749562333355292243550312970334778175571054726587095381623627144114786",
  "_Gy = 38218615093753523893122277964030810387585405539772602581557831887485717997975",
  "_q = 76884956397045344220809746629001649092737531784414529538755519063063536359079",
  "curve_brainpoolp256r1 = ellipticcurve.CurveFp(_p, _a, _b, 1)",
  "generator_brainpoolp256r1 = ellipticcurve.PointJacobi(curve_brainpoolp256r1, _Gx, _Gy, 1, _q, generator=True)",
  "_a = int(remove_whitespace('\\n    3EE30B568FBAB0F883CCEBD46D3F3BB8A2A73513F5EB79DA66190EB085FFA9\\n    F492F375A97D860EB4'), 16)",
  "_b = int(remove_whitespace('\\n    520883949DFDBC42D3AD198640688A6FE13F41349554B49ACC31DCCD884539\\n    816F5EB4AC8FB1F1A6'), 16)",
  "_p = int(remove_whitespace('\\n    D35E472036BC4FB7E13C785ED201E065F98FCFA6F6F40DEF4F92B9EC7893EC\\n    28FCD412B1F1B32E27'), 16)",
  "_Gx = int(remove_whitespace('\\n    43BD7E9AFB53D8B85289BCC48EE5BFE6F20137D10A087EB6E7871E2A10A599\\n    C710AF8D0D39E20611'), 16)",
  "_Gy = int(remove_whitespace('\\n    14FDD05545EC1CC8AB4093247F77275E0743FFED117182EAA9C77877AAAC6A\\n    C7D35245D1692E8EE1'), 16)",
  "_q = int(remove_whitespace('\\n    D35E472036BC4FB7E13C785ED201E065F98FCFA5B68F12A32D482EC7EE8658\\n    E98691555B44C59311'), 16)",
  "curve_brainpoolp320r1 = ellipticcurve.CurveFp(_p, _a, _b, 1)",
  "generator_brainpoolp320r1 = ellipticcurve.PointJacobi(curve_brainpoolp320r1, _Gx, _Gy, 1, _q, generator=True)",
  "_a = int(remove_whitespace('\\n    7BC382C63D8C150C3C72080ACE05AFA0C2BEA28E4FB22787139165EFBA91F9\\n    0F8AA5814A503AD4EB04A8C7DD22CE2826'), 16)",
  "_b = int(remove_whitespace('\\n    04A8C7DD22CE28268B39B55416F0447C2FB77DE107DCD2A62E880EA53EEB62\\n    D57CB4390295DBC9943AB78696FA504C11'), 16)",
  "_p = int(remove_whitespace('\\n    8CB91E82A3386D280F5D6F7E50E641DF152F7109ED5456B412B1DA197FB711\\n    23ACD3A729901D1A71874700133107EC53'), 16)",
  "_Gx = int(remove_whitespace('\\n    1D1C64F068CF45FFA2A63A81B7C13F6B8847A3E77EF14FE3DB7FCAFE0CBD10\\n    E8E826E03436D646AAEF87B2E247D4AF1E'), 16)",
  "_Gy = int(remove_whitespace('\\n    8ABE1D7520F9C2A45CB1EB8E95CFD55262B70B29FEEC5864E19C054FF991292\\n    80E4646217791811142820341263C5315'), 16)",
  "_q = int(remove_whitespace('\\n    8CB91E82A3386D280F5D6F7E50E641DF152F7109ED5456B31F166E6CAC0425\\n    A7CF3AB6AF6B7FC3103B883202E9046565'), 16)",
  "curve_brainpoolp384r1 = ellipticcurve.CurveFp(_p, _a, _b, 1)",
  "generator_brainpoolp384r1 = ellipticcurve.PointJacobi(curve_brainpoolp384r1, _Gx, _Gy, 1, _q, generator=True)",
  "_a = int(remove_whitespace('\\n    7830A3318B603B89E2327145AC234CC594CBDD8D3DF91610A83441CAEA9863\\n    BC2DED5D5AA8253AA10A2EF1C98B9AC8B57F1117A72BF2C7B9E7C1AC4D77FC94CA'), 16)",
  "_b = int(remove_whitespace('\\n    3DF91610A83441CAEA9863BC2DED5D5AA8253AA10A2EF1C98B9AC8B57F1117\\n    A72BF2C7B9E7C1AC4D77FC94CADC083E67984050B75EBAE5DD2809BD638016F723'), 16)",
  "_p = int(remove_whitespace('\\n    AADD9DB8DBE9C48B3FD4E6AE33C9FC07CB308DB3B3C9D20ED6639CCA703308\\n    717D4D9B009BC66842AECDA12AE6A380E62881FF2F2D82C68528AA6056583A48F3'), 16)",
  "_Gx = int(remove_whitespace('\\n    81AEE4BDD82ED9645A21322E9C4C6A9385ED9F70B5D916C1B43B62EEF4D009\\n    8EFF3B1F78E2D0D48D50D1687B93B97D5F7C6D5047406A5E688B352209BCB9F822'), 16)",
  "_Gy = int(remove_whitespace('\\n    7DDE385D566332ECC0EABFA9CF7822FDF209F70024A57B1AA000C55B881F81\\n    11B2DCDE494A5F485E5BCA4BD88A2763AED1CA2B2FA8F0540678CD1E0F3AD80892'), 16)",
  "_q = int(remove_whitespace('\\n    AADD9DB8DBE9C48B3FD4E6AE33C9FC07CB308DB3B3C9D20ED6639CCA703308\\n    70553E5C414CA92619418661197FAC10471DB1D381085DDADDB58796829CA90069'), 16)",
  "curve_brainpoolp512r1 = ellipticcurve.CurveFp(_p, _a, _b, 1)",
  "generator_brainpoolp512r1 = ellipticcurve.PointJacobi(curve_brainpoolp512r1, _Gx, _Gy, 1, _q, generator=True)"
]

def mod_ellipticcurve : List String := [
  "from __future__ import division",
  "try",
  ".from gmpy2 import mpz",
  ".GMPY = True",
  "except ImportError",
  ".try",
  "..from gmpy import mpz",
  "..GMPY = True",
  ".except ImportError",
  "..GMPY = False",
  "from six import python_2_unicode_compatible",
  "from . import numbertheory",
  "@python_2_unicode_compatible",
  "class CurveFp(object)",
  ".if GMPY",
  "..def __init__(self, p, a, b, h=None)",
  "...self.__p = mpz(p)",
  "...self.__a = mpz(a)",
  "...self.__b = mpz(b)",
  "...self.__h = h",
  ".else",
  "..def __init__(self, p, a, b, h=None)",
  "...self.__p = p",
  "...self.__a = a",
  "...self.__b = b",
  "...self.__h = h",
  ".def __eq__(self, other)",
  ".def __ne__(self, other)",
  ".def __hash__(self)",
  ".def p(self)",
  ".def a(self)",
  ".def b(self)",
  ".def cofactor(self)",
  ".def contains_point(self, x, y)",
  ".def __str__(self)",
  "class PointJacobi(object)",
  ".def __init__(self, curve, x, y, z, order=None, generator=False)",
  ".def _maybe_precompute(self)",
  ".def __getstate__(self)",
  ".def __setstate__(self, state)",
  ".def __eq__(self, other)",
  ".def __ne__(self, other)",
  ".def order(self)",
  ".def curve(self)",
  ".def x(self)",
  ".def y(self)",
  ".def scale(self)",
  ".def to_affine(self)",
  ".@staticmethod",
  ".def from_affine(point, generator=False)",
  ".def _double_with_z_1(self, X1, Y1, p, a)",
  ".def _double(self, X1, Y1, Z1, p, a)",
  ".def double(self)",
  ".def _add_with_z_1(self, X1, Y1, X2, Y2, p)",
  ".def _add_with_z_eq(self, X1, Y1, Z1, X2, Y2, p)",
  ".def _add_with_z2_1(self, X1, Y1, Z1, X2, Y2, p)",
  ".def _add_with_z_ne(self, X1, Y1, Z1, X2, Y2, Z2, p)",
  ".def __radd__(self, other)",
  ".def _add(self, X1, Y1, Z1, X2, Y2, Z2, p)",
  ".def __add__(self, other)",
  ".def __rmul__(self, other)",
  ".def _mul_precompute(self, other)",
  ".@staticmethod",
  ".def _naf(mult)",
  ".def __mul__(self, other)",
  ".def mul_add(self, self_mul, other, other_mul)",
  ".def __neg__(self)",
  "class Point(object)",
  ".def __init__(self, curve, x, y, order=None)",
  ".def __eq__(self, other)",
  ".def __ne__(self, other)",
  ".def __neg__(self)",
  ".def __add__(self, other)",
  ".def __mul__(self, other)",
  ".def __rmul__(self, other)",
  ".def __str__(self)",
  ".def double(self)",
  ".def x(self)",
  ".def y(self)",
  ".def curve(self)",
  ".def order(self)",
  "INFINITY = Point(None, None, None)"
]

def mod_keys : List String := [
  "import binascii",
  "from hashlib import sha1",
  "from six import PY2, b",
  "from . import ecdsa",
  "from . import der",
  "from . import rfc6979",
  "from . import ellipticcurve",
  "from .curves import NIST192p, find_curve",
  "from .numbertheory import square_root_mod_prime, SquareRootError",
  "from .ecdsa import RSZeroError",
  "from .util import string_to_number, number_to_string, randrange",
  "from .util import sigencode_string, sigdecode_string, bit_length",
  "from .util import oid_ecPublicKey, encoded_oid_ecPublicKey, oid_ecDH, oid_ecMQV, MalformedSignature",
  "from ._compat import normalise_bytes",
  "__all__ = ['BadSignatureError', 'BadDigestError', 'VerifyingKey', 'SigningKey', 'MalformedPointError']",
  "class BadSignatureError(Exception)",
  ".pass",
  "class BadDigestError(Exception)",
  ".pass",
  "class MalformedPointError(AssertionError)",
  ".pass",
  "def _truncate_and_convert_digest(digest, curve, allow_truncate)",
  "class VerifyingKey(object)",
  ".def __init__(self, _error__please_use_generate=None)",
  ".def __repr__(self)",
  ".def __eq__(self, other)",
  ".def __ne__(self, other)",
  ".@classmethod",
  ".def from_public_point(cls, point, curve=NIST192p, hashfunc=sha1, validate_point=True)",
  ".def precompute(self, lazy=False)",
  ".@staticmethod",
  ".def _from_raw_encoding(string, curve)",
  ".@staticmethod",
  ".def _from_compressed(string, curve)",
  ".@classmethod",
  ".def _from_hybrid(cls, string, curve, validate_point)",
  ".@classmethod",
  ".def from_string(cls, string, curve=NIST192p, hashfunc=sha1, validate_point=True)",
  ".@classmethod",
  ".def from_pem(cls, string, hashfunc=sha1)",
  ".@classmethod",
  ".def from_der(cls, string, hashfunc=sha1)",
  ".@classmethod",
  ".def from_public_key_recovery(cls, signature, data, curve, hashfunc=sha1, sigdecode=sigdecode_string, allow_truncate=True)",
  ".@classmethod",
  ".def from_public_key_recovery_with_digest(cls, signature, digest, curve, hashfunc=sha1, sigdecode=sigdecode_string, allow_truncate=False)",
  ".def _raw_encode(self)",
  ".def _compressed_encode(self)",
  ".def _hybrid_encode(self)",
  ".def to_string(self, encoding='raw')",
  ".def to_pem(self, point_encoding='uncompressed')",
  ".def to_der(self, point_encoding='uncompressed')",
  ".def verify(self, signature, data, hashfunc=None, sigdecode=sigdecode_string, allow_truncate=True)",
  ".def verify_digest(self, signature, digest, sigdecode=sigdecode_string, allow_truncate=False)",
  "class SigningKey(object)",
  ".def __init__(self, _error__please_use_generate=None)",
  ".def __eq__(self, other)",
  ".def __ne__(self, other)",
  ".@classmethod",
  ".def generate(cls, curve=NIST192p, entropy=None, hashfunc=sha1)",
  ".@classmethod",
  ".def from_secret_exponent(cls, secexp, curve=NIST192p, hashfunc=sha1)",
  ".@classmethod",
  ".def from_string(cls, string, curve=NIST192p, hashfunc=sha1)",
  ".@classmethod",
  ".def from_pem(cls, string, hashfunc=sha1)",
  ".@classmethod",
  ".def from_der(cls, string, hashfunc=sha1)",
  ".def to_string(self)",
  ".def to_pem(self, point_encoding='uncompressed', format='ssleay')",
  ".def to_der(self, point_encoding='uncompressed', format='ssleay')",
  ".def get_verifying_key(self)",
  ".def sign_deterministic(self, data, hashfunc=None, sigencode=sigencode_string, extra_entropy=b'')",
  ".def sign_digest_deterministic(self, digest, hashfunc=None, sigencode=sigencode_string, extra_entropy=b'', allow_truncate=False)",
  ".def sign(self, data, entropy=None, hashfunc=None, sigencode=sigencode_string, k=None, allow_truncate=True)",
  ".def sign_digest(self, digest, entropy=None, sigencode=sigencode_string, k=None, allow_truncate=False)",
  ".def sign_number(self, number, entropy=None, k=None)"
]

def mod_numbertheory : List String := [
  "from __future__ import division",
  "import sys",
  "from six import integer_types, PY2",
  "from six.moves import reduce",
  "try",
  ".expr xrange",
  "except NameError",
  ".xrange = range",
  "try",
  ".from gmpy2 import powmod",
  ".GMPY2 = True",
  ".GMPY = False",
  "except ImportError",
  ".GMPY2 = False",
  ".try",
  "..from gmpy import mpz",
  "..GMPY = True",
  ".except ImportError",
  "..GMPY = False",
  "import math",
  "import warnings",
  "class Error(Exception)",
  ".pass",
  "class SquareRootError(Error)",
  ".pass",
  "class NegativeExponentError(Error)",
  ".pass",
  "def modular_exp(base, exponent, modulus)",
  "def polynomial_reduce_mod(poly, polymod, p)",
  "def polynomial_multiply_mod(m1, m2, polymod, p)",
  "def polynomial_exp_mod(base, exponent, polymod, p)",
  "def jacobi(a, n)",
  "def square_root_mod_prime(a, p)",
  "if GMPY2",
  ".def inverse_mod(a, m)",
  "..if a == 0",
  "...return 0",
  "..return powmod(a, -1, m)",
  "else",
  ".if GMPY",
  "..def inverse_mod(a, m)",
  "...if a == 0",
  "....return 0",
  "...a = mpz(a)",
  "...m = mpz(m)",
  "...(lm, hm) = (mpz(1), mpz(0))",
  "...(low, high) = (a % m, m)",
  "...while low > 1",
  "....r = high // low",
  "....(lm, low, hm, high) = (hm - lm * r, high - low * r, lm, low)",
  "...return lm % m",
  ".else",
  "..if sys.version_info >= (3, 8)",
  "...def inverse_mod(a, m)",
  "....if a == 0",
  ".....return 0",
  "....return pow(a, -1, m)",
  "..else",
  "...def inverse_mod(a, m)",
  "....if a == 0",
  ".....return 0",
  "....(lm, hm) = (1, 0)",
  "....(low, high) = (a % m, m)",
  "....while low > 1",
  ".....r = high // low",
  ".....(lm, low, hm, high) = (hm - lm * r, high - low * r, lm, low)",
  "....return lm % m",
  "try",
  ".gcd2 = math.gcd",
  "except AttributeError",
  ".def gcd2(a, b)",
  "..while a",
  "...(a, b) = (b % a, a)",
  "..return b",
  "def gcd(*a)",
  "def lcm2(a, b)",
  "def lcm(*a)",
  "def factorization(n)",
  "def phi(n)",
  "def carmichael(n)",
  "def carmichael_of_factorized(f_list)",
  "def carmichael_of_ppower(pp)",
  "def order_mod(x, m)",
  "def largest_factor_relatively_prime(a, b)",
  "def kinda_order_mod(x, m)",
  "def is_prime(n)",
  "def next_prime(starting_value)",
  "smallprimes = [2, 3, 5, 7, 11, 13, 17, 19, 23, 29, 31, 37, 41, 43, 47, 53, 59, 61, 67, 71, 73, 79, 83, 89, 97, 101, 103, 107, 109, 113, 127, 131, 137, 139, 149, 151, 157, 163, 167, 173, 179, 181, 191, 193, 197, 199, 211, 223, 227, 229, 233, 239, 241, 251, 257, 263, 269, 271, 277, 281, 283, 293, 307, 311, 313, 317, 331, 337, 347, 349, 353, 359, 367, 373, 379, 383, 389, 397, 401, 409, 419, 421, 431, 433, 439, 443, 449, 457, 461, 463, 467, 479, 487, 491, 499, 503, 509, 521, 523, 541, 547, 557, 563, 569, 571, 577, 587, 593, 599, 601, 607, 613, 617, 619, 631, 641, 643, 647, 653, 659, 661, 673, 677, 683, 691, 701, 709, 719, 727, 733, 739, 743, 751, 757, 761, 769, 773, 787, 797, 809, 811, 821, 823, 827, 829, 839, 853, 857, 859, 863, 877, 881, 883, 887, 907, 911, 919, 929, 937, 941, 947, 953, 967, 971, 977, 983, 991, 997, 1009, 1013, 1019, 1021, 1031, 1033, 1039, 1049, 1051, 1061, 1063, 1069, 1087, 1091, 1093, 1097, 1103, 1109, 1117, 1123, 1129, 1151, 1153, 1163, 1171, 1181, 1187, 1193, 1201, 1213, 1217, 1223, 1229]",
  "miller_rabin_test_count = 0"
]

def mod_rfc6979 : List String := [
  "import hmac",
  "from binascii import hexlify",
  "from .util import number_to_string, number_to_string_crop, bit_length",
  "from ._compat import hmac_compat",
  "__all__ = ['bit_length', 'bits2int', 'bits2octets', 'generate_k']",
  "def bits2int(data, qlen)",
  "def bits2octets(data, order)",
  "def generate_k(order, secexp, hash_func, data, retry_gen=0, extra_entropy=b'')"
]

def mod_util : List String := [
  "from __future__ import division",
  "import os",
  "import math",
  "import binascii",
  "import sys",
  "from hashlib import sha256",
  "from six import PY2, int2byte, b, next",
  "from . import der",
  "from ._compat import normalise_bytes",
  "oid_ecPublicKey = (1, 2, 840, 10045, 2, 1)",
  "encoded_oid_ecPublicKey = der.encode_oid(*oid_ecPublicKey)",
  "oid_ecDH = (1, 3, 132, 1, 12)",
  "oid_ecMQV = (1, 3, 132, 1, 13)",
  "if sys.version_info >= (3,)",
  ".def entropy_to_bits(ent_256)",
  "..return bin(int.from_bytes(ent_256, 'big'))[2:].zfill(len(ent_256) * 8)",
  "else",
  ".def entropy_to_bits(ent_256)",
  "..return ''.join((bin(ord(x))[2:].zfill(8) for x in ent_256))",
  "if sys.version_info < (2, 7)",
  ".def bit_length(x)",
  "..return len(bin(x)) - 2",
  "else",
  ".def bit_length(x)",
  "..return x.bit_length() or 1",
  "def orderlen(order)",
  "def randrange(order, entropy=None)",
  "class PRNG()",
  ".def __init__(self, seed)",
  ".def __call__(self, numbytes)",
  ".def block_generator(self, seed)",
  "def randrange_from_seed__overshoot_modulo(seed, order)",
  "def lsb_of_ones(numbits)",
  "def bits_and_bytes(order)",
  "def randrange_from_seed__truncate_bytes(seed, order, hashmod=sha256)",
  "def randrange_from_seed__truncate_bits(seed, order, hashmod=sha256)",
  "def randrange_from_seed__trytryagain(seed, order)",
  "def number_to_string(num, order)",
  "def number_to_string_crop(num, order)",
  "def string_to_number(string)",
  "def string_to_number_fixedlen(string, order)",
  "def sigencode_strings(r, s, order)",
  "def sigencode_string(r, s, order)",
  "def sigencode_der(r, s, order)",
  "def sigencode_strings_canonize(r, s, order)",
  "def sigencode_string_canonize(r, s, order)",
  "def sigencode_der_canonize(r, s, order)",
  "class MalformedSignature(Exception)",
  ".pass",
  "def sigdecode_string(signature, order)",
  "def sigdecode_strings(rs_strings, order)",
  "def sigdecode_der(sig_der, order)"
]

def compat_normalise_bytes : List String := [
  "return buffer(buffer_object)"
]

def compat_hmac_compat : List String := [
  "return ret"
]

def compat_remove_whitespace : List String := [
  "return re.sub('\\\\s+', '', text)"
]

def compat_remove_whitespace_v2 : List String := [
  "return re.sub('\\\\s+', '', text, flags=re.UNICODE)"
]

def compat_hmac_compat_v2 : List String := [
  "if not isinstance(data, bytes)",
  ".return bytes(data)",
  "return data"
]

def compat_hmac_compat_v3 : List String := [
  "return data"
]

def compat_normalise_bytes_v2 : List String := [
  "return memoryview(buffer_object).cast('B')"
]

def compat_remove_whitespace_v3 : List String := [
  "return re.sub('\\\\s+', '', text, flags=re.UNICODE)"
]

/-- added with fix F15 (/repo 645034d): the message helper that renders oversized OID sub-identifiers in hexadecimal -/
def der_oid_to_text : List String := [
  "if not isinstance(oid, (tuple, list))",
  ".return str(oid)",
  "return '.'.join(('0x%x' % i if isinstance(i, integer_types) and (not -2 ** 64 < i < 2 ** 64) else str(i) for i in oid))"
]

def ecdsa_Signature_init_ : List String := [
  "self.r = r",
  "self.s = s"
]

def ecdsa_Public_key_eq_ : List String := [
  "if isinstance(other, Public_key)",
  ".return self.curve == other.curve and self.point == other.point",
  "return NotImplemented"
]

def ecdsa_Public_key_ne_ : List String := [
  "return not self == other"
]

def ecdsa_Private_key_init_ : List String := [
  "self.public_key = public_key",
  "self.secret_multiplier = secret_multiplier"
]

def ecdsa_Private_key_eq_ : List String := [
  "if isinstance(other, Private_key)",
  ".return self.public_key == other.public_key and self.secret_multiplier == other.secret_multiplier",
  "return NotImplemented"
]

def ecdsa_Private_key_ne_ : List String := [
  "return not self == other"
]

def ecdsa_int_to_string : List String := [
  "assert x >= 0",
  "if x == 0",
  ".return b('\\x00')",
  "result = []",
  "while x",
  ".ordinal = x & 255",
  ".call result.append(int2byte(ordinal))",
  ".x >>= 8",
  "call result.reverse()",
  "return b('').join(result)"
]

def ecdsa_string_to_int : List String := [
  "result = 0",
  "for c in s",
  ".if not isinstance(c, int)",
  "..c = ord(c)",
  ".result = 256 * result + c",
  "return result"
]

def ecdsa_digest_integer : List String := [
  "from hashlib import sha1",
  "return string_to_int(sha1(int_to_string(m)).digest())"
]

def ellipticcurve_Point_x : List String := [
  "return self.__x"
]

def ellipticcurve_Point_y : List String := [
  "return self.__y"
]

def ellipticcurve_Point_curve : List String := [
  "return self.__curve"
]

def ellipticcurve_Point_order : List String := [
  "return self.__order"
]

def keys_VerifyingKey_init_ : List String := [
  "if not _error__please_use_generate",
  ".raise TypeError",
  "self.curve = None",
  "self.default_hashfunc = None",
  "self.pubkey = None"
]

def keys_VerifyingKey_eq_ : List String := [
  "if isinstance(other, VerifyingKey)",
  ".return self.curve == other.curve and self.pubkey == other.pubkey",
  "return NotImplemented"
]

def keys_VerifyingKey_ne_ : List String := [
  "return not self == other"
]

def keys_SigningKey_init_ : List String := [
  "if not _error__please_use_generate",
  ".raise TypeError",
  "self.curve = None",
  "self.default_hashfunc = None",
  "self.baselen = None",
  "self.verifying_key = None",
  "self.privkey = None"
]

def keys_SigningKey_eq_ : List String := [
  "if isinstance(other, SigningKey)",
  ".return self.curve == other.curve and self.verifying_key == other.verifying_key and (self.privkey == other.privkey)",
  "return NotImplemented"
]

def keys_SigningKey_ne_ : List String := [
  "return not self == other"
]

def keys_SigningKey_get_verifying_key : List String := [
  "return self.verifying_key"
]

def numbertheory_modular_exp : List String := [
  "call warnings.warn",
  "if exponent < 0",
  ".raise NegativeExponentError",
  "return pow(base, exponent, modulus)"
]

def numbertheory_polynomial_reduce_mod : List String := [
  "assert polymod[-1] == 1",
  "assert len(polymod) > 1",
  "while len(poly) >= len(polymod)",
  ".if poly[-1] != 0",
  "..for i in xrange(2, len(polymod) + 1)",
  "...poly[-i] = (poly[-i] - poly[-1] * polymod[-i]) % p",
  ".poly = poly[0:-1]",
  "return poly"
]

def numbertheory_polynomial_multiply_mod : List String := [
  "prod = (len(m1) + len(m2) - 1) * [0]",
  "for i in xrange(len(m1))",
  ".for j in xrange(len(m2))",
  "..prod[i + j] = (prod[i + j] + m1[i] * m2[j]) % p",
  "return polynomial_reduce_mod(prod, polymod, p)"
]

def numbertheory_polynomial_exp_mod : List String := [
  "assert exponent < p",
  "if exponent == 0",
  ".return [1]",
  "G = base",
  "k = exponent",
  "if k % 2 == 1",
  ".s = G",
  "else",
  ".s = [1]",
  "while k > 1",
  ".k = k // 2",
  ".G = polynomial_multiply_mod(G, G, polymod, p)",
  ".if k % 2 == 1",
  "..s = polynomial_multiply_mod(G, s, polymod, p)",
  "return s"
]

def numbertheory_jacobi : List String := [
  "assert n >= 3",
  "assert n % 2 == 1",
  "a = a % n",
  "if a == 0",
  ".return 0",
  "if a == 1",
  ".return 1",
  "(a1, e) = (a, 0)",
  "while a1 % 2 == 0",
  ".(a1, e) = (a1 // 2, e + 1)",
  "if e % 2 == 0 or n % 8 == 1 or n % 8 == 7",
  ".s = 1",
  "else",
  ".s = -1",
  "if a1 == 1",
  ".return s",
  "if n % 4 == 3 and a1 % 4 == 3",
  ".s = -s",
  "return s * jacobi(n % a1, a1)"
]

def numbertheory_square_root_mod_prime : List String := [
  "assert 0 <= a < p",
  "assert 1 < p",
  "if a == 0",
  ".return 0",
  "if p == 2",
  ".return a",
  "jac = jacobi(a, p)",
  "if jac == -1",
  ".raise SquareRootError",
  "if p % 4 == 3",
  ".return pow(a, (p + 1) // 4, p)",
  "if p % 8 == 5",
  ".d = pow(a, (p - 1) // 4, p)",
  ".if d == 1",
  "..return pow(a, (p + 3) // 8, p)",
  ".if d == p - 1",
  "..return 2 * a * pow(4 * a, (p - 5) // 8, p) % p",
  ".raise RuntimeError",
  "if PY2",
  ".range_top = min(2147483647, p)",
  "else",
  ".range_top = p",
  "for b in xrange(2, range_top)",
  ".if jacobi(b * b - 4 * a, p) == -1",
  "..f = (a, -b, 1)",
  "..ff = polynomial_exp_mod((0, 1), (p + 1) // 2, f, p)",
  "..assert ff[1] == 0",
  "..return ff[0]",
  "raise RuntimeError"
]

def numbertheory_inverse_mod : List String := [
  "if a == 0",
  ".return 0",
  "return powmod(a, -1, m)"
]

def numbertheory_inverse_mod_v2 : List String := [
  "if a == 0",
  ".return 0",
  "a = mpz(a)",
  "m = mpz(m)",
  "(lm, hm) = (mpz(1), mpz(0))",
  "(low, high) = (a % m, m)",
  "while low > 1",
  ".r = high // low",
  ".(lm, low, hm, high) = (hm - lm * r, high - low * r, lm, low)",
  "return lm % m"
]

def numbertheory_factorization : List String := [
  "assert isinstance(n, integer_types)",
  "if n < 2",
  ".return []",
  "result = []",
  "for d in smallprimes",
  ".if d > n",
  "..break",
  ".(q, r) = divmod(n, d)",
  ".if r == 0",
  "..count = 1",
  "..while d <= n",
  "...n = q",
  "...(q, r) = divmod(n, d)",
  "...if r != 0",
  "....break",
  "...count = count + 1",
  "..call result.append((d, count))",
  "if n > smallprimes[-1]",
  ".if is_prime(n)",
  "..call result.append((n, 1))",
  ".else",
  "..d = smallprimes[-1]",
  "..while 1",
  "...d = d + 2",
  "...(q, r) = divmod(n, d)",
  "...if q < d",
  "....break",
  "...if r == 0",
  "....count = 1",
  "....n = q",
  "....while d <= n",
  ".....(q, r) = divmod(n, d)",
  ".....if r != 0",
  "......break",
  ".....n = q",
  ".....count = count + 1",
  "....call result.append((d, count))",
  "..if n > 1",
  "...call result.append((n, 1))",
  "return result"
]

def numbertheory_phi : List String := [
  "call warnings.warn",
  "assert isinstance(n, integer_types)",
  "if n < 3",
  ".return 1",
  "result = 1",
  "ff = factorization(n)",
  "for f in ff",
  ".e = f[1]",
  ".if e > 1",
  "..result = result * f[0] ** (e - 1) * (f[0] - 1)",
  ".else",
  "..result = result * (f[0] - 1)",
  "return result"
]

def numbertheory_carmichael : List String := [
  "call warnings.warn",
  "return carmichael_of_factorized(factorization(n))"
]

def numbertheory_carmichael_of_factorized : List String := [
  "call warnings.warn",
  "if len(f_list) < 1",
  ".return 1",
  "result = carmichael_of_ppower(f_list[0])",
  "for i in xrange(1, len(f_list))",
  ".result = lcm(result, carmichael_of_ppower(f_list[i]))",
  "return result"
]

def numbertheory_carmichael_of_ppower : List String := [
  "call warnings.warn",
  "(p, a) = pp",
  "if p == 2 and a > 2",
  ".return 2 ** (a - 2)",
  "else",
  ".return (p - 1) * p ** (a - 1)"
]

def numbertheory_order_mod : List String := [
  "call warnings.warn",
  "if m <= 1",
  ".return 0",
  "assert gcd(x, m) == 1",
  "z = x",
  "result = 1",
  "while z != 1",
  ".z = z * x % m",
  ".result = result + 1",
  "return result"
]

def numbertheory_largest_factor_relatively_prime : List String := [
  "call warnings.warn",
  "while 1",
  ".d = gcd(a, b)",
  ".if d <= 1",
  "..break",
  ".b = d",
  ".while 1",
  "..(q, r) = divmod(a, d)",
  "..if r > 0",
  "...break",
  "..a = q",
  "return a"
]

def numbertheory_kinda_order_mod : List String := [
  "call warnings.warn",
  "return order_mod(x, largest_factor_relatively_prime(m, x))"
]

def numbertheory_is_prime : List String := [
  "global miller_rabin_test_count",
  "miller_rabin_test_count = 0",
  "if n <= smallprimes[-1]",
  ".if n in smallprimes",
  "..return True",
  ".else",
  "..return False",
  "if gcd(n, 2 * 3 * 5 * 7 * 11) != 1",
  ".return False",
  "t = 40",
  "n_bits = 1 + int(math.log(n, 2))",
  "for (k, tt) in ((100, 27), (150, 18), (200, 15), (250, 12), (300, 9), (350, 8), (400, 7), (450, 6), (550, 5), (650, 4), (850, 3), (1300, 2))",
  ".if n_bits < k",
  "..break",
  ".t = tt",
  "s = 0",
  "r = n - 1",
  "while r % 2 == 0",
  ".s = s + 1",
  ".r = r // 2",
  "for i in xrange(t)",
  ".a = smallprimes[i]",
  ".y = pow(a, r, n)",
  ".if y != 1 and y != n - 1",
  "..j = 1",
  "..while j <= s - 1 and y != n - 1",
  "...y = pow(y, 2, n)",
  "...if y == 1",
  "....miller_rabin_test_count = i + 1",
  "....return False",
  "...j = j + 1",
  "..if y != n - 1",
  "...miller_rabin_test_count = i + 1",
  "...return False",
  "return True"
]

def rfc6979_generate_k : List String := [
  "qlen = bit_length(order)",
  "holen = hash_func().digest_size",
  "rolen = (qlen + 7) // 8",
  "bx = (hmac_compat(number_to_string(secexp, order)), hmac_compat(bits2octets(data, order)), hmac_compat(extra_entropy))",
  "v = b'\\x01' * holen",
  "k = b'\\x00' * holen",
  "k = hmac.new(k, digestmod=hash_func)",
  "call k.update(v + b'\\x00')",
  "for i in bx",
  ".call k.update(i)",
  "k = k.digest()",
  "v = hmac.new(k, v, hash_func).digest()",
  "k = hmac.new(k, digestmod=hash_func)",
  "call k.update(v + b'\\x01')",
  "for i in bx",
  ".call k.update(i)",
  "k = k.digest()",
  "v = hmac.new(k, v, hash_func).digest()",
  "while True",
  ".t = b''",
  ".while len(t) < rolen",
  "..v = hmac.new(k, v, hash_func).digest()",
  "..t += v",
  ".secret = bits2int(t, qlen)",
  ".if 1 <= secret < order",
  "..if retry_gen <= 0",
  "...return secret",
  "..retry_gen -= 1",
  ".k = hmac.new(k, v + b'\\x00', hash_func).digest()",
  ".v = hmac.new(k, v, hash_func).digest()"
]

def util_entropy_to_bits_v2 : List String := [
  "return ''.join((bin(ord(x))[2:].zfill(8) for x in ent_256))"
]

def util_bit_length : List String := [
  "return len(bin(x)) - 2"
]

def util_PRNG_init_ : List String := [
  "self.generator = self.block_generator(seed)"
]

def util_PRNG_call_ : List String := [
  "a = [next(self.generator) for i in range(numbytes)]",
  "if PY2",
  ".return ''.join(a)",
  "else",
  ".return bytes(a)"
]

def util_lsb_of_ones : List String := [
  "return (1 << numbits) - 1"
]

def util_randrange_from_seed_truncate_bytes : List String := [
  "(bits, _bytes, extrabits) = bits_and_bytes(order)",
  "if extrabits",
  "._bytes += 1",
  "base = hashmod(seed).digest()[:_bytes]",
  "base = '\\x00' * (_bytes - len(base)) + base",
  "number = 1 + int(binascii.hexlify(base), 16)",
  "assert 1 <= number < order",
  "return number"
]

def util_randrange_from_seed_truncate_bits : List String := [
  "bits = int(math.log(order - 1, 2) + 1)",
  "maxbytes = (bits + 7) // 8",
  "base = hashmod(seed).digest()[:maxbytes]",
  "base = '\\x00' * (maxbytes - len(base)) + base",
  "topbits = 8 * maxbytes - bits",
  "if topbits",
  ".base = int2byte(ord(base[0]) & lsb_of_ones(topbits)) + base[1:]",
  "number = 1 + int(binascii.hexlify(base), 16)",
  "assert 1 <= number < order",
  "return number"
]

def util_sigencode_strings_canonize : List String := [
  "if s > order // 2",
  ".s = order - s",
  "return sigencode_strings(r, s, order)"
]

def util_sigencode_string_canonize : List String := [
  "if s > order // 2",
  ".s = order - s",
  "return sigencode_string(r, s, order)"
]

def util_sigencode_der_canonize : List String := [
  "if s > order // 2",
  ".s = order - s",
  "return sigencode_der(r, s, order)"
]

end Rest.Skel
