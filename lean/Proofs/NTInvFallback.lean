import Model.NumberTheory
import Proofs.NTInv
/-! the pre-3.8 fallback loop of `inverse_mod` (translated loop condition / body) agrees with the live variant (C15) -/
namespace NTProofs
open NT Gen.NT

theorem invFallbackLoop_spec (a m : Int) : ∀ (fuel : Nat) (lm low hm high : Int),
    0 ≤ low → low < high → low < fuel → 1 < high → m ∣ low - lm * a → m ∣ high - hm * a → Int.gcd low high = 1 →
    ∃ lm', invFallbackLoop fuel (lm, low, hm, high) = .ok lm' ∧ m ∣ 1 - lm' * a := by
  intro fuel
  induction fuel with
  | zero => intro lm low hm high h0 _ h2; simp at h2; omega
  | succ f ih =>
    intro lm low hm high h0 h1 h2 h3 h4 h5 h6
    unfold invFallbackLoop
    simp only [inv_loop_cond, inv_loop_body, decide_eq_true_eq, gt_iff_lt]
    by_cases hc : 1 < low
    · rw [if_pos hc, if_neg (by omega)]
      have hlow : 0 < low := by omega
      rw [Int.fdiv_eq_ediv_of_nonneg _ (le_of_lt hlow)]
      have hmod : high - low * (high / low) = high % low := by
        have := Int.emod_add_mul_ediv high low; omega
      rw [hmod]
      apply ih
      · exact Int.emod_nonneg _ (by omega)
      · exact Int.emod_lt_of_pos _ hlow
      · have := Int.emod_lt_of_pos high hlow; push_cast at h2; omega
      · exact hc
      · have e : high % low - (hm - lm * (high / low)) * a = (high - hm * a) - (high / low) * (low - lm * a) := by
          have := Int.emod_add_mul_ediv high low; linear_combination this
        rw [e]; exact Int.dvd_sub h5 (Dvd.dvd.mul_left h4 _)
      · exact h4
      · rw [Int.gcd_emod, Int.gcd_comm]; exact h6
    · rw [if_neg hc]
      refine ⟨lm, rfl, ?_⟩
      have hl1 : low = 1 := by
        rcases (show low = 0 ∨ low = 1 by omega) with h | h
        · subst h; rw [Int.gcd_zero_left] at h6; omega
        · exact h
      subst hl1; exact h4

theorem inverseModFallback_spec (a m : Int) (hm : 1 ≤ m) (hg : Int.gcd a m = 1) :
    ∃ i, inverseModFallback a m = .ok i ∧ 0 ≤ i ∧ i < m ∧ m ∣ a * i - 1 := by
  by_cases ha : a = 0
  · subst ha
    have : m = 1 := by
      have : (m.natAbs : Int) = 1 := by simpa using congrArg (Nat.cast : Nat → Int) hg
      omega
    subst this
    exact ⟨0, by simp [inverseModFallback], le_refl _, by decide, by decide⟩
  · have hmpos : 0 < m := by omega
    unfold inverseModFallback
    rw [if_neg ha, if_neg (by omega)]
    simp only [inv_init, inv_result, Int.fmod_eq_emod_of_nonneg _ (le_of_lt hmpos)]
    by_cases hm1 : m = 1
    · subst hm1
      refine ⟨0, ?_, le_refl _, by decide, one_dvd _⟩
      simp [invFallbackLoop, inv_loop_cond, bind, Except.bind]
    · obtain ⟨lm', h1, h2⟩ := invFallbackLoop_spec a m (m.natAbs + 1) 1 (a % m) 0 m
        (Int.emod_nonneg _ (by omega)) (Int.emod_lt_of_pos _ hmpos)
        (by have := Int.emod_lt_of_pos a hmpos; omega) (by omega)
        (⟨-(a / m), by have := Int.emod_add_mul_ediv a m; linear_combination this⟩)
        (by simp) (by rw [Int.gcd_emod]; exact hg)
      rw [h1]
      simp only [bind, Except.bind]
      refine ⟨lm' % m, rfl, Int.emod_nonneg _ (by omega), Int.emod_lt_of_pos _ hmpos, ?_⟩
      have e : a * (lm' % m) - 1 = -(1 - lm' * a) - a * m * (lm' / m) := by
        have := Int.emod_add_mul_ediv lm' m; linear_combination a * this
      rw [e]; exact Int.dvd_sub (Int.dvd_neg.mpr h2) (Dvd.dvd.mul_right (Dvd.dvd.mul_left (dvd_refl m) a) _)

/-- two inverses in `[0, m)` coincide -/
theorem inverse_unique (a m i j : Int) (hg : Int.gcd a m = 1) (hi0 : 0 ≤ i) (hi1 : i < m) (hj0 : 0 ≤ j) (hj1 : j < m)
    (hi : m ∣ a * i - 1) (hj : m ∣ a * j - 1) : i = j := by
  have h : m ∣ a * (i - j) := by
    have : a * (i - j) = (a * i - 1) - (a * j - 1) := by ring
    rw [this]; exact Int.dvd_sub hi hj
  have h' : m ∣ i - j := Int.dvd_of_dvd_mul_right_of_gcd_one h (by rw [Int.gcd_comm]; exact hg)
  obtain ⟨k, hk⟩ := h'
  have : k = 0 := by
    rcases lt_trichotomy k 0 with h | h | h
    · have : m * k ≤ -m := by nlinarith
      omega
    · exact h
    · have : m ≤ m * k := by nlinarith
      omega
  subst this; omega

end NTProofs
