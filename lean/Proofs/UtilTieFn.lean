import Proofs.UtilTie
/-!
# Proofs.UtilTieFn — the codec functions of `Model/Util.lean` restated WHOLE with the tests / integer expressions that
`gen_der.py` extracts from the current `src/ecdsa/util.py` (`Generated/UtilGuards.lean`), and proved equal to the model
functions themselves (so a transcription error in the model breaks a theorem; see `Proofs/DerTieFn.lean`).
Hand-written on the right-hand sides: `hexLen` (= `len("%x" % n)`), `beFixed` / the digit count of `"%0{2l}x"` +
`unhexlify`, `beVal`, list slicing.
-/
set_option linter.unusedSimpArgs false
namespace C12.Tie
open Gen.UtilCodec Util

theorem ev_orderlen (order : Nat) : (orderlen_ret0 (hexLen order)).toNat = orderlen order := by
  rw [← orderlen_expr]; rfl
theorem ev_nts_e0 (l : Nat) : (number_to_string_e0 l).toNat = 2 * l := by
  rw [← (number_to_string_guards l 0).1]; rfl
theorem ev_ntsc_e0 (l : Nat) : (number_to_string_crop_e0 l).toNat = 2 * l := by
  rw [← (number_to_string_guards l 0).2.1]; rfl
theorem ev_nts_assert0 (len l : Nat) : number_to_string_assert0 len l = decide (len = l) :=
  (number_to_string_guards l len).2.2.1.symm
theorem ev_stnf_assert0 (len l : Nat) : string_to_number_fixedlen_assert0 len l = decide (len = l) :=
  (number_to_string_guards l len).2.2.2.symm
theorem ev_sds_if0 (len l : Nat) : sigdecode_string_if0 len l = decide (len ≠ 2 * l) := (sigdecode_guards len l).1.symm
theorem ev_sdss_if0 (len : Nat) : sigdecode_strings_if0 len = decide (len ≠ 2) := (sigdecode_guards len 0).2.1.symm
theorem ev_sdss_if1 (len l : Nat) : sigdecode_strings_if1 len l = decide (len ≠ l) := (sigdecode_guards len l).2.2.1.symm
theorem ev_sdss_if2 (len l : Nat) : sigdecode_strings_if2 len l = decide (len ≠ l) := (sigdecode_guards len l).2.2.2.symm

theorem fn_orderlen (order : Nat) : orderlen order = (orderlen_ret0 (hexLen order)).toNat := (ev_orderlen order).symm

theorem fn_numberToString (num order : Nat) :
    numberToString num order =
      (let l := orderlen order
       let digits := max (hexLen num) (number_to_string_e0 l).toNat
       if digits % 2 = 1 then .error .binasciiError
       else if ¬ number_to_string_assert0 (digits / 2 : Nat) l then .error .assertionError
       else .ok (beFixed l num)) := by
  simp only [ev_nts_e0, ev_nts_assert0, decide_eq_true_eq]
  rfl

theorem fn_numberToStringCrop (num order : Nat) :
    numberToStringCrop num order =
      (let l := orderlen order
       let digits := max (hexLen num) (number_to_string_crop_e0 l).toNat
       if digits % 2 = 1 then .error .binasciiError
       else .ok ((beFixed (digits / 2) num).take l)) := by
  simp only [ev_ntsc_e0]
  rfl

theorem fn_stringToNumberFixedlen (s : Bytes) (order : Nat) :
    stringToNumberFixedlen s order =
      if ¬ string_to_number_fixedlen_assert0 s.length (orderlen order) then .error .assertionError
      else if s.isEmpty then .error .valueError
      else .ok (beVal s) := by
  simp only [ev_stnf_assert0, decide_eq_true_eq]
  rfl

theorem fn_sigdecodeString (sig : Bytes) (order : Nat) :
    sigdecodeString sig order =
      (let l := orderlen order
       if sigdecode_string_if0 sig.length l then .error .malformedSignature
       else (stringToNumberFixedlen (sig.take l) order).bind fun r =>
         (stringToNumberFixedlen (sig.drop l) order).bind fun s => .ok (r, s)) := by
  simp only [ev_sds_if0, decide_eq_true_eq]
  rfl

theorem fn_sigdecodeStrings (rs : List Bytes) (order : Nat) :
    sigdecodeStrings rs order =
      if sigdecode_strings_if0 rs.length then .error .malformedSignature
      else match rs with
        | [rStr, sStr] =>
          let l := orderlen order
          if sigdecode_strings_if1 rStr.length l then .error .malformedSignature
          else if sigdecode_strings_if2 sStr.length l then .error .malformedSignature
          else (stringToNumberFixedlen rStr order).bind fun r =>
            (stringToNumberFixedlen sStr order).bind fun s => .ok (r, s)
        | _ => .error .malformedSignature := by
  simp only [ev_sdss_if0, ev_sdss_if1, ev_sdss_if2, decide_eq_true_eq]
  match rs with
  | [] => rfl
  | [_] => rfl
  | [a, b] => simp only [List.length_cons, List.length_nil]; rfl
  | _ :: _ :: _ :: t => simp [sigdecodeStrings]

/-- `sigdecode_der` has no integer test: `remove_sequence`, the `empty != b""` test, two `remove_integer`, the
second `empty != b""` test, in this order (its skeleton is pinned by `Tie.skeleton`) -/
theorem fn_sigdecodeDer (sig : Bytes) (order : Nat) :
    sigdecodeDer sig order =
      (Der.removeSequence sig).bind fun (rsStrings, empty) =>
        if empty ≠ [] then .error .unexpectedDER
        else (Der.removeInteger rsStrings).bind fun (r, rest) =>
          (Der.removeInteger rest).bind fun (s, empty) =>
            if empty ≠ [] then .error .unexpectedDER else .ok (r, s) := rfl

/-- `sigencode_string(s)` / `sigencode_der`: compositions without integer tests -/
theorem fn_sigencode (r s order : Nat) :
    sigencodeStrings r s order
      = ((numberToString r order).bind fun rs => (numberToString s order).bind fun ss => .ok (rs, ss))
    ∧ sigencodeString r s order = ((sigencodeStrings r s order).bind fun (rs, ss) => .ok (rs ++ ss))
    ∧ sigencodeDer r s order = ((Der.encodeIntegerPy r).bind fun a => (Der.encodeIntegerPy s).bind fun b =>
        Der.encodeSequencePy [a, b]) := ⟨rfl, rfl, rfl⟩

end C12.Tie
