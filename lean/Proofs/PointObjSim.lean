import Proofs.PointObjAbs
import Mathlib.Data.List.Forall2
/-!
# Proofs.PointObjSim — the concrete heap machine refines the abstract heap of values (framework + basic operations)

`RepIndep` collects, as explicit hypotheses, what the refinement needs from the value-level functions of
`Model/Curve.lean`: each of them maps valid hidden states of `g` (and `h`) to valid hidden states of the group result
— *whatever representation it is given*.  These are C06/C07's theorems under N2T (`Proofs/GroupInterface.lean`).
`HS P t g`: the `PointJacobi` value `P` with table `t` is a possible hidden state of an object denoting `g`;
`HA A g`: the legacy point `A` denotes `g`.
-/
set_option linter.unusedSectionVars false
namespace PointObj
open Curve

variable {G : Type} [AddCommGroup G] [DecidableEq G]

/-- closes `e = e' ∧ Inv …` / `True ∧ Inv …` goals left after the heaps are unchanged -/
macro "sim_same" hi:term : tactic => `(tactic| first | exact ⟨rfl, $hi⟩ | exact ⟨trivial, $hi⟩)

theorem list_set_same {α} (l : List α) (i : Nat) (a : α) (h : l[i]? = some a) : l.set i a = l := by
  induction l generalizing i with
  | nil => rfl
  | cons x xs ih =>
    cases i with
    | zero => simp at h; simp [h]
    | succ n => simp at h; simp [ih n h]

/-- result of a point-valued function: INFINITY exactly for 0, else a fresh `PointJacobi` (empty table, flag off) -/
def RFresh (HS : PJ → List (Int × Int) → G → Prop) (v : Pt) (g : G) (order : Option Int) : Prop :=
  (v = .infinity ∧ g = 0) ∨ (∃ J, v = .jac J ∧ g ≠ 0 ∧ HS J [] g ∧ J.order = order ∧ J.generator = false)

/-- `_maybe_precompute` can run on an object with these attributes -/
def GenOK (P : PJ) : Prop := P.generator = true → ∃ o, truthy P.order = some o

structure RepIndep (sp : ASpec G) (HS : PJ → List (Int × Int) → G → Prop) (HA : AffPt → G → Prop) : Prop where
  /-- all objects of the heap live on the curve `sp.c` (only the field prime is read by the key operations) -/
  hs_curve : ∀ {P t g}, HS P t g → P.curve.p = sp.c.p
  hs_ne : ∀ {P t g}, HS P t g → g ≠ 0
  ha_ne : ∀ {A g}, HA A g → g ≠ 0
  /-- a stored `PointJacobi` is never an identity representation -/
  hs_nz : ∀ {P t g}, HS P t g → (P.y == 0) = false ∧ (P.z == 0) = false
  /-- only generator-flagged objects carry a table, and only if `_maybe_precompute` could build it -/
  hs_table : ∀ {P t g}, HS P t g → t ≠ [] → P.generator = true ∧ GenOK P
  hs_forget : ∀ {P t g}, HS P t g → HS P [] g
  /-- `x()`, `y()` do not depend on the representation -/
  hs_xy : ∀ {P t g}, HS P t g → pjX P = .ok (sp.ax g) ∧ pjY P = .ok (sp.ay g)
  ha_xy : ∀ {A g}, HA A g → A.x = sp.ax g ∧ A.y = sp.ay g
  /-- `scale()` keeps the value (and the table stays a table of that value) -/
  hs_scale : ∀ {P t g}, HS P t g → ∃ S, pjScale P = .ok S ∧ HS S t g ∧ S.z = 1 ∧
    S.order = P.order ∧ S.generator = P.generator
  /-- the `Point(...)` built by `to_affine()` from the scaled coordinates -/
  hs_mkPoint : ∀ {S t g}, HS S t g → S.z = 1 → ∃ A, mkPoint S.curve S.x S.y S.order = .ok A ∧ HA A g ∧ A.order = S.order
  /-- `from_affine` of the coordinates read from any representation -/
  hs_fromXY : ∀ {P t g} (gen : Bool), HS P t g → HS ⟨P.curve, sp.ax g, sp.ay g, 1, P.order, gen⟩ [] g
  ha_fromAffine : ∀ {A g} (gen : Bool), HA A g → HS (pjFromAffine A gen) [] g
  hs_neg : ∀ {P t g}, HS P t g → HS (pjNeg P) [] (-g)
  hs_double : ∀ {P t g}, HS P t g → RFresh HS (pjDouble P) (g + g) P.order
  hs_add : ∀ {P t g Q t' h}, HS P t g → HS Q t' h → ∃ v, pjAddCore P Q = .ok v ∧ RFresh HS v (g + h) P.order
  /-- `_maybe_precompute`: the table it leaves is a table of the same value; it is non-empty iff the flag is set -/
  hs_precompute : ∀ {P t g}, HS P t g → GenOK P → ∃ t', maybePrecompute P t = .ok t' ∧ HS P t' g ∧
    (t'.isEmpty = !P.generator)
  /-- `P * k` from any hidden state -/
  hs_mul : ∀ {P t g} (k : Int), HS P t g → GenOK P → k ≠ 0 → k ≠ 1 →
    ∃ v, pjMulWith t P k = .ok v ∧ RFresh HS v (k • g) P.order
  /-- `mul_add`: the test "the sum of the two operands is at infinity" on scaled operands -/
  hs_sumInf : ∀ {SP t g SQ t' h}, HS SP t g → HS SQ t' h → SP.z = 1 → SQ.z = 1 →
    tripleInf (Gen.k_add SP.x SP.y SP.z SQ.x SQ.y SQ.z SP.curve.p SP.curve.a) = decide (g + h = 0)
  /-- `mul_add`: the main loop on scaled operands whose sum is not at infinity, for any two multipliers -/
  hs_mulAddLoop : ∀ {SP t g SQ t' h} (sm om : Int), HS SP t g → HS SQ t' h → SP.z = 1 → SQ.z = 1 → g + h ≠ 0 →
    RFresh HS (mulAddLoop SP SQ sm om) (sm • g + om • h) SP.order
  /-- `==` decides equality of the denoted values -/
  eq_jj : ∀ {P t g Q t' h}, HS P t g → HS Q t' h → ptEq (.jac P) (.jac Q) = decide (g = h)
  eq_ja : ∀ {P t g A h}, HS P t g → HA A h → ptEq (.jac P) (.aff A) = decide (g = h) ∧ ptEq (.aff A) (.jac P) = decide (h = g)
  eq_aa : ∀ {A g B h}, HA A g → HA B h → ptEq (.aff A) (.aff B) = decide (g = h)

/-! ## the refinement relation -/

variable (HS : PJ → List (Int × Int) → G → Prop) (HA : AffPt → G → Prop)

/-- concrete object vs abstract object -/
inductive Rel : Obj → AObj G → Prop
  | pj {o : PJObj} {g : G} : HS o.val o.table g → Rel (.pj o) (.pj g o.val.order o.val.generator)
  | aff {A : AffPt} {g : G} : HA A g → Rel (.aff A) (.aff g A.order)
  | infc : Rel .infc .infc
  | key (g q : Ref) : Rel (.key g q) (.key g q)
  | skey (d : Int) (vk : Nat) : Rel (.skey d vk) (.skey d vk)

/-- the heaps have the same shape and every object is a hidden state of its abstract value -/
def Inv (h : Heap) (ah : AHeap G) : Prop := List.Forall₂ (Rel HS HA) h ah

variable {HS HA}

theorem Inv.length {h : Heap} {ah : AHeap G} (hi : Inv HS HA h ah) : h.length = ah.length :=
  List.Forall₂.length_eq hi

theorem Inv.get {h : Heap} {ah : AHeap G} (hi : Inv HS HA h ah) (i : Nat) :
    (h[i]? = none ∧ ah[i]? = none) ∨ ∃ o a, h[i]? = some o ∧ ah[i]? = some a ∧ Rel HS HA o a := by
  induction hi generalizing i with
  | nil => left; simp
  | cons hr _ ih =>
    cases i with
    | zero => right; exact ⟨_, _, rfl, rfl, hr⟩
    | succ n => simpa using ih n

theorem Inv.set {h : Heap} {ah : AHeap G} (hi : Inv HS HA h ah) (i : Nat) {o : Obj} {a : AObj G}
    (hr : Rel HS HA o a) : Inv HS HA (h.set i o) (ah.set i a) := by
  induction hi generalizing i with
  | nil => exact List.Forall₂.nil
  | cons hr' _ ih =>
    cases i with
    | zero => exact List.Forall₂.cons hr (by assumption)
    | succ n => exact List.Forall₂.cons hr' (ih n)

theorem Inv.append {h : Heap} {ah : AHeap G} (hi : Inv HS HA h ah) {o : Obj} {a : AObj G}
    (hr : Rel HS HA o a) : Inv HS HA (h ++ [o]) (ah ++ [a]) := by
  induction hi with
  | nil => exact List.Forall₂.cons hr List.Forall₂.nil
  | cons hr' _ ih => exact List.Forall₂.cons hr' ih

/-! ## simulation of monadic computations -/

variable (HS HA) in
/-- how a concrete and an abstract run may end: related results in related heaps, or the same exception in related heaps -/
def Outcome {α β : Type} (R : α → β → Prop) : Res α × Heap → Res β × AHeap G → Prop
  | (.ok a, h'), (.ok b, ah') => R a b ∧ Inv HS HA h' ah'
  | (.error e, h'), (.error e', ah') => e = e' ∧ Inv HS HA h' ah'
  | _, _ => False

/-- `m` and `am` started in related heaps end in related heaps with related results, or raise the same exception -/
def Sim {α β : Type} (R : α → β → Prop) (m : M α) (am : AM G β) : Prop :=
  ∀ h ah, Inv HS HA h ah → Outcome HS HA R (m h) (am ah)

variable (HS HA) in
/-- shorthand: results are equal -/
abbrev SimEq {α : Type} (m : M α) (am : AM G α) : Prop := Sim (HS := HS) (HA := HA) (fun a b => a = b) m am

theorem Sim.pure {α β} {R : α → β → Prop} {a : α} {b : β} (h : R a b) :
    Sim (HS := HS) (HA := HA) R (M.pure a) (AM.pure b) := by
  intro hh ah hi; exact ⟨h, hi⟩

theorem Sim.raise {α β} {R : α → β → Prop} (e : PyErr) :
    Sim (HS := HS) (HA := HA) R (M.raise e : M α) (AM.raise e : AM G β) := by
  intro hh ah hi; sim_same hi

theorem Sim.bind {α β α' β'} {R : α → β → Prop} {R' : α' → β' → Prop} {m : M α} {am : AM G β}
    {f : α → M α'} {af : β → AM G β'} (h1 : Sim (HS := HS) (HA := HA) R m am)
    (h2 : ∀ a b, R a b → Sim (HS := HS) (HA := HA) R' (f a) (af b)) :
    Sim (HS := HS) (HA := HA) R' (M.bind m f) (AM.bind am af) := by
  intro h ah hi
  have := h1 h ah hi
  unfold M.bind AM.bind
  rcases hm : m h with ⟨_ | a, h'⟩ <;> rcases ham : am ah with ⟨_ | b, ah'⟩ <;> simp only [hm, ham, Outcome] at this ⊢ <;>
    first | exact this | exact h2 a b this.1 h' ah' this.2

theorem Sim.lift {α} {r : Res α} : SimEq HS HA (M.lift r) (AM.lift r : AM G α) := by
  cases r with
  | error e => exact Sim.raise e
  | ok a => exact Sim.pure rfl

theorem Sim.mono {α β} {R R' : α → β → Prop} {m : M α} {am : AM G β} (h : Sim (HS := HS) (HA := HA) R m am)
    (hr : ∀ a b, R a b → R' a b) : Sim (HS := HS) (HA := HA) R' m am := by
  intro hh ah hi
  have := h hh ah hi
  rcases hm : m hh with ⟨_ | a, h'⟩ <;> rcases ham : am ah with ⟨_ | b, ah'⟩ <;> simp only [hm, ham, Outcome] at this ⊢ <;>
    first | exact this | exact ⟨hr _ _ this.1, this.2⟩

@[simp] theorem M.bind_eq {α β} (m : M α) (f : α → M β) : (m >>= f) = M.bind m f := rfl
@[simp] theorem AM.bind_eq {α β} (m : AM G α) (f : α → AM G β) : (m >>= f) = AM.bind m f := rfl

/-! ## reading operands -/

/-- a concrete point operand and its abstract counterpart -/
inductive RVal : Pt → AVal G → Prop
  | inf : RVal .infinity .inf
  | jac {P : PJ} {t : List (Int × Int)} {g : G} : HS P t g → RVal (.jac P) (.jac g P.order P.generator)
  | aff {A : AffPt} {g : G} : HA A g → RVal (.aff A) (.aff g A.order)

theorem getPt_sim (r : Ref) : Sim (HS := HS) (HA := HA) (RVal (HS := HS) (HA := HA)) (getPt r) (agetPt r) := by
  intro h ah hi
  unfold getPt agetPt ptOf aptOf
  cases r with
  | inf => exact ⟨RVal.inf, hi⟩
  | obj i =>
    rcases hi.get i with ⟨h1, h2⟩ | ⟨o, a, h1, h2, hr⟩
    · simp only [h1, h2]; sim_same hi
    · simp only [h1, h2]
      cases hr with
      | pj hs => exact ⟨RVal.jac hs, hi⟩
      | aff ha => exact ⟨RVal.aff ha, hi⟩
      | infc => exact ⟨RVal.inf, hi⟩
      | key g q => sim_same hi
      | skey d vk => sim_same hi

/-- `getPJ` vs `agetPJ` -/
def RPJ : Option PJObj → Option (G × Option Int × Bool) → Prop
  | none, none => True
  | some o, some (g, ord, gen) => HS o.val o.table g ∧ ord = o.val.order ∧ gen = o.val.generator
  | _, _ => False

theorem getPJ_sim (r : Ref) : Sim (HS := HS) (HA := HA) (RPJ (HS := HS)) (getPJ r) (agetPJ r) := by
  intro h ah hi
  unfold getPJ agetPJ cell
  cases r with
  | inf => sim_same hi
  | obj i =>
    rcases hi.get i with ⟨h1, h2⟩ | ⟨o, a, h1, h2, hr⟩
    · simp only [h1, h2]; sim_same hi
    · simp only [h1, h2]
      cases hr with
      | pj hs => exact ⟨⟨hs, rfl, rfl⟩, hi⟩
      | aff ha => sim_same hi
      | infc => sim_same hi
      | key g q => sim_same hi
      | skey d vk => sim_same hi

theorem getHeap_sim : Sim (HS := HS) (HA := HA) (fun h ah => Inv HS HA h ah) M.getHeap (AM.getHeap (G := G)) := by
  intro h ah hi; exact ⟨hi, hi⟩

theorem alloc_sim {o : Obj} {a : AObj G} (hr : Rel HS HA o a) : SimEq HS HA (M.alloc o) (AM.alloc a) := by
  intro h ah hi
  exact ⟨by rw [hi.length], hi.append hr⟩

theorem setCell_sim (i : Nat) {o : Obj} {a : AObj G} (hr : Rel HS HA o a) :
    SimEq HS HA (M.setCell i o) (AM.setCell i a) := by
  intro h ah hi
  exact ⟨rfl, hi.set i hr⟩

theorem getKey_sim (k : Nat) : SimEq HS HA (getKey k) (agetKey (G := G) k) := by
  intro h ah hi
  unfold getKey agetKey
  rcases hi.get k with ⟨h1, h2⟩ | ⟨o, a, h1, h2, hr⟩
  · simp only [h1, h2]; sim_same hi
  · simp only [h1, h2]
    cases hr with
    | pj hs => sim_same hi
    | aff ha => sim_same hi
    | infc => sim_same hi
    | key g q => sim_same hi
    | skey d vk => sim_same hi

/-- a state transformer `f o` against its abstract counterpart on the value: the new state is again a hidden state of
`g` with the same attributes and the results are related, or both raise the same exception -/
def StateSim {α β} (HS : PJ → List (Int × Int) → G → Prop) (R : α → β → Prop) (o : PJObj) (g : G) :
    Res (PJObj × α) → Res β → Prop
  | .ok (o', a), .ok b => R a b ∧ HS o'.val o'.table g ∧ o'.val.order = o.val.order ∧ o'.val.generator = o.val.generator
  | .error e, .error e' => e = e'
  | _, _ => False

/-- **the one place where hidden state changes**: if `f` turns every hidden state of `g` into a hidden state of `g`
(same attributes) with a result related to what `af` computes from the value, then `updPJ i f` refines `aupdPJ i af`,
and the abstract heap does not move -/
theorem updPJ_sim {α β} {R : α → β → Prop} (i : Nat) {f : PJObj → Res (PJObj × α)} {af : G → Option Int → Bool → Res β}
    (hf : ∀ (o : PJObj) (g : G), HS o.val o.table g → StateSim HS R o g (f o) (af g o.val.order o.val.generator)) :
    Sim (HS := HS) (HA := HA) R (updPJ i f) (aupdPJ i af) := by
  intro h ah hi
  unfold updPJ aupdPJ
  rcases hi.get i with ⟨h1, h2⟩ | ⟨o, a, h1, h2, hr⟩
  · simp only [h1, h2]; sim_same hi
  · simp only [h1, h2]
    cases hr with
    | aff ha => sim_same hi
    | infc => sim_same hi
    | key g q => sim_same hi
    | skey d vk => sim_same hi
    | @pj o g hs =>
      have := hf o g hs
      rcases hfo : f o with _ | ⟨o', a⟩ <;> rcases hafo : af g o.val.order o.val.generator with _ | b <;>
        simp only [hfo, hafo, StateSim, Outcome] at this ⊢
      · exact ⟨this, hi⟩
      · obtain ⟨hR, hs', ho, hg⟩ := this
        refine ⟨hR, ?_⟩
        have hr : Rel HS HA (.pj o') (.pj g o.val.order o.val.generator) := by
          have := Rel.pj (HS := HS) (HA := HA) (o := o') hs'
          rwa [ho, hg] at this
        have hset := hi.set i hr
        rwa [list_set_same _ _ _ h2] at hset

/-- a fresh value is allocated the same way on both sides -/
theorem allocPt_sim {v : Pt} {g : G} {order : Option Int} (hv : RFresh HS v g order) :
    SimEq HS HA (allocPt v) (aallocPJ g order) := by
  unfold aallocPJ
  rcases hv with ⟨rfl, rfl⟩ | ⟨J, rfl, hne, hs, ho, hg⟩
  · simp only [allocPt, if_true]; exact Sim.pure rfl
  · simp only [allocPt, if_neg hne]
    have : Rel HS HA (.pj ⟨J, []⟩) (.pj g order false) := by
      have := Rel.pj (HS := HS) (HA := HA) (o := ⟨J, []⟩) hs
      rwa [ho, hg] at this
    exact alloc_sim this

end PointObj
