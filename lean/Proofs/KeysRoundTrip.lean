import Proofs.KeysString
/-!
# Proofs.KeysRoundTrip — `to_string` produces the SEC 1 encodings; `from_string ∘ to_string` is the identity
-/
namespace KeysP
open Keys

/-- the bytes `VerifyingKey.to_string(encoding)` is expected to produce: fixed-length big-endian coordinates -/
def encBytes (k : VK) : PointEnc → Bytes
  | .raw => beFixed (Util.orderlen k.curve.p) k.x ++ beFixed (Util.orderlen k.curve.p) k.y
  | .uncompressed => 0x04 :: (beFixed (Util.orderlen k.curve.p) k.x ++ beFixed (Util.orderlen k.curve.p) k.y)
  | .hybrid => (if k.y % 2 = 1 then 0x07 else 0x06) ::
      (beFixed (Util.orderlen k.curve.p) k.x ++ beFixed (Util.orderlen k.curve.p) k.y)
  | .compressed => (if k.y % 2 = 1 then 0x03 else 0x02) :: beFixed (Util.orderlen k.curve.p) k.x

theorem rawEncode_ok (k : VK) (hx : k.x < k.curve.p) (hy : k.y < k.curve.p) :
    k.rawEncode = .ok (beFixed (Util.orderlen k.curve.p) k.x ++ beFixed (Util.orderlen k.curve.p) k.y) := by
  unfold VK.rawEncode
  rw [numberToString_of_lt _ _ hx, numberToString_of_lt _ _ hy]; rfl

/-- `to_string` never fails on a key with coordinates below `p` and returns the fixed-length encoding -/
theorem toString_ok (k : VK) (hx : k.x < k.curve.p) (hy : k.y < k.curve.p) (enc : PointEnc) :
    k.toString enc = .ok (encBytes k enc) := by
  cases enc
  · exact rawEncode_ok k hx hy
  · unfold VK.toString; simp only; rw [rawEncode_ok k hx hy]; rfl
  · unfold VK.toString VK.compressedEncode; simp only
    rw [numberToString_of_lt _ _ hx]
    unfold encBytes
    by_cases h : k.y % 2 = 1 <;> simp [h, bind, Except.bind]
  · unfold VK.toString VK.hybridEncode; simp only
    rw [rawEncode_ok k hx hy]
    unfold encBytes
    by_cases h : k.y % 2 = 1 <;> simp [h, bind, Except.bind]

theorem encBytes_length (k : VK) (enc : PointEnc) :
    (encBytes k enc).length = match enc with
      | .raw => 2 * Util.orderlen k.curve.p
      | .compressed => Util.orderlen k.curve.p + 1
      | _ => 2 * Util.orderlen k.curve.p + 1 := by
  cases enc <;> simp [encBytes, beFixed_length] <;> omega

theorem take_beFixed (l a b : Nat) : (beFixed l a ++ beFixed l b).take l = beFixed l a := by
  rw [List.take_left' (beFixed_length l a)]

theorem drop_beFixed (l a b : Nat) : (beFixed l a ++ beFixed l b).drop l = beFixed l b := by
  rw [List.drop_left' (beFixed_length l a)]

/-- the bytes of `to_string` are an encoding (in the sense of `Encodes`) of the key's coordinates.  For the compressed
form the coordinate length must not be 1 (then `l + 1 = 2l` and the code reads two bytes as the raw form). -/
theorem encBytes_encodes (k : VK) (hx : k.x < k.curve.p) (hy : k.y < k.curve.p) (enc : PointEnc)
    (hl1 : enc = .compressed → Util.orderlen k.curve.p ≠ 1) :
    Encodes (Util.orderlen k.curve.p) (encBytes k enc) k.x k.y := by
  have hl := orderlen_pos k.curve.p
  have hpx := Nat.lt_trans hx (lt_pow_orderlen k.curve.p)
  have hpy := Nat.lt_trans hy (lt_pow_orderlen k.curve.p)
  have hmod := Nat.mod_two_eq_zero_or_one k.y
  cases enc
  · left
    refine ⟨by simp [encBytes, beFixed_length]; omega, ?_, ?_⟩
    · simp only [encBytes]; rw [take_beFixed, beVal_beFixed_of_lt _ _ hpx]
    · simp only [encBytes]; rw [drop_beFixed, beVal_beFixed_of_lt _ _ hpy]
  · right; left
    refine ⟨by simp [encBytes, beFixed_length]; omega, by simp [encBytes], ?_, ?_⟩
    · simp only [encBytes, List.drop_succ_cons, List.drop_zero]; rw [take_beFixed, beVal_beFixed_of_lt _ _ hpx]
    · simp only [encBytes, List.drop_succ_cons, List.drop_zero]; rw [drop_beFixed, beVal_beFixed_of_lt _ _ hpy]
  · right; right; right
    refine ⟨by simp [encBytes, beFixed_length], ?_, ?_, ?_⟩
    · have := hl1 rfl
      simp [encBytes, beFixed_length]; omega
    · rcases hmod with h | h
      · left; simp [encBytes, h]
      · right; simp [encBytes, h]
    · simp only [encBytes, List.drop_succ_cons, List.drop_zero]; rw [beVal_beFixed_of_lt _ _ hpx]
  · right; right; left
    refine ⟨by simp [encBytes, beFixed_length]; omega, ?_, ?_, ?_⟩
    · rcases hmod with h | h
      · left; simp [encBytes, h]
      · right; simp [encBytes, h]
    · simp only [encBytes, List.drop_succ_cons, List.drop_zero]; rw [take_beFixed, beVal_beFixed_of_lt _ _ hpx]
    · simp only [encBytes, List.drop_succ_cons, List.drop_zero]; rw [drop_beFixed, beVal_beFixed_of_lt _ _ hpy]

/-- `from_string(to_string(k, enc)) = k` for every valid key and every point encoding -/
theorem fromString_toString (E : Ext) (k : VK) (hpr : k.curve.p.Prime) (hodd : k.curve.p % 2 = 1) (hn : k.curve.n ≠ 0)
    (hs : SqrtSpec E.sqrtModP k.curve.p) (hv : ValidPoint E k.curve k.x k.y) (enc : PointEnc)
    (hl1 : enc = .compressed → Util.orderlen k.curve.p ≠ 1) :
    ∃ bs, k.toString enc = .ok bs ∧ VK.fromString E k.curve bs true = .ok k :=
  ⟨encBytes k enc, toString_ok k hv.1 hv.2.1 enc,
    (fromString_ok_iff E k.curve hpr hodd hn hs _ k).mpr ⟨rfl, encBytes_encodes k hv.1 hv.2.1 enc hl1, hv⟩⟩

/-! ## signing keys -/

/-- the contract of `generator * d` the private-key loaders rely on (C07's theorem): for `1 ≤ d < n` the public
point exists and has coordinates in `[0, p)` -/
def PubSpec (E : Ext) (c : Curve) : Prop :=
  ∀ d : Nat, 1 ≤ d → d < c.n → ∃ x y : Nat, E.pubPoint c d = some ((x : Int), (y : Int)) ∧ x < c.p ∧ y < c.p

/-- a signing key as `from_secret_exponent` builds it -/
def SK.WF (E : Ext) (k : SK) : Prop :=
  1 ≤ k.d ∧ k.d < k.curve.n ∧ k.vk.curve = k.curve ∧ k.vk.x < k.curve.p ∧ k.vk.y < k.curve.p ∧
    E.pubPoint k.curve k.d = some ((k.vk.x : Int), (k.vk.y : Int))

theorem fromPublicPoint_novalidate (E : Ext) (c : Curve) (hn : c.n ≠ 0) (x y : Nat) (hx : x < c.p) (hy : y < c.p) :
    fromPublicPoint E c x y false = .ok ⟨c, x, y⟩ := by
  unfold fromPublicPoint
  have e1 : ¬ (¬ (0 ≤ (x : Int) ∧ (x : Int) < c.p) ∨ ¬ (0 ≤ (y : Int) ∧ (y : Int) < c.p)) := by
    simp only [not_or, not_not]; exact ⟨⟨by omega, by omega⟩, ⟨by omega, by omega⟩⟩
  rw [if_neg e1]
  simp [hn]

theorem fromSecretExponent_ok (E : Ext) (k : SK) (hw : SK.WF E k) :
    SK.fromSecretExponent E k.curve k.d = .ok k := by
  obtain ⟨h1, h2, hc, hx, hy, hpub⟩ := hw
  unfold SK.fromSecretExponent
  have e1 : ¬ ¬ (1 ≤ (k.d : Int) ∧ (k.d : Int) < k.curve.n) := by simp only [not_not]; exact ⟨by omega, by omega⟩
  rw [if_neg e1]
  simp only [Int.toNat_natCast]
  rw [hpub]; simp only
  rw [fromPublicPoint_novalidate E k.curve (by omega) _ _ hx hy]
  simp only
  cases k with
  | mk c d vk => cases vk; simp_all

theorem fromSecretExponent_wf (E : Ext) (c : Curve) (d : Int) (k : SK) (h : SK.fromSecretExponent E c d = .ok k) :
    SK.WF E k ∧ k.curve = c ∧ (k.d : Int) = d := by
  unfold SK.fromSecretExponent at h
  split at h
  · cases h
  · rename_i hr
    simp only [not_not] at hr
    split at h
    · cases h
    · rename_i x y hpub
      split at h
      · cases h
      · rename_i vk hvk
        injection h with h; subst h
        unfold fromPublicPoint at hvk
        split at hvk
        · cases hvk
        · rename_i hrange
          simp only [not_or, not_not] at hrange
          simp only [Bool.false_eq_true, false_and, if_false] at hvk
          split at hvk
          · cases hvk
          · injection hvk with hvk; subst hvk
            refine ⟨⟨?_, ?_, rfl, ?_, ?_, ?_⟩, rfl, ?_⟩
            · show 1 ≤ d.toNat; omega
            · show d.toNat < c.n; omega
            · show x.toNat < c.p; omega
            · show y.toNat < c.p; omega
            · show E.pubPoint c d.toNat = some ((x.toNat : Int), (y.toNat : Int))
              rw [Int.toNat_of_nonneg hrange.1.1, Int.toNat_of_nonneg hrange.2.1]; exact hpub
            · show (d.toNat : Int) = d; omega

/-- `SigningKey.to_string` is the fixed-length big-endian scalar -/
theorem sk_toString_ok (k : SK) (h : k.d < k.curve.n) :
    k.toString = .ok (beFixed (Util.orderlen k.curve.n) k.d) := numberToString_of_lt _ _ h

/-- `SigningKey.from_string(sk.to_string()) = sk` -/
theorem sk_fromString_toString (E : Ext) (k : SK) (hw : SK.WF E k) :
    ∃ bs, k.toString = .ok bs ∧ SK.fromString E k.curve bs = .ok k := by
  refine ⟨_, sk_toString_ok k hw.2.1, ?_⟩
  have hl := orderlen_pos k.curve.n
  unfold SK.fromString Curve.baselen
  rw [if_neg (by rw [beFixed_length]; simp), stringToNumber_beFixed _ _ hl (Nat.lt_trans hw.2.1 (lt_pow_orderlen _))]
  exact fromSecretExponent_ok E k hw

end KeysP
