import Proofs.JacCast
/-!
# Proofs.JacRep — every generated kernel computes the group law on representations (integer level)

`IRep p a b H t g`: the integer triple `t` (as the code holds it) represents `g ∈ H`: the integer zero tests `not Y`,
`not Z` agree with the field (`ZT`, true for |c| < p — in particular for the `-Y2` the loops pass) and the residues
are a representation (`Rep`) of `g` in the code's reading (Y ≡ 0 or Z ≡ 0 is the identity).
All theorems: p an odd prime, `NoOrder2 H` (N2T).  Nothing is assumed about Δ: Mathlib's group is the group of
nonsingular points.
-/
namespace Jac
open WeierstrassCurve WeierstrassCurve.Jacobian

variable {p : ℕ} [hp : Fact p.Prime]

def IRep (p : ℕ) [Fact p.Prime] (a b : ℤ) (H : AddSubgroup (Grp (a : ZMod p) (b : ZMod p)))
    (t : ℤ × ℤ × ℤ) (g : Grp (a : ZMod p) (b : ZMod p)) : Prop :=
  ZT p t.2.1 ∧ ZT p t.2.2 ∧ Rep (a : ZMod p) (b : ZMod p) H (cast3 p t) g

variable {a b : ℤ} {H : AddSubgroup (Grp (a : ZMod p) (b : ZMod p))}

@[simp] theorem cast3_mk (x y z : ℤ) : cast3 p (x, y, z) = ![(x : ZMod p), (y : ZMod p), (z : ZMod p)] := rfl

theorem zt_one : ZT p 1 := fun _ => by
  have : (1 : ZMod p) ≠ 0 := one_ne_zero
  simp_all

omit hp in
theorem zt_zero : ZT p 0 := fun _ => rfl

theorem irep_sentinel : IRep p a b H (0, 0, 1) 0 :=
  ⟨zt_zero, zt_one, rep_zero_of H (Or.inl (by simp))⟩

theorem IRep.zero_of {t : ℤ × ℤ × ℤ} (h1 : ZT p t.2.1) (h2 : ZT p t.2.2)
    (h0 : (t.2.1 : ZMod p) = 0 ∨ (t.2.2 : ZMod p) = 0) : IRep p a b H t 0 :=
  ⟨h1, h2, rep_zero_of H (by simpa [cast3] using h0)⟩

theorem IRep.eq_zero {t : ℤ × ℤ × ℤ} {g} (h : IRep p a b H t g) (h0 : t.2.1 = 0 ∨ t.2.2 = 0) : g = 0 := by
  apply h.2.2.eq_zero
  rcases h0 with h0 | h0
  · left; simp [cast3, h0]
  · right; simp [cast3, h0]

theorem IRep.eq_zero' {t : ℤ × ℤ × ℤ} {g} (h : IRep p a b H t g)
    (h0 : (t.2.1 : ZMod p) = 0 ∨ (t.2.2 : ZMod p) = 0) : g = 0 :=
  h.2.2.eq_zero (by simpa [cast3] using h0)

theorem IRep.good {t : ℤ × ℤ × ℤ} {g} (h : IRep p a b H t g) (h1 : t.2.1 ≠ 0) (h2 : t.2.2 ≠ 0) :
    Good (a : ZMod p) (b : ZMod p) H (cast3 p t) g :=
  h.2.2.good (by simpa [cast3] using h.1.ne h1) (by simpa [cast3] using h.2.1.ne h2)

theorem IRep.mem {t : ℤ × ℤ × ℤ} {g} (h : IRep p a b H t g) : g ∈ H := h.2.2.1

/-- `_double_with_z_1` -/
theorem k_double_with_z_1_correct (hH : NoOrder2 H) {X1 Y1 : ℤ} {g}
    (h : IRep p a b H (X1, Y1, 1) g) : IRep p a b H (Gen.k_double_with_z_1 X1 Y1 p a) (g + g) := by
  rcases k_double_with_z_1_cases (p := p) X1 Y1 a with ⟨hy, he⟩ | ⟨hy, hc, z1, z2⟩
  · rw [he, h.eq_zero' (Or.inl hy), add_zero]; exact irep_sentinel
  · have hg : Good (a : ZMod p) (b : ZMod p) H (cast3 p (X1, Y1, 1)) g :=
      h.2.2.good (by simpa using hy) (by simp)
    refine ⟨z1, z2, rep_double hH hg ?_⟩
    rw [hc, dblZ1F_eq (a : ZMod p) (b : ZMod p)]; simp

/-- `_double` -/
theorem k_double_correct (hH : NoOrder2 H) {X1 Y1 Z1 : ℤ} {g}
    (h : IRep p a b H (X1, Y1, Z1) g) : IRep p a b H (Gen.k_double X1 Y1 Z1 p a) (g + g) := by
  by_cases hZ : Z1 = 1
  · subst hZ; rw [k_double_z1]; exact k_double_with_z_1_correct hH h
  · rcases k_double_cases (p := p) X1 Y1 Z1 a hZ with ⟨h0, he⟩ | ⟨hy, hz, hyf, hc, z1, z2⟩
    · have : g = 0 := by
        rcases h0 with h0 | h0 | h0
        · exact h.eq_zero (Or.inl h0)
        · exact h.eq_zero (Or.inr h0)
        · exact h.eq_zero' (Or.inl h0)
      rw [he, this, add_zero]; exact irep_sentinel
    · have hg := h.good hy hz
      refine ⟨z1, z2, rep_double hH hg ?_⟩
      rw [hc, dblF_eq (a : ZMod p) (b : ZMod p)]; simp

/-- `_add_with_z_1` -/
theorem k_add_with_z_1_correct (hp2 : p ≠ 2) (hH : NoOrder2 H) {X1 Y1 X2 Y2 : ℤ} {g h}
    (hP : IRep p a b H (X1, Y1, 1) g) (hQ : IRep p a b H (X2, Y2, 1) h) (hY1 : Y1 ≠ 0) (hY2 : Y2 ≠ 0) :
    IRep p a b H (Gen.k_add_with_z_1 X1 Y1 X2 Y2 p a) (g + h) := by
  have h2 := two_ne_zero_of hp2
  have gP := hP.good hY1 one_ne_zero
  have gQ := hQ.good hY2 one_ne_zero
  rcases k_add_with_z_1_cases h2 X1 Y1 X2 Y2 a with ⟨⟨ex, ey⟩, he⟩ | ⟨hne, hc, z1, z2⟩
  · have : cast3 p (X1, Y1, 1) = cast3 p (X2, Y2, 1) := by simp [ex, ey]
    have hgh : g = h := by rw [← gP.2.2.2.2, ← gQ.2.2.2.2, this]
    rw [he, ← hgh]; exact k_double_with_z_1_correct hH hP
  · refine ⟨z1, z2, rep_add_generic hH gP gQ ?_ (neg_ne_zero.mpr h2).isUnit ?_⟩
    · rw [equiv_iff_cross gP.2.2.1 gQ.2.2.1]
      rintro ⟨e1, e2⟩
      apply hne
      simp at e1 e2
      exact ⟨e1.symm, e2.symm⟩
    · rw [hc, addZ1F_eq_smul (a : ZMod p) (b : ZMod p) _ _ _ _ (by simpa using gP.2.2.2.1.left)
        (by simpa using gQ.2.2.2.1.left)]
      simp

/-- `_add_with_z_eq` -/
theorem k_add_with_z_eq_correct (_hp2 : p ≠ 2) (hH : NoOrder2 H) {X1 Y1 Z1 X2 Y2 : ℤ} {g h}
    (hP : IRep p a b H (X1, Y1, Z1) g) (hQ : IRep p a b H (X2, Y2, Z1) h) (hY1 : Y1 ≠ 0) (hY2 : Y2 ≠ 0)
    (hZ1 : Z1 ≠ 0) :
    IRep p a b H (Gen.k_add_with_z_eq X1 Y1 Z1 X2 Y2 p a) (g + h) := by
  have gP := hP.good hY1 hZ1
  have gQ := hQ.good hY2 hZ1
  have hz : (Z1 : ZMod p) ≠ 0 := by simpa using gP.2.2.1
  rcases k_add_with_z_eq_cases (p := p) X1 Y1 Z1 X2 Y2 a with ⟨⟨ex, ey⟩, he⟩ | ⟨hne, hc, z1, z2⟩
  · have : cast3 p (X1, Y1, Z1) = cast3 p (X2, Y2, Z1) := by simp [ex, ey]
    have hgh : g = h := by rw [← gP.2.2.2.2, ← gQ.2.2.2.2, this]
    rw [he, ← hgh]; exact k_double_correct hH hP
  · refine ⟨z1, z2, rep_add_generic hH gP gQ ?_ (neg_ne_zero.mpr (inv_ne_zero hz)).isUnit ?_⟩
    · rw [equiv_iff_cross gP.2.2.1 gQ.2.2.1]
      rintro ⟨e1, e2⟩
      apply hne
      simp at e1 e2
      exact ⟨(e1.resolve_right hz).symm, (e2.resolve_right hz).symm⟩
    · rw [hc, addZeqF_eq_smul (a : ZMod p) (b : ZMod p) _ _ _ _ _ hz (by simpa using gP.2.2.2.1.left)
        (by simpa using gQ.2.2.2.1.left)]
      simp

/-- `_add_with_z2_1` -/
theorem k_add_with_z2_1_correct (hp2 : p ≠ 2) (hH : NoOrder2 H) {X1 Y1 Z1 X2 Y2 : ℤ} {g h}
    (hP : IRep p a b H (X1, Y1, Z1) g) (hQ : IRep p a b H (X2, Y2, 1) h) (hY1 : Y1 ≠ 0) (hY2 : Y2 ≠ 0)
    (hZ1 : Z1 ≠ 0) :
    IRep p a b H (Gen.k_add_with_z2_1 X1 Y1 Z1 X2 Y2 p a) (g + h) := by
  have h2 := two_ne_zero_of hp2
  have gP := hP.good hY1 hZ1
  have gQ := hQ.good hY2 one_ne_zero
  have hz : (Z1 : ZMod p) ≠ 0 := by simpa using gP.2.2.1
  have hcross : cast3 p (X1, Y1, Z1) ≈ cast3 p (X2, Y2, 1) ↔
      ((X2 : ZMod p) * Z1 ^ 2 = X1 ∧ (Y2 : ZMod p) * Z1 ^ 3 = Y1) := by
    rw [equiv_iff_cross gP.2.2.1 gQ.2.2.1]
    simp only [cast3_mk, Matrix.cons_val_zero, Matrix.cons_val_one, Matrix.cons_val_two, Matrix.head_cons,
      Matrix.tail_cons, Int.cast_one, one_pow, mul_one]
    constructor
    · rintro ⟨e1, e2⟩; exact ⟨e1.symm, e2.symm⟩
    · rintro ⟨e1, e2⟩; exact ⟨e1.symm, e2.symm⟩
  rcases k_add_with_z2_1_cases h2 X1 Y1 Z1 X2 Y2 a with ⟨hs, he⟩ | ⟨hne, hc, z1, z2⟩
  · have hgh : g = h := (good_equiv_iff gP gQ).mp (hcross.mpr hs)
    rw [he, hgh]; exact k_double_with_z_1_correct hH hQ
  · refine ⟨z1, z2, rep_add_generic hH gP gQ (fun e => hne (hcross.mp e))
      (mul_ne_zero (neg_ne_zero.mpr h2) hz).isUnit ?_⟩
    rw [hc, addZ21F_eq_smul (a : ZMod p) (b : ZMod p) _ _ _ _ _ (by simpa using gP.2.2.2.1.left)
        (by simpa using gQ.2.2.2.1.left)]
    simp

/-- `_add_with_z_ne` -/
theorem k_add_with_z_ne_correct (hp2 : p ≠ 2) (hH : NoOrder2 H) {X1 Y1 Z1 X2 Y2 Z2 : ℤ} {g h}
    (hP : IRep p a b H (X1, Y1, Z1) g) (hQ : IRep p a b H (X2, Y2, Z2) h) (hY1 : Y1 ≠ 0) (hY2 : Y2 ≠ 0)
    (hZ1 : Z1 ≠ 0) (hZ2 : Z2 ≠ 0) :
    IRep p a b H (Gen.k_add_with_z_ne X1 Y1 Z1 X2 Y2 Z2 p a) (g + h) := by
  have h2 := two_ne_zero_of hp2
  have gP := hP.good hY1 hZ1
  have gQ := hQ.good hY2 hZ2
  have hz1 : (Z1 : ZMod p) ≠ 0 := by simpa using gP.2.2.1
  have hz2 : (Z2 : ZMod p) ≠ 0 := by simpa using gQ.2.2.1
  have hcross : cast3 p (X1, Y1, Z1) ≈ cast3 p (X2, Y2, Z2) ↔
      ((X2 : ZMod p) * Z1 ^ 2 = X1 * Z2 ^ 2 ∧ (Y2 : ZMod p) * Z1 ^ 3 = Y1 * Z2 ^ 3) := by
    rw [equiv_iff_cross gP.2.2.1 gQ.2.2.1]
    simp only [cast3_mk, Matrix.cons_val_zero, Matrix.cons_val_one, Matrix.cons_val_two, Matrix.head_cons,
      Matrix.tail_cons]
    constructor
    · rintro ⟨e1, e2⟩; exact ⟨e1.symm, e2.symm⟩
    · rintro ⟨e1, e2⟩; exact ⟨e1.symm, e2.symm⟩
  rcases k_add_with_z_ne_cases h2 X1 Y1 Z1 X2 Y2 Z2 a with ⟨hs, he⟩ | ⟨hne, hc, z1, z2⟩
  · have hgh : g = h := (good_equiv_iff gP gQ).mp (hcross.mpr hs)
    rw [he, ← hgh]; exact k_double_correct hH hP
  · refine ⟨z1, z2, rep_add_generic hH gP gQ (fun e => hne (hcross.mp e))
      (mul_ne_zero (mul_ne_zero (neg_ne_zero.mpr h2) hz1) hz2).isUnit ?_⟩
    rw [hc, addNeF_eq_smul (a : ZMod p) (b : ZMod p) _ _ _ _ _ _ (by simpa using gP.2.2.2.1.left)
        (by simpa using gQ.2.2.2.1.left)]
    simp

/-- `_add`: the dispatch on Z and the pass-through of identity operands -/
theorem k_add_correct (hp2 : p ≠ 2) (hH : NoOrder2 H) {X1 Y1 Z1 X2 Y2 Z2 : ℤ} {g h}
    (hP : IRep p a b H (X1, Y1, Z1) g) (hQ : IRep p a b H (X2, Y2, Z2) h) :
    IRep p a b H (Gen.k_add X1 Y1 Z1 X2 Y2 Z2 p a) (g + h) := by
  unfold Gen.k_add
  split_ifs with c1 c2 c3 c4 c5 c6
  · -- first operand is the identity
    simp only [Bool.or_eq_true, decide_eq_true_eq] at c1
    rw [hP.eq_zero c1, zero_add]
    refine ⟨zt_fmod _, hQ.2.1, ?_⟩
    have : cast3 p (X2, Int.fmod Y2 p, Z2) = cast3 p (X2, Y2, Z2) := by simp
    rw [this]; exact hQ.2.2
  · simp only [Bool.or_eq_true, decide_eq_true_eq] at c2
    rw [hQ.eq_zero c2, add_zero]; exact hP
  all_goals
    simp only [Bool.or_eq_true, decide_eq_true_eq, not_or] at c1 c2
  · simp only [decide_eq_true_eq] at c3 c4
    subst c3; subst c4
    exact k_add_with_z_1_correct hp2 hH hP hQ c1.1 c2.1
  · simp only [decide_eq_true_eq] at c3
    subst c3
    exact k_add_with_z_eq_correct hp2 hH hP hQ c1.1 c2.1 c1.2
  · simp only [decide_eq_true_eq] at c5
    subst c5
    rw [add_comm]
    exact k_add_with_z2_1_correct hp2 hH hQ hP c2.1 c1.1 c2.2
  · simp only [decide_eq_true_eq] at c6
    subst c6
    exact k_add_with_z2_1_correct hp2 hH hP hQ c1.1 c2.1 c1.2
  · exact k_add_with_z_ne_correct hp2 hH hP hQ c1.1 c2.1 c1.2 c2.2

end Jac
