import Proofs.NamedPrimeCertsA
import Proofs.NamedPrimeCertsB
import Proofs.NamedPrimeCertsC
import Proofs.NamedPrimeCertsD
/-! the certificate chains for the named curves, split into 4 files so that lake checks them in parallel -/
