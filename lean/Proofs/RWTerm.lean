import Proofs.RWLive
/-! # Proofs.RWTerm — thread level: deadlock freedom, the termination measure, maximal schedules end with every
thread finished -/
set_option linter.unusedVariables false
namespace RW

/-! ## program counters stay inside the round -/

def PcOk (P : Progs) (c : Cfg) : Prop :=
  ∀ t ∈ c.thr, ∀ r rest, t.rounds = r :: rest → t.pc < (P.round r).length

theorem pcOk_init (P : Progs) (hne : ∀ r, 0 < (P.round r).length) (rs : List (List Role)) :
    PcOk P (Cfg.init P rs) := by
  intro t ht r rest hr
  simp only [Cfg.init, List.mem_map] at ht
  obtain ⟨l, _, rfl⟩ := ht
  exact hne r

theorem tstep_ok_inv {P : Progs} {c c' : Cfg} {i : Nat} (h : tstep P c i = .ok c') :
    ∃ t r rest ins sh', c.thr[i]? = some t ∧ t.rounds = r :: rest ∧ (P.round r)[t.pc]? = some ins ∧
      exec ins c.sh = .ok sh' ∧ c' = ⟨sh', c.thr.set i (advance P t)⟩ := by
  unfold tstep at h
  split at h
  · cases h
  · rename_i t ht
    split at h
    · cases h
    · rename_i r rest hr
      split at h
      · cases h
      · rename_i ins hins
        split at h
        · rename_i sh' hex
          injection h with h
          exact ⟨t, r, rest, ins, sh', ht, hr, hins, hex, h.symm⟩
        · cases h
        · cases h

theorem pcOk_step {P : Progs} (hne : ∀ r, 0 < (P.round r).length) {c c' : Cfg} {i : Nat}
    (hc : PcOk P c) (h : tstep P c i = .ok c') : PcOk P c' := by
  obtain ⟨t, r, rest, ins, sh', ht, hr, hins, hex, rfl⟩ := tstep_ok_inv h
  intro t' ht' r' rest' hr'
  simp only at ht'
  rcases List.mem_or_eq_of_mem_set ht' with h1 | h1
  · exact hc t' h1 r' rest' hr'
  · subst h1
    unfold advance at hr' ⊢
    rw [hr] at hr' ⊢
    simp only at hr' ⊢
    split
    · rename_i hlt
      simp only [hlt, if_true] at hr'
      injection hr' with h1 h2
      subst h1
      exact hlt
    · exact hne r'

theorem round_pos : ∀ r, 0 < (GP.round r).length := by
  intro r; cases r
  · rw [round_len_reader]; omega
  · rw [round_len_writer]; omega

theorem reach_pcOk {rs : List (List Role)} {c : Cfg} (h : Reach GP rs c) : PcOk GP c := by
  induction h with
  | init => exact pcOk_init GP round_pos rs
  | step i _ hs ih => exact pcOk_step round_pos ih hs

/-! ## deadlock freedom -/

theorem cstep_ok_of_guard {P : Progs} {s : CS} {r k ins} (hc : s.cnt r k ≠ 0) (hins : (P.round r)[k]? = some ins)
    (hg : guard ins s.sh) (nxt : Option Role) : ∃ s', cstep P ⟨r, k, nxt⟩ s = .ok s' := by
  obtain ⟨sh', hex⟩ := (exec_isOk ins s.sh).mpr hg
  exact ⟨⟨sh', move s.cnt (r, k) (dest P r k nxt)⟩, by simp [cstep, hc, hins, hex]⟩

/-- **deadlock freedom**: in every reachable configuration in which some thread has not finished all its rounds,
some thread can take a step -/
theorem deadlock_free_thr {rs : List (List Role)} {c : Cfg} (h : Reach GP rs c)
    (hun : ∃ t ∈ c.thr, t.finished = false) : ∃ i c', tstep GP c i = .ok c' := by
  obtain ⟨t, ht, hf⟩ := hun
  obtain ⟨rounds, pc⟩ := t
  cases rounds with
  | nil => simp [Thread.finished] at hf
  | cons r rest =>
    have hpc := reach_pcOk h _ ht r rest rfl
    obtain ⟨i, hi⟩ := List.getElem?_of_mem ht
    have hcnt : (abs c).cnt r pc ≠ 0 := cntAt_ne_zero hi (by simp [Thread.pt])
    obtain ⟨r', k', hen⟩ := rinv_progress (abs c) (reach_rinv h) ⟨r, pc, hcnt, hpc⟩
    obtain ⟨hc', ins, hins, hg⟩ := (enabled_iff GP (abs c) r' k').mp hen
    obtain ⟨j, tj, restj, hj, hrj, hkj, hsim⟩ := sim_back GP c r' k' hc'
    obtain ⟨s', hs'⟩ := cstep_ok_of_guard hc' hins hg restj.head?
    rw [hs'] at hsim
    cases hts : tstep GP c j with
    | ok c' => exact ⟨j, c', hts⟩
    | blocked => rw [hts] at hsim; simp [SRes.map] at hsim
    | err => rw [hts] at hsim; simp [SRes.map] at hsim
    | none => rw [hts] at hsim; simp [SRes.map] at hsim

/-! ## termination measure -/

theorem sum_map_set {α : Type} (f : α → Nat) : ∀ (l : List α) (i : Nat) (a b : α), l[i]? = some a →
    ((l.set i b).map f).sum + f a = (l.map f).sum + f b
  | [], i, a, b, h => by simp at h
  | x :: l, 0, a, b, h => by
    simp only [List.getElem?_cons_zero, Option.some.injEq] at h
    subst h
    simp only [List.set_cons_zero, List.map_cons, List.sum_cons]
    omega
  | x :: l, i + 1, a, b, h => by
    simp only [List.getElem?_cons_succ] at h
    have := sum_map_set f l i a b h
    simp only [List.set_cons_succ, List.map_cons, List.sum_cons]
    omega

theorem remaining_advance {P : Progs} {t : Thread} {r rest} (hr : t.rounds = r :: rest)
    (hpc : t.pc < (P.round r).length) : (advance P t).remaining P + 1 = t.remaining P := by
  obtain ⟨rounds, pc⟩ := t
  simp only at hr hpc
  subst hr
  unfold advance
  simp only
  split
  · simp only [Thread.remaining]; omega
  · rename_i hge
    have : pc + 1 = (P.round r).length := by omega
    cases rest with
    | nil => simp only [Thread.remaining, List.map_nil, List.sum_nil]; omega
    | cons r' rest' => simp only [Thread.remaining, List.map_cons, List.sum_cons]; omega

/-- every step consumes exactly one instruction -/
theorem remaining_step {P : Progs} {c c' : Cfg} {i : Nat} (h : tstep P c i = .ok c') :
    c'.remaining P + 1 = c.remaining P := by
  obtain ⟨t, r, rest, ins, sh', ht, hr, hins, hex, rfl⟩ := tstep_ok_inv h
  have hpc : t.pc < (P.round r).length := (List.getElem?_eq_some_iff.mp hins).1
  have h1 := sum_map_set (Thread.remaining P) c.thr i t (advance P t) ht
  have h2 := remaining_advance (P := P) hr hpc
  simp only [Cfg.remaining]
  omega

theorem runSched_reach {P : Progs} {rs : List (List Role)} : ∀ (sched : List Nat) (c c' : Cfg),
    Reach P rs c → runSched P c sched = .ok c' → Reach P rs c'
  | [], c, c', h, hr => by
    simp only [runSched] at hr; injection hr with hr; subst hr; exact h
  | i :: rest, c, c', h, hr => by
    simp only [runSched] at hr
    split at hr
    · rename_i c1 h1
      exact runSched_reach rest c1 c' (Reach.step i h h1) hr
    · cases hr
    · cases hr
    · cases hr

/-- a schedule of `n` steps consumes exactly `n` instructions: no schedule is longer than the programs -/
theorem runSched_remaining {P : Progs} : ∀ (sched : List Nat) (c c' : Cfg),
    runSched P c sched = .ok c' → c'.remaining P + sched.length = c.remaining P
  | [], c, c', hr => by
    simp only [runSched] at hr; injection hr with hr; subst hr; simp
  | i :: rest, c, c', hr => by
    simp only [runSched] at hr
    split at hr
    · rename_i c1 h1
      have := runSched_remaining rest c1 c' hr
      have := remaining_step h1
      simp only [List.length_cons]; omega
    · cases hr
    · cases hr
    · cases hr

theorem runSched_append {P : Progs} : ∀ (s1 s2 : List Nat) (c c1 : Cfg),
    runSched P c s1 = .ok c1 → runSched P c (s1 ++ s2) = runSched P c1 s2
  | [], s2, c, c1, h => by
    simp only [runSched] at h; injection h with h; subst h; rfl
  | i :: rest, s2, c, c1, h => by
    simp only [runSched, List.cons_append] at h ⊢
    split at h
    · rename_i c' h1
      exact runSched_append rest s2 c' c1 h
    · cases h
    · cases h
    · cases h

def Stuck (P : Progs) (c : Cfg) : Prop := ∀ i c', tstep P c i ≠ .ok c'
def AllFinished (c : Cfg) : Prop := ∀ t ∈ c.thr, t.finished = true

/-- a configuration from which nobody can move is one in which every thread has finished -/
theorem stuck_finished {rs : List (List Role)} {c : Cfg} (h : Reach GP rs c) (hs : Stuck GP c) : AllFinished c := by
  intro t ht
  cases hf : t.finished with
  | true => rfl
  | false =>
    obtain ⟨i, c', hst⟩ := deadlock_free_thr h ⟨t, ht, hf⟩
    exact absurd hst (hs i c')

theorem remaining_zero_of_finished {P : Progs} {c : Cfg} (h : AllFinished c) : c.remaining P = 0 := by
  unfold Cfg.remaining
  have : ∀ l : List Thread, (∀ t ∈ l, t.finished = true) → (l.map (Thread.remaining P)).sum = 0 := by
    intro l
    induction l with
    | nil => intro _; rfl
    | cons x l ih =>
      intro hl
      have hx := hl x (by simp)
      have := ih (fun t ht => hl t (by simp [ht]))
      obtain ⟨rounds, pc⟩ := x
      cases rounds with
      | nil => simp only [List.map_cons, List.sum_cons, Thread.remaining]; omega
      | cons r rest => simp [Thread.finished] at hx
  exact this c.thr h

/-- from every reachable configuration the run can be completed: there is a schedule after which every thread has
finished (so no acquire is lost: each pending `*_acquire` / `*_release` can still return) -/
theorem can_finish {rs : List (List Role)} : ∀ (n : Nat) (c : Cfg), Reach GP rs c → c.remaining GP = n →
    ∃ sched c', runSched GP c sched = .ok c' ∧ AllFinished c'
  | 0, c, h, hn => by
    refine ⟨[], c, rfl, ?_⟩
    apply stuck_finished h
    intro i c' hst
    have := remaining_step hst
    omega
  | n + 1, c, h, hn => by
    by_cases hfin : AllFinished c
    · exact ⟨[], c, rfl, hfin⟩
    · have : ∃ t ∈ c.thr, t.finished = false := by
        apply Classical.byContradiction
        intro hno
        apply hfin
        intro t ht
        cases hf : t.finished with
        | true => rfl
        | false => exact absurd ⟨t, ht, hf⟩ hno
      obtain ⟨i, c1, hst⟩ := deadlock_free_thr h this
      have hrem := remaining_step hst
      obtain ⟨sched, c', hrun, hfin'⟩ := can_finish n c1 (Reach.step i h hst) (by omega)
      refine ⟨i :: sched, c', ?_, hfin'⟩
      simp only [runSched, hst]
      exact hrun

/-! ## the visible-step semantics (what the correspondence replays) is a sub-semantics of `Reach` -/

theorem runToYield_reach {P : Progs} {rs : List (List Role)} (i : Nat) : ∀ (fuel : Nat) (c c' : Cfg),
    Reach P rs c → runToYield P i fuel c = .ok c' → Reach P rs c'
  | 0, c, c', h, hr => by
    simp only [runToYield] at hr; injection hr with hr; subst hr; exact h
  | fuel + 1, c, c', h, hr => by
    simp only [runToYield] at hr
    split at hr
    · injection hr with hr; subst hr; exact h
    · split at hr
      · rename_i c1 h1
        exact runToYield_reach i fuel c1 c' (Reach.step i h h1) hr
      · cases hr
      · cases hr
      · cases hr

/-- a visible step (pending lock operation, then on to the next lock operation) leads from a reachable configuration to a
reachable configuration: every schedule of the real scheduler's granularity is a thread-level schedule -/
theorem vstep_reach {P : Progs} {rs : List (List Role)} (fuel : Nat) (c c' : Cfg) (i : Nat)
    (h : Reach P rs c) (hv : vstep P fuel c i = .ok c') : Reach P rs c' := by
  simp only [vstep] at hv
  split at hv
  · rename_i c1 h1
    exact runToYield_reach i fuel c1 c' (Reach.step i h h1) hv
  · cases hv
  · cases hv
  · cases hv

end RW
