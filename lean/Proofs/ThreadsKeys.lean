import Proofs.ThreadsOps
/-! # Proofs.ThreadsKeys — the key-level operations (`Public_key.verifies`, `Private_key.sign`,
`VerifyingKey.precompute`, `_raw_encode`, `_compressed_encode`) are `Safe`

The key's field `point` is a *free* cell: `precompute` may overwrite it at any time, with a reference to any of the
allowed point objects (`Env.targets`: the original point and the equal-valued objects created by `precompute`). -/
set_option linter.unusedVariables false
set_option linter.unusedSimpArgs false
namespace ThreadProgs
open Access Threads

/-- `A` then, on success, `F` of its value -/
def accBind (A : Res Out → Prop) (F : Out → Res Out → Prop) (r : Res Out) : Prop :=
  (∃ e, A (.error e) ∧ r = .error e) ∨ ∃ o, A (.ok o) ∧ F o r

/-- a load of the key's pointer followed by the rest: the reference read is any allowed one -/
theorem safe_seq_loadPtr {E : Env} {s : Loc} {rest : M} {acc : Res Out → Prop} {ph : Phases Cell} {kx : PyErr → P}
    {kr k : Loc → P}
    (h : ∀ t, E.targets s.key t → SafeE E acc ph (den rest { s with other := t } kx kr k)) :
    SafeE E acc ph (den (loadPtr ;; rest) s kx kr k) := by
  rw [den_seq]
  simp only [loadPtr, den, Loc.fresh, Loc.obj]
  apply Safe.readFree (by trivial)
  intro v hv
  obtain ⟨t, ht, rfl⟩ := hv
  exact h t ht

theorem safe_loadPtr_last {E : Env} {s : Loc} {acc : Res Out → Prop} {ph : Phases Cell} {kx : PyErr → P}
    {kr k : Loc → P} (h : ∀ t, E.targets s.key t → SafeE E acc ph (k { s with other := t })) :
    SafeE E acc ph (den loadPtr s kx kr k) := by
  simp only [loadPtr, den, Loc.fresh, Loc.obj]
  apply Safe.readFree (by trivial)
  intro v hv
  obtain ⟨t, ht, rfl⟩ := hv
  exact h t ht

/-! ### `x()` and `== INFINITY` on an operand that is a shared object or a call result -/

theorem op_safe_x_g (E : Env) (s : Loc) (ph : Phases Cell) :
    SafeE E (fun r => ∃ c, GoodOp E s .self c ∧ r = seqX (E.info s.self) c) ph (toProg (mX E.info) s) := by
  unfold toProg
  simp only [mX, den_seq, loadA]
  apply safe_load_coords
  intro c ph' hc _
  simp only [den_ite, den_ret, den_skip, asCoords, bindRes_ok, bindRes_ret, selfPJ]
  by_cases hz : c.2.2 = 1
  · simp only [hz, beq_self_eq_true, if_true]
    exact Safe.ret ⟨c, hc, by simp [seqX, pjX_z1 _ _ hz, Except.map]⟩
  · simp only [beq_iff_eq, hz, if_false]
    exact Safe.ret ⟨c, hc, rfl⟩

theorem op_safe_eqinf_g (E : Env) (s : Loc) (hinf : s.otherInf = true) (ph : Phases Cell) :
    SafeE E (fun r => ∃ c, GoodOp E s .self c ∧ r = .ok (.bool (isInfC c))) ph (toProg (mEq E.info) s) := by
  unfold toProg
  apply safe_eqinf_call hinf
  intro c ph' t hc _ ht
  exact Safe.ret ⟨c, hc, by rw [ht]⟩

/-! ### `_raw_encode`, `_compressed_encode` -/

def accXat (E : Env) (t : Nat) (r : Res Out) : Prop := r = seqX (E.info t) (E.c0 t) ∨ r = seqX (E.info t) (E.cS t)
def accYat (E : Env) (t : Nat) (r : Res Out) : Prop := r = seqY (E.info t) (E.c0 t) ∨ r = seqY (E.info t) (E.cS t)

/-- x() of the object the key refers to at one moment, y() of the object it refers to at another moment, each on an
allowed snapshot -/
def accKeyXY (E : Env) (kid : Nat) (post : Out → Out → Res Out → Prop) (r : Res Out) : Prop :=
  ∃ t1, E.targets kid t1 ∧ accBind (accXat E t1) (fun ox r => ∃ t2, E.targets kid t2 ∧
    accBind (accYat E t2) (fun oy r => post ox oy r) r) r

theorem op_safe_key_raw_encode (E : Env) (kid : Nat) (ph : Phases Cell) :
    SafeE E (accKeyXY E kid fun ox oy r => r = pairOf ox oy id) ph (toProg (mKeyRawEncode E.info) { self := 0, key := kid }) := by
  unfold toProg mKeyRawEncode
  apply safe_seq_loadPtr
  intro t1 ht1
  refine safe_den_call (accB := accXat E t1) ?_ ?_
  · exact op_safe_x E t1 ph
  intro rx ph1 hrx _
  cases rx with
  | error e => exact Safe.ret ⟨t1, ht1, Or.inl ⟨e, hrx, rfl⟩⟩
  | ok ox =>
    simp only
    apply safe_seq_loadPtr
    intro t2 ht2
    refine safe_den_call (accB := accYat E t2) ?_ ?_
    · exact op_safe_y E t2 ph1
    intro ry ph2 hry _
    cases ry with
    | error e => exact Safe.ret ⟨t1, ht1, Or.inr ⟨ox, hrx, t2, ht2, Or.inl ⟨e, hry, rfl⟩⟩⟩
    | ok oy =>
      simp only [den_ret, bindRes_ret]
      exact Safe.ret ⟨t1, ht1, Or.inr ⟨ox, hrx, t2, ht2, Or.inr ⟨oy, hry, rfl⟩⟩⟩

def parityOf : Out → Int
  | .int y => if pmod y 2 == 1 then 1 else 0
  | _ => 0

theorem op_safe_key_compressed_encode (E : Env) (kid : Nat) (ph : Phases Cell) :
    SafeE E (accKeyXY E kid fun ox oy r => r = pairOf ox oy fun _ => parityOf oy) ph
      (toProg (mKeyCompressedEncode E.info) { self := 0, key := kid }) := by
  unfold toProg mKeyCompressedEncode
  apply safe_seq_loadPtr
  intro t1 ht1
  refine safe_den_call (accB := accXat E t1) ?_ ?_
  · exact op_safe_x E t1 ph
  intro rx ph1 hrx _
  cases rx with
  | error e => exact Safe.ret ⟨t1, ht1, Or.inl ⟨e, hrx, rfl⟩⟩
  | ok ox =>
    simp only
    apply safe_seq_loadPtr
    intro t2 ht2
    refine safe_den_call (accB := accYat E t2) ?_ ?_
    · exact op_safe_y E t2 ph1
    intro ry ph2 hry _
    cases ry with
    | error e => exact Safe.ret ⟨t1, ht1, Or.inr ⟨ox, hrx, t2, ht2, Or.inl ⟨e, hry, rfl⟩⟩⟩
    | ok oy =>
      simp only [den_seq, den_ite, den_ret, bindRes_ret]
      have key : ∀ b : Bool, SafeE E (accKeyXY E kid fun ox oy r => r = pairOf ox oy fun _ => parityOf oy) ph2
          (if b = true then Prog.ret (pairOf ox oy fun _ => 1) else Prog.ret (pairOf ox oy fun _ => 0)) →
          True := fun _ _ => trivial
      cases oy with
      | int y =>
        simp only
        by_cases hp : (pmod y 2 == 1) = true
        · simp only [hp, if_true]
          exact Safe.ret ⟨t1, ht1, Or.inr ⟨ox, hrx, t2, ht2, Or.inr ⟨_, hry, by cases ox <;> simp [pairOf, parityOf, hp]⟩⟩⟩
        · have hp' : (pmod y 2 == 1) = false := by simpa using hp
          simp only [hp', Bool.false_eq_true, if_false]
          exact Safe.ret ⟨t1, ht1, Or.inr ⟨ox, hrx, t2, ht2, Or.inr ⟨_, hry, by cases ox <;> simp [pairOf, parityOf, hp']⟩⟩⟩
      | _ =>
        simp only [Bool.false_eq_true, if_false]
        exact Safe.ret ⟨t1, ht1, Or.inr ⟨ox, hrx, t2, ht2, Or.inr ⟨_, hry, by cases ox <;> rfl⟩⟩⟩

/-! ### `VerifyingKey.precompute` -/

theorem den_seq_store_ptr (val : Loc → Val) (rest : M) (s : Loc) (kx : PyErr → P) (kr k : Loc → P) :
    den (.store .key .point val ;; rest) s kx kr k = .write (s.key, .point) (val s) (den rest s kx kr k) := rfl

def accFromAffineAt (E : Env) (t : Nat) (r : Res Out) : Prop :=
  ∃ ca cb, GoodC E t ca ∧ GoodC E t cb ∧ r = fromAffineOut (E.info t) 1 (seqX (E.info t) ca) (seqY (E.info t) cb)

/-- `precompute(lazy)`: reads the reference once, builds the new point from `x()`, `y()` of that object, publishes it by
ONE store, and (unless lazy) reads the reference again and multiplies whatever object it finds by 2.  It returns `None`
unless one of these sequential sub-operations raises. -/
def accKeyPrecompute (E : Env) (kid : Nat) (lazy : Bool) (r : Res Out) : Prop :=
  ∃ t1, E.targets kid t1 ∧ accBind (accFromAffineAt E t1) (fun _ r =>
    if lazy then r = .ok .none
    else ∃ t2, E.targets kid t2 ∧ accBind (accMul E t2 2) (fun _ r => r = .ok .none) r) r

theorem op_safe_key_precompute (E : Env) (kid newObj : Nat) (lazyFlag : Int) (hnew : E.targets kid newObj)
    (htg : ∀ t, E.targets kid t → ObjOK E t) (ph : Phases Cell) :
    SafeE E (accKeyPrecompute E kid (lazyFlag != 0)) ph
      (toProg (mKeyPrecompute E.info) { self := 0, key := kid, newObj := newObj, ka := lazyFlag }) := by
  unfold toProg mKeyPrecompute
  apply safe_seq_loadPtr
  intro t1 ht1
  refine safe_den_call (accB := accFromAffineAt E t1) ?_ ?_
  · exact op_safe_from_affine E t1 1 ph
  intro r1 ph1 hr1 _
  cases r1 with
  | error e => exact Safe.ret ⟨t1, ht1, Or.inl ⟨e, hr1, rfl⟩⟩
  | ok o1 =>
    simp only
    rw [den_seq_store_ptr]
    apply Safe.writeFree (by trivial) ⟨newObj, hnew, rfl⟩
    rw [den_seq_ite]
    by_cases hl : (lazyFlag == 0) = true
    · have hl' : (lazyFlag != 0) = false := by simpa using hl
      simp only [hl, if_true]
      rw [den_seq]
      apply safe_loadPtr_last
      intro t2 ht2
      rw [den_call]
      have := den_eq_bind (mMul E.info) { self := t2, ka := 2 }
        (fun r => match r with
          | .error e => (Prog.ret (.error e) : P)
          | .ok _ => Prog.ret (.ok .none))
      simp only at this
      simp only [Loc.obj, den_ret, bindRes_ok, den_skip]
      rw [this]
      apply Safe.bind (op_safe_mul E t2 2 (htg t2 ht2) ph1)
      intro r2 ph2 hr2 _
      cases r2 with
      | error e => exact Safe.ret ⟨t1, ht1, Or.inr ⟨o1, hr1, by simp only [hl']; exact ⟨t2, ht2, Or.inl ⟨e, hr2, rfl⟩⟩⟩⟩
      | ok o2 => exact Safe.ret ⟨t1, ht1, Or.inr ⟨o1, hr1, by simp only [hl']; exact ⟨t2, ht2, Or.inr ⟨o2, hr2, rfl⟩⟩⟩⟩
    · have hl0 : (lazyFlag == 0) = false := by simpa using hl
      have hl' : (lazyFlag != 0) = true := by simpa using hl
      simp only [hl0, Bool.false_eq_true, if_false, den_skip, den_ret, bindRes_ok]
      exact Safe.ret ⟨t1, ht1, Or.inr ⟨o1, hr1, by simp [hl']⟩⟩

/-! ### `Private_key.sign` -/

/-- rule for a call that is the last statement of a branch (its continuation is `k`) -/
theorem safe_den_call_k {E : Env} {o : Obj} {nm : String} {body : M} {enter : Loc → Loc} {leave : Loc → Out → Loc}
    {s : Loc} {accB acc : Res Out → Prop} {ph : Phases Cell} {kx : PyErr → P} {kr k : Loc → P}
    (hb : SafeE E accB ph (toProg body { enter s with self := s.obj o }))
    (hF : ∀ r (ph' : Phases Cell), accB r → (∀ k', ph k' = .canon → ph' k' = .canon) →
      SafeE E acc ph' (match r with
        | .error e => kx e
        | .ok out => k (leave s out))) :
    SafeE E acc ph (den (.call o nm body enter leave) s kx kr k) := by
  rw [den_call]
  have := den_eq_bind body { enter s with self := s.obj o }
    (fun r => match r with
      | .error e => kx e
      | .ok out => k (leave s out))
  simp only at this
  rw [this]
  exact Safe.bind hb _ hF

theorem safe_den_callR_k {E : Env} {o : Obj} {nm : String} {body : M} {enter : Loc → Loc} {leave : Loc → Out → Loc}
    {s : Loc} {accB acc : Res Out → Prop} {ph : Phases Cell} {kx : PyErr → P} {kr k : Loc → P}
    (hb : SafeE E accB ph (toProg body (enter s)))
    (hF : ∀ r (ph' : Phases Cell), accB r → (∀ k', ph k' = .canon → ph' k' = .canon) →
      SafeE E acc ph' (match r with
        | .error e => kx e
        | .ok out => k (leave s out))) :
    SafeE E acc ph (den (.callR o nm body enter leave) s kx kr k) := by
  rw [den_callR]
  have := den_eq_bind body (enter s)
    (fun r => match r with
      | .error e => kx e
      | .ok out => k (leave s out))
  simp only at this
  rw [this]
  exact Safe.bind hb _ hF

/-- x() of a call result `o` of the generator `G` (the generator itself if the result aliases it, else a local value) -/
def accXofRes (E : Env) (G : Nat) (o : Out) (rx : Res Out) : Prop :=
  ∃ c, GoodOp E { self := objOf o G, selfFresh := freshOf o } .self c ∧ rx = seqX (E.info (objOf o G)) c

/-- the integer part of `Private_key.sign` after `p1 = k' * G`: r = x(p1) mod n, s = k⁻¹ (hash + d r) mod n -/
def signPost (n k hash d : Int) (ox : Out) : Res Out :=
  match ox with
  | .int x =>
    let rr := pmod x n
    if rr == 0 then .error .rsZero
    else match Curve.inverseMod k n with
      | .error e => .error e
      | .ok ki =>
        let ss := pmod (ki * (hash + pmod (d * rr) n)) n
        if ss == 0 then .error .rsZero else .ok (.pair rr ss)
  | _ => .error .typeError

/-- the multiplier `sign` uses (`ks` or `kt`, of fixed bit length) -/
def signMult (n rk : Int) : Int :=
  let k := pmod rk n
  if bitLength (k + n).toNat == bitLength n.toNat then k + n + n else k + n

def accKeySign (E : Env) (G : Nat) (hash rk d : Int) (r : Res Out) : Prop :=
  let n := orderOf (E.info G)
  accBind (accMul E G (signMult n rk)) (fun o r => accBind (accXofRes E G o) (fun ox r =>
    r = signPost n (pmod rk n) hash d ox) r) r

theorem sign_tail (E : Env) (G : Nat) (hash rk d : Int) (o : Out) (s0 : Loc) (hs : s0.self = G)
    (hka : s0.ka = pmod rk (orderOf (E.info G))) (hkc : s0.kc = hash) (hkd : s0.kd = d) (hr1 : s0.r1 = o)
    {acc : Res Out → Prop}
    (hacc : ∀ r, accBind (accXofRes E G o) (fun ox r => r = signPost (orderOf (E.info G)) (pmod rk (orderOf (E.info G))) hash d ox) r → acc r)
    (ph : Phases Cell) (rest : M) (hrest : rest =
      (.pure (fun s => match s.r2 with
        | .int x => .ok { s with kb := pmod x (orderOf (E.info s.self)) }
        | _ => .error .typeError) ;;
      .ite (fun s => s.kb == 0) (.ret fun _ => .error .rsZero) .skip ;;
      .pure (fun s => do
        let n := orderOf (E.info s.self)
        let ki ← Curve.inverseMod s.ka n
        .ok { s with ke := pmod (ki * (s.kc + pmod (s.kd * s.kb) n)) n }) ;;
      .ite (fun s => s.ke == 0) (.ret fun _ => .error .rsZero) .skip ;;
      .ret fun s => .ok (.pair s.kb s.ke))) :
    SafeE E acc ph (den (.callR .self "x" (mX E.info) (fun s => { self := objOf s.r1 s.self, selfFresh := freshOf s.r1 })
      (fun s o => { s with r2 := o }) ;; rest) s0 (fun e => Prog.ret (.error e)) (fun t => Prog.ret (.ok t.out))
      (fun t => Prog.ret (.ok t.out))) := by
  subst hrest
  refine safe_den_callR (accB := accXofRes E G o) ?_ ?_
  · have := op_safe_x_g E { self := objOf o G, selfFresh := freshOf o } ph
    simp only [hs, hr1]
    exact this
  intro rx ph1 hrx _
  cases rx with
  | error e => exact Safe.ret (hacc _ (Or.inl ⟨e, hrx, rfl⟩))
  | ok ox =>
    simp only [den_seq, den_pure, den_ite, den_ret, den_skip]
    have hfin : ∀ r, r = signPost (orderOf (E.info G)) (pmod rk (orderOf (E.info G))) hash d ox → acc r :=
      fun r hr => hacc _ (Or.inr ⟨ox, hrx, hr⟩)
    cases ox with
    | int x =>
      simp only [bindRes_ok, hs]
      by_cases h0 : (pmod x (orderOf (E.info G)) == 0) = true
      · simp only [h0, if_true, bindRes_error]
        exact Safe.ret (hfin _ (by simp [signPost, h0]))
      · have h0' : (pmod x (orderOf (E.info G)) == 0) = false := by simpa using h0
        simp only [h0', Bool.false_eq_true, if_false, hka, hkc, hkd]
        cases hki : Curve.inverseMod (pmod rk (orderOf (E.info G))) (orderOf (E.info G)) with
        | error e =>
          simp only [bind, Except.bind, bindRes_error]
          exact Safe.ret (hfin _ (by simp [signPost, h0', hki]))
        | ok ki =>
          simp only [bind, Except.bind, bindRes_ok]
          by_cases h1 : (pmod (ki * (hash + pmod (d * pmod x (orderOf (E.info G))) (orderOf (E.info G)))) (orderOf (E.info G)) == 0) = true
          · simp only [h1, if_true, bindRes_error]
            exact Safe.ret (hfin _ (by simp [signPost, h0', hki, h1]))
          · have h1' : (pmod (ki * (hash + pmod (d * pmod x (orderOf (E.info G))) (orderOf (E.info G)))) (orderOf (E.info G)) == 0) = false := by
              simpa using h1
            simp only [h1', Bool.false_eq_true, if_false, bindRes_ok]
            exact Safe.ret (hfin _ (by simp [signPost, h0', hki, h1']))
    | none => simp only [bindRes_error]; exact Safe.ret (hfin _ rfl)
    | bool b => simp only [bindRes_error]; exact Safe.ret (hfin _ rfl)
    | pt p => simp only [bindRes_error]; exact Safe.ret (hfin _ rfl)
    | obj id => simp only [bindRes_error]; exact Safe.ret (hfin _ rfl)
    | state c t => simp only [bindRes_error]; exact Safe.ret (hfin _ rfl)
    | pair a b => simp only [bindRes_error]; exact Safe.ret (hfin _ rfl)

/-- `Private_key.sign(hash, random_k)` with secret multiplier `d` on the shared generator `G`: one multiplication
`k' * G` (its sequential value on allowed snapshots of `G`), `x()` of the result, then the integer arithmetic -/
theorem op_safe_key_sign (E : Env) (G : Nat) (hash rk d : Int) (hG : ObjOK E G) (ph : Phases Cell) :
    SafeE E (accKeySign E G hash rk d) ph
      (toProg (mKeySign E.info) { self := G, ka := rk, kc := hash, kd := d }) := by
  unfold toProg mKeySign
  rw [den_seq, den_pure, bindRes_ok, den_seq_ite]
  have tail : ∀ (km : Int), km = signMult (orderOf (E.info G)) rk → ∀ (o : Out) (ph1 : Phases Cell) (s0 : Loc),
      s0.self = G → s0.ka = pmod rk (orderOf (E.info G)) → s0.kc = hash → s0.kd = d → s0.r1 = o →
      accMul E G km (.ok o) → True := fun _ _ _ _ _ _ _ _ _ _ _ => trivial
  clear tail
  by_cases hb : (bitLength (pmod rk (orderOf (E.info G)) + orderOf (E.info G)).toNat == bitLength (orderOf (E.info G)).toNat) = true
  · have hm : signMult (orderOf (E.info G)) rk = pmod rk (orderOf (E.info G)) + orderOf (E.info G) + orderOf (E.info G) := by
      simp only [signMult, hb, if_true]
    simp only [hb, if_true]
    refine safe_den_call_k (accB := accMul E G (signMult (orderOf (E.info G)) rk)) ?_ ?_
    · rw [hm]; exact op_safe_rmul E G _ hG ph
    intro rm ph1 hrm _
    cases rm with
    | error e => exact Safe.ret (Or.inl ⟨e, hrm, rfl⟩)
    | ok o =>
      simp only
      exact sign_tail E G hash rk d o _ rfl rfl rfl rfl rfl (fun r hr => Or.inr ⟨o, hrm, hr⟩) ph1 _ rfl
  · have hb' : (bitLength (pmod rk (orderOf (E.info G)) + orderOf (E.info G)).toNat == bitLength (orderOf (E.info G)).toNat) = false := by
      simpa using hb
    have hm : signMult (orderOf (E.info G)) rk = pmod rk (orderOf (E.info G)) + orderOf (E.info G) := by
      simp only [signMult, hb', Bool.false_eq_true, if_false]
    simp only [hb', Bool.false_eq_true, if_false]
    refine safe_den_call_k (accB := accMul E G (signMult (orderOf (E.info G)) rk)) ?_ ?_
    · rw [hm]; exact op_safe_rmul E G _ hG ph
    intro rm ph1 hrm _
    cases rm with
    | error e => exact Safe.ret (Or.inl ⟨e, hrm, rfl⟩)
    | ok o =>
      simp only
      exact sign_tail E G hash rk d o _ rfl rfl rfl rfl rfl (fun r hr => Or.inr ⟨o, hrm, hr⟩) ph1 _ rfl

/-! ### `Public_key.verifies` -/

def accInfOfRes (E : Env) (G : Nat) (o : Out) (rb : Res Out) : Prop :=
  ∃ c, GoodOp E { self := objOf o G, otherInf := true, selfFresh := freshOf o } .self c ∧ rb = .ok (.bool (isInfC c))

def verifyPost (n r : Int) (ox : Out) : Res Out :=
  match ox with
  | .int x => .ok (.bool (pmod x n == r))
  | _ => .error .typeError

/-- `verifies(hash, (r, s))` on the key `kid` with generator `G`: range checks; ONE read of the key's point reference;
`G.mul_add(u1, point, u2)` (sequential value on allowed snapshots, `accMulAdd`); `xy == INFINITY`; `xy.x() % n == r` -/
def accKeyVerifies (E : Env) (kid G : Nat) (hash r s : Int) (res : Res Out) : Prop :=
  let n := orderOf (E.info G)
  if r < 1 || r > n - 1 then res = .ok (.bool false)
  else if s < 1 || s > n - 1 then res = .ok (.bool false)
  else match Curve.inverseMod s n with
    | .error e => res = .error e
    | .ok c =>
      ∃ t, E.targets kid t ∧ accBind (accMulAdd E G t (pmod (hash * c) n) (pmod (r * c) n)) (fun o res =>
        accBind (accInfOfRes E G o) (fun ob res =>
          if isTrue ob then res = .ok (.bool false)
          else accBind (accXofRes E G o) (fun ox res => res = verifyPost n r ox) res) res) res

theorem op_safe_key_verifies (E : Env) (kid G : Nat) (hash r s : Int) (hG : ObjOK E G)
    (htg : ∀ t, E.targets kid t → ObjOK E t) (ph : Phases Cell) :
    SafeE E (accKeyVerifies E kid G hash r s) ph
      (toProg (mKeyVerifies E.info) { self := G, key := kid, kc := hash, kd := r, ke := s }) := by
  unfold toProg mKeyVerifies
  rw [den_seq_ite]
  by_cases h1 : (decide (r < 1) || decide (r > orderOf (E.info G) - 1)) = true
  · simp only [h1, if_true, den_ret, bindRes_ok]
    exact Safe.ret (by simp only [accKeyVerifies, h1, if_true])
  have h1' : (decide (r < 1) || decide (r > orderOf (E.info G) - 1)) = false := by simpa using h1
  simp only [h1', Bool.false_eq_true, if_false, den_skip]
  rw [den_seq_ite]
  by_cases h2 : (decide (s < 1) || decide (s > orderOf (E.info G) - 1)) = true
  · simp only [h2, if_true, den_ret, bindRes_ok]
    exact Safe.ret (by simp only [accKeyVerifies, h1', h2, Bool.false_eq_true, if_false, if_true])
  have h2' : (decide (s < 1) || decide (s > orderOf (E.info G) - 1)) = false := by simpa using h2
  simp only [h2', Bool.false_eq_true, if_false, den_skip]
  rw [den_seq, den_pure]
  cases hc : Curve.inverseMod s (orderOf (E.info G)) with
  | error e =>
    simp only [hc, bind, Except.bind, bindRes_error]
    exact Safe.ret (by simp only [accKeyVerifies, h1', h2', Bool.false_eq_true, if_false, hc])
  | ok c =>
    simp only [hc, bind, Except.bind, bindRes_ok]
    have hacc : ∀ res, (∃ t, E.targets kid t ∧ accBind (accMulAdd E G t (pmod (hash * c) (orderOf (E.info G)))
          (pmod (r * c) (orderOf (E.info G)))) (fun o res =>
        accBind (accInfOfRes E G o) (fun ob res =>
          if isTrue ob then res = .ok (.bool false)
          else accBind (accXofRes E G o) (fun ox res => res = verifyPost (orderOf (E.info G)) r ox) res) res) res) →
        accKeyVerifies E kid G hash r s res := by
      intro res h
      simp only [accKeyVerifies, h1', h2', Bool.false_eq_true, if_false, hc]
      exact h
    rw [den_seq_ite]
    simp only [if_true]
    apply safe_seq_loadPtr
    intro t ht
    refine safe_den_call_k (accB := accMulAdd E G t (pmod (hash * c) (orderOf (E.info G))) (pmod (r * c) (orderOf (E.info G)))) ?_ ?_
    · exact op_safe_mul_add E G t _ _ hG (htg t ht) ph
    intro rm ph1 hrm _
    cases rm with
    | error e => exact Safe.ret (hacc _ ⟨t, ht, Or.inl ⟨e, hrm, rfl⟩⟩)
    | ok o =>
      simp only
      refine safe_den_callR (accB := accInfOfRes E G o) ?_ ?_
      · exact op_safe_eqinf_g E { self := objOf o G, otherInf := true, selfFresh := freshOf o } rfl ph1
      intro rb ph2 hrb _
      cases rb with
      | error e => exact Safe.ret (hacc _ ⟨t, ht, Or.inr ⟨o, hrm, Or.inl ⟨e, hrb, rfl⟩⟩⟩)
      | ok ob =>
        simp only
        rw [den_seq_ite]
        by_cases hb : isTrue ob = true
        · simp only [hb, if_true, den_ret, bindRes_ok]
          exact Safe.ret (hacc _ ⟨t, ht, Or.inr ⟨o, hrm, Or.inr ⟨ob, hrb, by simp only [hb, if_true]⟩⟩⟩)
        · have hb' : isTrue ob = false := by simpa using hb
          simp only [hb', Bool.false_eq_true, if_false, den_skip]
          refine safe_den_callR (accB := accXofRes E G o) ?_ ?_
          · exact op_safe_x_g E { self := objOf o G, selfFresh := freshOf o } ph2
          intro rx ph3 hrx _
          cases rx with
          | error e =>
            exact Safe.ret (hacc _ ⟨t, ht, Or.inr ⟨o, hrm, Or.inr ⟨ob, hrb, by
              simp only [hb', Bool.false_eq_true, if_false]; exact Or.inl ⟨e, hrx, rfl⟩⟩⟩⟩)
          | ok ox =>
            simp only [den_ret]
            have hfin : ∀ res, res = verifyPost (orderOf (E.info G)) r ox → accKeyVerifies E kid G hash r s res :=
              fun res hr => hacc _ ⟨t, ht, Or.inr ⟨o, hrm, Or.inr ⟨ob, hrb, by
                simp only [hb', Bool.false_eq_true, if_false]; exact Or.inr ⟨ox, hrx, hr⟩⟩⟩⟩
            cases ox with
            | int x => simp only [bindRes_ok]; exact Safe.ret (hfin _ rfl)
            | none => simp only [bindRes_error]; exact Safe.ret (hfin _ rfl)
            | bool b => simp only [bindRes_error]; exact Safe.ret (hfin _ rfl)
            | pt p => simp only [bindRes_error]; exact Safe.ret (hfin _ rfl)
            | obj id => simp only [bindRes_error]; exact Safe.ret (hfin _ rfl)
            | state c t => simp only [bindRes_error]; exact Safe.ret (hfin _ rfl)
            | pair a b => simp only [bindRes_error]; exact Safe.ret (hfin _ rfl)

end ThreadProgs
