import Proofs.KeysDer
/-!
# Proofs.KeysDerRT — the DER loaders on encoder-shaped input: `from_der` of a well-formed SubjectPublicKeyInfo /
ECPrivateKey / OneAsymmetricKey reduces to `from_string` of the embedded field, hence `from_der ∘ to_der = id`
-/
namespace KeysP
open Keys

theorem len_seq (ps : List Bytes) : ps.flatten.length ≤ (Der.encodeSequence ps).length := by
  simp [Der.encodeSequence]; omega
theorem len_oct (s : Bytes) : s.length ≤ (Der.encodeOctetString s).length := by
  simp [Der.encodeOctetString]; omega
theorem len_ctx (t : Nat) (v : Bytes) : v.length ≤ (Der.encodeConstructed t v).length := by
  simp [Der.encodeConstructed]; omega
theorem len_bits (s : Bytes) (u : Nat) : s.length + 1 ≤ (Der.encodeBits s u).length := by
  simp [Der.encodeBits]; omega

theorem isSequence_seq (ps : List Bytes) (rest : Bytes) : isSequence (Der.encodeSequence ps ++ rest) = true := by
  simp [isSequence, Der.encodeSequence]
theorem isSequence_oct (s rest : Bytes) : isSequence (Der.encodeOctetString s ++ rest) = false := by
  simp [isSequence, Der.encodeOctetString]

/-- reading back an OID written by `encode_oid` -/
theorem removeObject_encodeOidList (arcs : List Nat) (e rest : Bytes) (h : encodeOidList arcs = .ok e)
    (hl : e.length < 256 ^ 127) : Der.removeObject (e ++ rest) = .ok (arcs, rest) := by
  match arcs, h with
  | first :: second :: pieces, h =>
    unfold encodeOidList at h
    obtain ⟨hd, he⟩ := Der.encodeOid_ok h
    subst he
    refine Der.removeObject_encode first second pieces rest hd ?_
    simp at hl; omega
  | [_], h => simp [encodeOidList] at h
  | [], h => simp [encodeOidList] at h

theorem intBody_one : Der.intBody 1 = [1] := by decide +kernel

/-- `b"\x00" * (baselen - len(s)) + s` when `s` is shorter than `baselen` (the loader's left padding) -/
def padLeft (c : Curve) (s : Bytes) : Bytes :=
  if s.length < c.baselen then List.replicate (c.baselen - s.length) 0 ++ s else s

/-- **SubjectPublicKeyInfo**: any algorithm-identifier / curve OID bytes that the OID reader maps to `id-ecPublicKey` and
to a known curve, any point string not of the raw length: `from_der` is `from_string` on the bit-string payload -/
theorem vk_fromDer_pieces (E : Ext) (c : Curve) (idpk eoid pt : Bytes)
    (hidpk : encodeOidList Gen.oid_ecPublicKey = .ok idpk) (heoid : encodeOidList c.oid = .ok eoid)
    (hfind : findCurve c.oid = .ok c) (hraw : pt.length ≠ c.vkLen)
    (hsmall : (Der.encodeSequence [Der.encodeSequence [idpk, eoid], Der.encodeBits pt 0]).length < 256 ^ 127) :
    VK.fromDer E (Der.encodeSequence [Der.encodeSequence [idpk, eoid], Der.encodeBits pt 0]) = VK.fromString E c pt true := by
  have h1 := len_seq [Der.encodeSequence [idpk, eoid], Der.encodeBits pt 0]
  have h2 := len_seq [idpk, eoid]
  have h3 := len_bits pt 0
  simp only [List.flatten_cons, List.flatten_nil, List.append_nil, List.length_append] at h1 h2
  have s1 := Der.removeSequence_encode [Der.encodeSequence [idpk, eoid], Der.encodeBits pt 0] [] (by simp; omega)
  have s2 := Der.removeSequence_encode [idpk, eoid] (Der.encodeBits pt 0) (by simp; omega)
  have s3 := removeObject_encodeOidList _ idpk eoid hidpk (by omega)
  have s4 := removeObject_encodeOidList _ eoid [] heoid (by omega)
  have s5 := Der.removeBitstring_some_encode pt [] 0 (by omega) (by simp [Der.bitsPadOK]) (by omega)
  simp only [List.append_nil, List.flatten_cons, List.flatten_nil, Nat.cast_zero] at s1 s2 s4 s5
  unfold VK.fromDer
  simp only [bind, Except.bind, s1, s2, s3, s4, s5, hfind, ne_eq, not_true_eq_false, if_false, if_neg hraw]

/-- the tail of the private-key parser on `OCTET STRING d, [0] curve OID, rest` -/
theorem ecPrivateKeyTail_ssleay (E : Ext) (c : Curve) (skStr eoid rest : Bytes)
    (heoid : encodeOidList c.oid = .ok eoid) (hfind : findCurve c.oid = .ok c)
    (hsmall : (Der.encodeOctetString skStr ++ (Der.encodeConstructed 0 eoid ++ rest)).length < 256 ^ 127) :
    SK.ecPrivateKeyTail E 1 (Der.encodeOctetString skStr ++ (Der.encodeConstructed 0 eoid ++ rest)) none
      = SK.fromString E c (padLeft c skStr) := by
  have h1 := len_oct skStr
  have h2 := len_ctx 0 eoid
  simp only [List.length_append] at hsmall
  have s1 := Der.removeOctetString_encode skStr (Der.encodeConstructed 0 eoid ++ rest) (by omega)
  have s2 := Der.removeConstructed_encode 0 eoid rest (by omega) (by omega)
  have s3 := removeObject_encodeOidList _ eoid [] heoid (by omega)
  simp only [List.append_nil] at s3
  unfold SK.ecPrivateKeyTail padLeft
  simp only [bind, Except.bind, s1, s2, s3, hfind, ne_eq, not_true_eq_false, if_false]

/-- the tail when the PKCS#8 wrapper already named the curve -/
theorem ecPrivateKeyTail_pkcs8 (E : Ext) (c : Curve) (skStr rest : Bytes)
    (hsmall : (Der.encodeOctetString skStr ++ rest).length < 256 ^ 127) :
    SK.ecPrivateKeyTail E 1 (Der.encodeOctetString skStr ++ rest) (some c) = SK.fromString E c (padLeft c skStr) := by
  have h1 := len_oct skStr
  simp only [List.length_append] at hsmall
  have s1 := Der.removeOctetString_encode skStr rest (by omega)
  unfold SK.ecPrivateKeyTail padLeft
  simp only [bind, Except.bind, s1, ne_eq, not_true_eq_false, if_false]

/-- **ECPrivateKey** (RFC 5915 shape with `[0]` present; anything may follow the `[0]` field) -/
theorem sk_fromDer_ssleay_pieces (E : Ext) (c : Curve) (skStr eoid rest : Bytes)
    (heoid : encodeOidList c.oid = .ok eoid) (hfind : findCurve c.oid = .ok c)
    (hsmall : (Der.encodeSequence [Der.encodeInteger 1, Der.encodeOctetString skStr, Der.encodeConstructed 0 eoid, rest]).length
      < 256 ^ 127) :
    SK.fromDer E (Der.encodeSequence [Der.encodeInteger 1, Der.encodeOctetString skStr, Der.encodeConstructed 0 eoid, rest])
      = SK.fromString E c (padLeft c skStr) := by
  have h1 := len_seq [Der.encodeInteger 1, Der.encodeOctetString skStr, Der.encodeConstructed 0 eoid, rest]
  simp only [List.flatten_cons, List.flatten_nil, List.append_nil, List.length_append] at h1
  have s1 := Der.removeSequence_encode [Der.encodeInteger 1, Der.encodeOctetString skStr, Der.encodeConstructed 0 eoid, rest] []
    (by simp; omega)
  have s2 := Der.removeInteger_encode 1 (Der.encodeOctetString skStr ++ (Der.encodeConstructed 0 eoid ++ rest))
    (by rw [intBody_one]; decide)
  have s3 := isSequence_oct skStr (Der.encodeConstructed 0 eoid ++ rest)
  have s4 := ecPrivateKeyTail_ssleay E c skStr eoid rest heoid hfind (by simp only [List.length_append]; omega)
  simp only [List.append_nil, List.flatten_cons, List.flatten_nil] at s1
  unfold SK.fromDer
  simp only [bind, Except.bind, s1, s2, s3, s4, ne_eq, not_true_eq_false, if_false, Bool.false_eq_true]

/-- **OneAsymmetricKey** (RFC 5958 shape, version 0 or 1, algorithm `id-ecPublicKey`; `tail` = optional attributes /
public key, ignored by the loader) wrapping an ECPrivateKey whose body starts `INTEGER 1, OCTET STRING d` -/
theorem sk_fromDer_pkcs8_pieces (E : Ext) (c : Curve) (v : Nat) (hv : v = 0 ∨ v = 1) (idpk eoid skStr : Bytes) (inner : List Bytes) (tail : Bytes)
    (hidpk : encodeOidList Gen.oid_ecPublicKey = .ok idpk) (heoid : encodeOidList c.oid = .ok eoid)
    (hfind : findCurve c.oid = .ok c)
    (hsmall : (Der.encodeSequence [Der.encodeInteger v, Der.encodeSequence [idpk, eoid],
        Der.encodeOctetString (Der.encodeSequence (Der.encodeInteger 1 :: Der.encodeOctetString skStr :: inner)), tail]).length
      < 256 ^ 127) :
    SK.fromDer E (Der.encodeSequence [Der.encodeInteger v, Der.encodeSequence [idpk, eoid],
        Der.encodeOctetString (Der.encodeSequence (Der.encodeInteger 1 :: Der.encodeOctetString skStr :: inner)), tail])
      = SK.fromString E c (padLeft c skStr) := by
  have h1 := len_seq [Der.encodeInteger v, Der.encodeSequence [idpk, eoid],
        Der.encodeOctetString (Der.encodeSequence (Der.encodeInteger 1 :: Der.encodeOctetString skStr :: inner)), tail]
  have h2 := len_seq [idpk, eoid]
  have h3 := len_oct (Der.encodeSequence (Der.encodeInteger 1 :: Der.encodeOctetString skStr :: inner))
  have h4 := len_seq (Der.encodeInteger 1 :: Der.encodeOctetString skStr :: inner)
  simp only [List.flatten_cons, List.flatten_nil, List.append_nil, List.length_append] at h1 h2 h4
  have hvb : (Der.intBody v).length < 256 ^ 127 := by
    rcases hv with h | h <;> subst h <;> decide +kernel
  have s1 := Der.removeSequence_encode [Der.encodeInteger v, Der.encodeSequence [idpk, eoid],
        Der.encodeOctetString (Der.encodeSequence (Der.encodeInteger 1 :: Der.encodeOctetString skStr :: inner)), tail] []
    (by simp; omega)
  have s2 := Der.removeInteger_encode v (Der.encodeSequence [idpk, eoid] ++
      (Der.encodeOctetString (Der.encodeSequence (Der.encodeInteger 1 :: Der.encodeOctetString skStr :: inner)) ++ tail)) hvb
  have s3 := isSequence_seq [idpk, eoid]
      (Der.encodeOctetString (Der.encodeSequence (Der.encodeInteger 1 :: Der.encodeOctetString skStr :: inner)) ++ tail)
  have s4 := Der.removeSequence_encode [idpk, eoid]
      (Der.encodeOctetString (Der.encodeSequence (Der.encodeInteger 1 :: Der.encodeOctetString skStr :: inner)) ++ tail)
      (by simp; omega)
  have s5 := removeObject_encodeOidList _ idpk eoid hidpk (by omega)
  have s6 := removeObject_encodeOidList _ eoid [] heoid (by omega)
  have s7 := Der.removeOctetString_encode (Der.encodeSequence (Der.encodeInteger 1 :: Der.encodeOctetString skStr :: inner)) tail
    (by omega)
  have s8 := Der.removeSequence_encode (Der.encodeInteger 1 :: Der.encodeOctetString skStr :: inner) []
    (by simp only [List.flatten_cons, List.length_append]; omega)
  have s9 := Der.removeInteger_encode 1 (Der.encodeOctetString skStr ++ inner.flatten) (by rw [intBody_one]; decide)
  have s10 := ecPrivateKeyTail_pkcs8 E c skStr inner.flatten (by simp only [List.length_append]; omega)
  have hv' : ¬ (v ≠ 0 ∧ v ≠ 1) := by omega
  simp only [List.append_nil, List.flatten_cons, List.flatten_nil] at s1 s4 s6 s8
  unfold SK.fromDer
  simp only [bind, Except.bind, s1, s2, s3, s4, s5, s6, s7, s8, s9, s10, hfind, hv', ne_eq, not_true_eq_false, if_false,
    if_true, not_false_eq_true, and_self, and_false, false_and]

end KeysP
