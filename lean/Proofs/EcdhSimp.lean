import Lean
/-- simp set that executes a generated ECDH program symbolically (Proofs/EcdhTie*.lean) -/
register_simp_attr ecdh_run
