import Proofs.KeysDerTotal
import Proofs.KeysDerId
/-!
# Proofs.KeysPem — PEM armour: `unpem (topem der name) = der`, PEM round trips, and the PEM loaders' errors
-/
namespace KeysP
open Keys

/-- a byte that is neither a newline, nor a dash, nor ASCII whitespace -/
def cleanB (b : UInt8) : Bool := b != 10 && b != 45 && !isWs b

theorem b64Char_clean (i : Nat) : cleanB (b64Char i) = true := by
  have hfin : ∀ j : Fin 64, cleanB (b64Char j.val) = true := by decide
  by_cases h : i ≤ 63
  · exact hfin ⟨i, by omega⟩
  · have : b64Char i = b64Char 63 := by
      unfold b64Char
      rw [if_neg (by omega), if_neg (by omega), if_neg (by omega), if_neg (by omega)]
      rfl
    rw [this]; exact hfin ⟨63, by omega⟩

theorem b64encode_clean (s : Bytes) : ∀ b ∈ b64encode s, cleanB b = true := by
  induction s using b64encode.induct with
  | case1 => simp [b64encode]
  | case2 a =>
    intro b hb
    simp only [b64encode, List.mem_cons, List.not_mem_nil, or_false] at hb
    rcases hb with h | h | h | h <;> subst h <;> first | exact b64Char_clean _ | decide
  | case3 a b' =>
    intro b hb
    simp only [b64encode, List.mem_cons, List.not_mem_nil, or_false] at hb
    rcases hb with h | h | h | h <;> subst h <;> first | exact b64Char_clean _ | decide
  | case4 a b' c rest ih =>
    intro b hb
    simp only [b64encode, List.mem_cons] at hb
    rcases hb with h | h | h | h | h
    · subst h; exact b64Char_clean _
    · subst h; exact b64Char_clean _
    · subst h; exact b64Char_clean _
    · subst h; exact b64Char_clean _
    · exact ih b h

theorem clean_ne10 {b : UInt8} (h : cleanB b = true) : b ≠ 10 := by
  intro hb; subst hb; revert h; decide
theorem clean_ne45 {b : UInt8} (h : cleanB b = true) : b ≠ 45 := by
  intro hb; subst hb; revert h; decide
theorem clean_notWs {b : UInt8} (h : cleanB b = true) : isWs b = false := by
  unfold cleanB at h
  simp only [Bool.and_eq_true, Bool.not_eq_true'] at h
  exact h.2

/-! ## splitting into lines -/

theorem splitNl_ne_nil (s : Bytes) : splitNl s ≠ [] := by
  induction s with
  | nil => simp [splitNl]
  | cons b t ih =>
    unfold splitNl
    split
    · simp
    · split <;> simp

theorem splitNl_line (l rest : Bytes) (h : ∀ b ∈ l, b ≠ 10) : splitNl (l ++ 10 :: rest) = l :: splitNl rest := by
  induction l with
  | nil => simp [splitNl]
  | cons b t ih =>
    have hb : b ≠ 10 := h b (by simp)
    have := ih (fun x hx => h x (by simp [hx]))
    simp only [List.cons_append]
    rw [splitNl, if_neg hb, this]

/-- the lines `unpem` keeps, stripped and joined -/
def payloadOf (ls : List Bytes) : Bytes :=
  ((ls.filter fun l => l ≠ [] ∧ ¬ dashes.isPrefixOf l).map strip).flatten

theorem pemPayload_eq (pem : Bytes) : pemPayload pem = payloadOf (splitNl pem) := rfl

theorem payloadOf_keep (l : Bytes) (ls : List Bytes) (h1 : l ≠ []) (h2 : dashes.isPrefixOf l = false) :
    payloadOf (l :: ls) = strip l ++ payloadOf ls := by
  have h2' : ¬ dashes <+: l := by
    intro hp; rw [← List.isPrefixOf_iff_prefix] at hp; rw [hp] at h2; cases h2
  simp [payloadOf, List.filter_cons, h1, h2']

theorem payloadOf_dashes (t : Bytes) (ls : List Bytes) : payloadOf ((dashes ++ t) :: ls) = payloadOf ls := by
  have : dashes.isPrefixOf (dashes ++ t) = true := by simp [dashes, List.isPrefixOf]
  simp [payloadOf, List.filter_cons, this]

theorem payloadOf_empty (ls : List Bytes) : payloadOf ([] :: ls) = payloadOf ls := by
  simp [payloadOf, List.filter_cons]

theorem dropWhile_head (p : UInt8 → Bool) (b : UInt8) (t : Bytes) (h : p b = false) : (b :: t).dropWhile p = b :: t := by
  simp [List.dropWhile, h]

theorem strip_clean (l : Bytes) (h : ∀ b ∈ l, cleanB b = true) : strip l = l := by
  unfold strip
  cases l with
  | nil => rfl
  | cons b t =>
    rw [dropWhile_head _ b t (clean_notWs (h b (by simp)))]
    cases hr : (b :: t).reverse with
    | nil => simp at hr
    | cons c u =>
      have hc : c ∈ b :: t := by
        have : c ∈ (b :: t).reverse := by rw [hr]; simp
        exact List.mem_reverse.mp this
      rw [dropWhile_head _ c u (clean_notWs (h c hc)), ← hr, List.reverse_reverse]

/-- the body lines: every 64-character chunk of clean text survives `unpem`'s filter and strip unchanged -/
theorem payloadOf_chunk64 (s tail : Bytes) (h : ∀ b ∈ s, cleanB b = true) :
    payloadOf (splitNl (chunk64 s ++ tail)) = s ++ payloadOf (splitNl tail) := by
  induction s using chunk64.induct with
  | case1 => rw [chunk64]; simp
  | case2 s hne ih =>
    rw [chunk64, if_neg hne]
    have htake : ∀ b ∈ s.take 64, cleanB b = true := fun b hb => h b (List.mem_of_mem_take hb)
    have hdrop : ∀ b ∈ s.drop 64, cleanB b = true := fun b hb => h b (List.mem_of_mem_drop hb)
    have e : s.take 64 ++ [10] ++ chunk64 (s.drop 64) ++ tail = s.take 64 ++ 10 :: (chunk64 (s.drop 64) ++ tail) := by simp
    rw [e, splitNl_line _ _ (fun b hb => clean_ne10 (htake b hb))]
    have hne' : s.take 64 ≠ [] := by
      cases s with
      | nil => exact absurd rfl hne
      | cons a t => simp
    have hd : dashes.isPrefixOf (s.take 64) = false := by
      cases hs : s.take 64 with
      | nil => exact absurd hs hne'
      | cons a t =>
        have : a ≠ 45 := clean_ne45 (htake a (by rw [hs]; simp))
        simp [dashes, List.isPrefixOf, this]
        intro h45; exact absurd h45.symm this
    rw [payloadOf_keep _ _ hne' hd, strip_clean _ htake, ih hdrop, ← List.append_assoc, List.take_append_drop]

theorem pemTail_eq : pemTail = dashes ++ [10] := rfl

/-- **`unpem` undoes `topem`** at the level of the base64 text, for any label without a newline -/
theorem pemPayload_topem (der name : Bytes) (hname : ∀ b ∈ name, b ≠ 10) :
    pemPayload (topem der name) = b64encode der := by
  rw [pemPayload_eq]
  have e : topem der name =
      (dashes ++ ([66, 69, 71, 73, 78, 32] ++ name ++ dashes)) ++ 10 ::
        (chunk64 (b64encode der) ++ ((dashes ++ ([69, 78, 68, 32] ++ name ++ dashes)) ++ 10 :: [])) := by
    simp [topem, pemBegin, pemEnd, pemTail_eq, dashes]
  have h10 : ∀ t : Bytes, (∀ b ∈ t, b ≠ 10) → ∀ b ∈ dashes ++ (t ++ name ++ dashes), b ≠ 10 := by
    intro t ht b hb
    simp only [List.mem_append] at hb
    rcases hb with hb | (hb | hb) | hb
    · simp [dashes] at hb; subst hb; decide
    · exact ht b hb
    · exact hname b hb
    · simp [dashes] at hb; subst hb; decide
  rw [e, splitNl_line _ _ (h10 [66, 69, 71, 73, 78, 32] (by decide)), payloadOf_dashes,
    payloadOf_chunk64 _ _ (b64encode_clean der),
    splitNl_line _ _ (h10 [69, 78, 68, 32] (by decide)), payloadOf_dashes]
  simp [splitNl, payloadOf_empty, payloadOf]

/-- `der.unpem(der.topem(d, name)) = d`, given that the base64 decoder inverts the encoder on `d` -/
theorem unpem_topem' (E : Ext) (der name : Bytes) (hname : ∀ b ∈ name, b ≠ 10)
    (hb64 : E.b64decode (b64encode der) = some der) : unpem E (topem der name) = .ok der := by
  unfold unpem
  rw [pemPayload_topem der name hname, hb64]

theorem unpem_err (E : Ext) (pem : Bytes) (e : PyErr) (h : unpem E pem = .error e) : e = .unexpectedDER := by
  unfold unpem at h
  split at h
  · cases h
  · injection h with h; exact h.symm

/-! ## locating the private-key header -/

theorem isPrefixOf_append_self (sub t : Bytes) : sub.isPrefixOf (sub ++ t) = true := by
  induction sub with
  | nil => simp [List.isPrefixOf]
  | cons a l ih => simp [List.isPrefixOf, ih]

theorem dropToSub_prefix (a : UInt8) (sub t : Bytes) :
    dropToSub (a :: sub) ((a :: sub) ++ t) = some ((a :: sub) ++ t) := by
  have := isPrefixOf_append_self (a :: sub) t
  simp only [List.cons_append] at this ⊢
  rw [dropToSub, if_pos this]

/-- a pattern that starts with a dash does not start inside dash-free text -/
theorem dropToSub_skip (sub body t : Bytes) (h : ∀ b ∈ body, b ≠ 45) :
    dropToSub (45 :: sub) (body ++ t) = dropToSub (45 :: sub) t := by
  induction body with
  | nil => rfl
  | cons b r ih =>
    have hb : b ≠ 45 := h b (by simp)
    simp only [List.cons_append]
    rw [dropToSub]
    have : (45 :: sub).isPrefixOf (b :: (r ++ t)) = false := by
      simp [List.isPrefixOf]; intro h45; exact absurd h45.symm hb
    rw [if_neg (by rw [this]; simp)]
    exact ih (fun x hx => h x (by simp [hx]))

def ecHdr : Bytes := pemBegin ++ pemNameEcPrivate ++ dashes
def p8Hdr : Bytes := pemBegin ++ pemNamePrivate ++ dashes

theorem chunk64_no_dash (s : Bytes) (h : ∀ b ∈ s, cleanB b = true) : ∀ b ∈ chunk64 s, b ≠ 45 := by
  induction s using chunk64.induct with
  | case1 => rw [chunk64]; simp
  | case2 s hne ih =>
    rw [chunk64, if_neg hne]
    intro b hb
    simp only [List.mem_append, List.mem_singleton] at hb
    rcases hb with (hb | hb) | hb
    · exact clean_ne45 (h b (List.mem_of_mem_take hb))
    · subst hb; decide
    · exact ih (fun x hx => h x (List.mem_of_mem_drop hx)) b hb

/-- in a `PRIVATE KEY` PEM the `EC PRIVATE KEY` header does not occur -/
theorem dropToSub_ec_in_p8 (der : Bytes) : dropToSub ecHdr (topem der pemNamePrivate) = none := by
  have e : topem der pemNamePrivate =
      (pemBegin ++ pemNamePrivate ++ pemTail) ++ (chunk64 (b64encode der) ++ (pemEnd ++ pemNamePrivate ++ pemTail)) := by
    simp [topem]
  have hB : ∀ t : Bytes, dropToSub ecHdr ((pemBegin ++ pemNamePrivate ++ pemTail) ++ t) = dropToSub ecHdr t := by
    intro t; rfl
  have hF : dropToSub ecHdr (pemEnd ++ pemNamePrivate ++ pemTail) = none := by decide
  have hec : ecHdr = 45 :: (ecHdr.drop 1) := by decide
  rw [e, hB, hec, dropToSub_skip _ _ _ (chunk64_no_dash _ (b64encode_clean der)), ← hec, hF]

theorem dropToSub_ec_in_ec (der : Bytes) :
    dropToSub ecHdr (topem der pemNameEcPrivate) = some (topem der pemNameEcPrivate) := by
  have e : topem der pemNameEcPrivate = ecHdr ++ ([10] ++ chunk64 (b64encode der) ++ pemEnd ++ pemNameEcPrivate ++ pemTail) := by
    simp [topem, ecHdr, pemTail_eq]
  have hec : ecHdr = 45 :: (ecHdr.drop 1) := by decide
  rw [e, hec]; exact dropToSub_prefix _ _ _

theorem dropToSub_p8_in_p8 (der : Bytes) :
    dropToSub p8Hdr (topem der pemNamePrivate) = some (topem der pemNamePrivate) := by
  have e : topem der pemNamePrivate = p8Hdr ++ ([10] ++ chunk64 (b64encode der) ++ pemEnd ++ pemNamePrivate ++ pemTail) := by
    simp [topem, p8Hdr, pemTail_eq]
  have hec : p8Hdr = 45 :: (p8Hdr.drop 1) := by decide
  rw [e, hec]; exact dropToSub_prefix _ _ _

/-! ## PEM round trips and totality -/

theorem vk_fromPem_toPem (E : Ext) (k : VK) (enc : PointEnc) (bs : Bytes) (hder : k.toDer enc = .ok bs)
    (hrt : VK.fromDer E bs = .ok k) (hb64 : E.b64decode (b64encode bs) = some bs) :
    ∃ pem, k.toPem enc = .ok pem ∧ VK.fromPem E pem = .ok k := by
  refine ⟨topem bs pemNamePublic, by unfold VK.toPem; rw [hder]; rfl, ?_⟩
  unfold VK.fromPem
  rw [unpem_topem' E bs pemNamePublic (by decide) hb64]
  exact hrt

theorem sk_fromPem_toPem (E : Ext) (k : SK) (enc : PointEnc) (fmt : PrivFmt) (bs : Bytes) (hder : k.toDer enc fmt = .ok bs)
    (hrt : SK.fromDer E bs = .ok k) (hb64 : E.b64decode (b64encode bs) = some bs) :
    ∃ pem, k.toPem enc fmt = .ok pem ∧ SK.fromPem E pem = .ok k := by
  cases fmt
  · refine ⟨topem bs pemNameEcPrivate, by unfold SK.toPem; rw [hder]; rfl, ?_⟩
    unfold SK.fromPem
    have := dropToSub_ec_in_ec bs
    unfold ecHdr at this
    simp only [this]
    rw [unpem_topem' E bs pemNameEcPrivate (by decide) hb64]
    exact hrt
  · refine ⟨topem bs pemNamePrivate, by unfold SK.toPem; rw [hder]; rfl, ?_⟩
    unfold SK.fromPem
    have h1 := dropToSub_ec_in_p8 bs
    have h2 := dropToSub_p8_in_p8 bs
    unfold ecHdr at h1
    unfold p8Hdr at h2
    simp only [h1, h2]
    rw [unpem_topem' E bs pemNamePrivate (by decide) hb64]
    exact hrt

theorem vk_fromPem_err (E : Ext) (hsq : ∀ c ∈ Gen.curveTable, SqrtSpec E.sqrtModP c.p) (pem : Bytes) (e : PyErr)
    (h : VK.fromPem E pem = .error e) : Documented e := by
  unfold VK.fromPem at h
  split at h
  · rename_i e' he
    injection h with h; subst h
    exact Or.inl (unpem_err E pem _ he)
  · exact vk_fromDer_err E hsq _ e h

theorem sk_fromPem_err' (E : Ext) (pem : Bytes) (e : PyErr) (h : SK.fromPem E pem = .error e) : Documented e := by
  unfold SK.fromPem at h
  simp only at h
  split at h
  · injection h with h; exact Or.inl h.symm
  · split at h
    · rename_i e' he
      injection h with h; subst h
      exact Or.inl (unpem_err E _ _ he)
    · exact sk_fromDer_err' E _ e h

theorem sk_fromPem_err (E : Ext) (hpub : ∀ c ∈ Gen.curveTable, PubSpec E c) (pem : Bytes) (e : PyErr)
    (h : SK.fromPem E pem = .error e) : Documented e := by
  unfold SK.fromPem at h
  simp only at h
  split at h
  · injection h with h; exact Or.inl h.symm
  · split at h
    · rename_i e' he
      injection h with h; subst h
      exact Or.inl (unpem_err E _ _ he)
    · exact sk_fromDer_err E hpub _ e h

end KeysP
