import Proofs.KeysDerRT
/-!
# Proofs.KeysDerId — `from_der (to_der k) = k` for both key types, every point encoding, both private formats
-/
namespace KeysP
open Keys Asn1Spec

theorem ok_inj {α : Type} {a b : α} (h : (Except.ok a : Res α) = .ok b) : a = b := by injection h

theorem encBytes_not_raw_len (k : VK) (enc : PointEnc) (henc : enc ≠ .raw) (hl : Util.orderlen k.curve.p ≠ 1) :
    (encBytes k enc).length ≠ k.curve.vkLen := by
  have hl0 := orderlen_pos k.curve.p
  have := encBytes_length k enc
  rw [vkLen_eq]
  cases enc <;> simp only at this <;> first | exact absurd rfl henc | omega

/-- `VerifyingKey.from_der(vk.to_der(enc)) = vk` -/
theorem vk_fromDer_toDer (E : Ext) (k : VK) (hc : k.curve ∈ Gen.curveTable) (hp : k.curve.p.Prime)
    (hfind : findCurve k.curve.oid = .ok k.curve) (hodd : k.curve.p % 2 = 1) (hn : k.curve.n ≠ 0)
    (hl1 : Util.orderlen k.curve.p ≠ 1)
    (hs : SqrtSpec E.sqrtModP k.curve.p) (hv : ValidPoint E k.curve k.x k.y) (enc : PointEnc) (henc : enc ≠ .raw) :
    ∃ bs, k.toDer enc = .ok bs ∧ VK.fromDer E bs = .ok k := by
  have hspec := vk_toDer_spki k hc hv.1 hv.2.1 enc henc
  refine ⟨_, hspec, ?_⟩
  -- the same bytes in the model encoder's shape
  have hpt := encBytes_length_le k enc (table_orderlen_le _ hc).1
  have ho := table_oid_length _ hc
  have hpk := idPk_length
  have h1 : ([Asn1.enc (.oid id_ecPublicKey), Asn1.enc (.oid k.curve.oid)] : List Bytes).flatten.length < 65536 := by
    simp; omega
  have h2 : (tlv 0x30 ([Asn1.enc (.oid id_ecPublicKey), Asn1.enc (.oid k.curve.oid)] : List Bytes).flatten).length ≤ 29 := by
    have := tlv_length_le 0x30 _ h1
    simp at this ⊢; omega
  have h3 : (tlv 0x03 (0 :: encBytes k enc)).length ≤ 138 := by
    have := tlv_length_le 0x03 (0 :: encBytes k enc) (by simp; omega)
    simp at this ⊢; omega
  have hshape : (spki k.curve.oid (encBytes k enc)).enc =
      Der.encodeSequence [Der.encodeSequence [Asn1.enc (.oid id_ecPublicKey), Asn1.enc (.oid k.curve.oid)],
        Der.encodeBits (encBytes k enc) 0] := by
    rw [encodeBits_tlv _ (by omega), encodeSequence_tlv _ h1, encodeSequence_tlv _ (by simp at h2 h3 ⊢; omega)]
    simp [spki, Asn1.enc, Asn1.encList]
  have hlen : (spki k.curve.oid (encBytes k enc)).enc.length < 256 ^ 127 := by
    have : (spki k.curve.oid (encBytes k enc)).enc =
        tlv 0x30 ([tlv 0x30 ([Asn1.enc (.oid id_ecPublicKey), Asn1.enc (.oid k.curve.oid)] : List Bytes).flatten,
          tlv 0x03 (0 :: encBytes k enc)] : List Bytes).flatten := by
      simp [spki, Asn1.enc, Asn1.encList]
    rw [this]
    have := tlv_length_le 0x30 ([tlv 0x30 ([Asn1.enc (.oid id_ecPublicKey), Asn1.enc (.oid k.curve.oid)] : List Bytes).flatten,
          tlv 0x03 (0 :: encBytes k enc)] : List Bytes).flatten (by simp at h2 h3 ⊢; omega)
    refine small_lt _ ?_
    simp at this h2 h3 ⊢; omega
  rw [hshape] at hlen ⊢
  rw [vk_fromDer_pieces E k.curve _ _ _ (by rw [encodeOid_ecPublicKey_spec]) (table_encodedOid _ hc) hfind
    (encBytes_not_raw_len k enc henc hl1) hlen]
  exact (fromString_ok_iff E k.curve hp hodd hn hs _ k).mpr
    ⟨rfl, encBytes_encodes k hv.1 hv.2.1 enc (fun _ => hl1), hv⟩

/-- the spec encodings of the private-key structures in the model encoder's shape, and their sizes, for any scalar
bytes (at most 66) and any public-point bytes (at most 133) -/
theorem sk_shape (c : Curve) (hc : c ∈ Gen.curveTable) (skStr pt : Bytes) (hs : skStr.length ≤ 66) (hpt : pt.length ≤ 133) :
    let eoid := Asn1.enc (.oid c.oid)
    let idpk := Asn1.enc (.oid id_ecPublicKey)
    let ecp := Der.encodeSequence [Der.encodeInteger 1, Der.encodeOctetString skStr, Der.encodeConstructed 0 eoid,
      Der.encodeConstructed 1 (Der.encodeBits pt 0)]
    (ecPrivateKey skStr c.oid pt).enc = ecp ∧ ecp.length ≤ 245 ∧
    (oneAsymmetricKey skStr c.oid pt).enc =
      Der.encodeSequence [Der.encodeInteger 1, Der.encodeSequence [idpk, eoid], Der.encodeOctetString ecp, []] ∧
    (Der.encodeSequence [Der.encodeInteger 1, Der.encodeSequence [idpk, eoid], Der.encodeOctetString ecp, []]).length ≤ 300 := by
  intro eoid idpk ecp
  have ho : eoid.length ≤ 16 := table_oid_length _ hc
  have hpk : idpk.length = 9 := idPk_length
  have hi := int_one_length
  have hbits : (tlv 0x03 (0 :: pt)).length ≤ 138 := by
    have := tlv_length_le 0x03 (0 :: pt) (by simp; omega)
    simp at this ⊢; omega
  have hoct : (tlv 0x04 skStr).length ≤ 70 := by
    have := tlv_length_le 0x04 skStr (by omega)
    omega
  have hc0 : (tlv (UInt8.ofNat (0xA0 + 0)) eoid).length ≤ 20 := by
    have := tlv_length_le (UInt8.ofNat (0xA0 + 0)) eoid (by omega)
    omega
  have hc1 : (tlv (UInt8.ofNat (0xA0 + 1)) (tlv 0x03 (0 :: pt))).length ≤ 142 := by
    have := tlv_length_le (UInt8.ofNat (0xA0 + 1)) (tlv 0x03 (0 :: pt)) (by omega)
    omega
  have hbody : ([Asn1.enc (.int 1), tlv 0x04 skStr, tlv (UInt8.ofNat (0xA0 + 0)) eoid,
      tlv (UInt8.ofNat (0xA0 + 1)) (tlv 0x03 (0 :: pt))] : List Bytes).flatten.length ≤ 241 := by
    simp only [List.flatten_cons, List.flatten_nil, List.length_append, List.length_nil]
    omega
  have e1 : ecp = tlv 0x30 ([Asn1.enc (.int 1), tlv 0x04 skStr, tlv (UInt8.ofNat (0xA0 + 0)) eoid,
      tlv (UInt8.ofNat (0xA0 + 1)) (tlv 0x03 (0 :: pt))] : List Bytes).flatten := by
    show Der.encodeSequence _ = _
    rw [encodeInteger_one, encodeBits_tlv _ (by omega), encodeOctetString_tlv _ (by omega),
      encodeConstructed_tlv 0 _ (by omega), encodeConstructed_tlv 1 _ (by omega), encodeSequence_tlv _ (by omega)]
  have l1 : ecp.length ≤ 245 := by
    rw [e1]
    have := tlv_length_le 0x30 _ (Nat.lt_of_le_of_lt hbody (by decide))
    omega
  have h1 : ([idpk, eoid] : List Bytes).flatten.length < 65536 := by simp; omega
  have h2 : (tlv 0x30 ([idpk, eoid] : List Bytes).flatten).length ≤ 29 := by
    have := tlv_length_le 0x30 _ h1
    simp at this ⊢; omega
  have h3 := tlv_length_le 0x04 ecp (by omega)
  simp only [List.flatten_cons, List.flatten_nil, List.append_nil] at h2
  have hb2 : ([Asn1.enc (.int 1), tlv 0x30 ([idpk, eoid] : List Bytes).flatten, tlv 0x04 ecp, []] : List Bytes).flatten.length ≤ 290 := by
    simp only [List.flatten_cons, List.flatten_nil, List.append_nil, List.length_append, List.length_nil]
    omega
  have e2 : Der.encodeSequence [Der.encodeInteger 1, Der.encodeSequence [idpk, eoid], Der.encodeOctetString ecp, []]
      = tlv 0x30 ([Asn1.enc (.int 1), tlv 0x30 ([idpk, eoid] : List Bytes).flatten, tlv 0x04 ecp, []] : List Bytes).flatten := by
    rw [encodeInteger_one, encodeSequence_tlv _ h1, encodeOctetString_tlv _ (by omega), encodeSequence_tlv _ (by omega)]
  refine ⟨?_, l1, ?_, ?_⟩
  · rw [e1]; simp [ecPrivateKey, Asn1.enc, Asn1.encList, eoid]
  · rw [e2]
    have : (ecPrivateKey skStr c.oid pt).enc = ecp := by
      rw [e1]; simp [ecPrivateKey, Asn1.enc, Asn1.encList, eoid]
    simp [oneAsymmetricKey, Asn1.enc, Asn1.encList, this, eoid, idpk]
  · rw [e2]
    have := tlv_length_le 0x30 _ (Nat.lt_of_le_of_lt hb2 (by decide))
    omega

/-- the SubjectPublicKeyInfo spec encoding in the model encoder's shape -/
theorem spki_shape (c : Curve) (hc : c ∈ Gen.curveTable) (pt : Bytes) (hpt : pt.length ≤ 133) :
    (spki c.oid pt).enc =
      Der.encodeSequence [Der.encodeSequence [Asn1.enc (.oid id_ecPublicKey), Asn1.enc (.oid c.oid)], Der.encodeBits pt 0]
    ∧ (spki c.oid pt).enc.length < 65536 := by
  have ho := table_oid_length _ hc
  have hpk := idPk_length
  have h1 : ([Asn1.enc (.oid id_ecPublicKey), Asn1.enc (.oid c.oid)] : List Bytes).flatten.length < 65536 := by
    simp; omega
  have h2 : (tlv 0x30 ([Asn1.enc (.oid id_ecPublicKey), Asn1.enc (.oid c.oid)] : List Bytes).flatten).length ≤ 29 := by
    have := tlv_length_le 0x30 _ h1
    simp at this ⊢; omega
  have h3 : (tlv 0x03 (0 :: pt)).length ≤ 138 := by
    have := tlv_length_le 0x03 (0 :: pt) (by simp; omega)
    simp at this ⊢; omega
  constructor
  · rw [encodeBits_tlv _ (by omega), encodeSequence_tlv _ h1, encodeSequence_tlv _ (by simp at h2 h3 ⊢; omega)]
    simp [spki, Asn1.enc, Asn1.encList]
  · have : (spki c.oid pt).enc =
        tlv 0x30 ([tlv 0x30 ([Asn1.enc (.oid id_ecPublicKey), Asn1.enc (.oid c.oid)] : List Bytes).flatten,
          tlv 0x03 (0 :: pt)] : List Bytes).flatten := by
      simp [spki, Asn1.enc, Asn1.encList]
    rw [this]
    have := tlv_length_le 0x30 ([tlv 0x30 ([Asn1.enc (.oid id_ecPublicKey), Asn1.enc (.oid c.oid)] : List Bytes).flatten,
          tlv 0x03 (0 :: pt)] : List Bytes).flatten (by simp at h2 h3 ⊢; omega)
    simp at this h2 h3 ⊢; omega

/-! ## keys written by an independent (spec) encoder load to the same values -/

/-- a spec-encoded SubjectPublicKeyInfo of a table curve loads as `from_string` of its point bytes -/
theorem vk_fromDer_spec (E : Ext) (c : Curve) (hc : c ∈ Gen.curveTable) (hfind : findCurve c.oid = .ok c) (pt : Bytes)
    (hpt : pt.length ≤ 133) (hraw : pt.length ≠ c.vkLen) :
    VK.fromDer E (spki c.oid pt).enc = VK.fromString E c pt true := by
  obtain ⟨e, l⟩ := spki_shape c hc pt hpt
  rw [e] at l ⊢
  exact vk_fromDer_pieces E c _ _ _ (by rw [encodeOid_ecPublicKey_spec]) (table_encodedOid _ hc) hfind hraw (small_lt _ l)

/-- spec-encoded ECPrivateKey / OneAsymmetricKey load as `from_string` of the (left-padded) scalar bytes, whatever
public-point bytes they carry -/
theorem sk_fromDer_spec (E : Ext) (c : Curve) (hc : c ∈ Gen.curveTable) (hfind : findCurve c.oid = .ok c)
    (skStr pt : Bytes) (hs : skStr.length ≤ 66) (hpt : pt.length ≤ 133) :
    SK.fromDer E (ecPrivateKey skStr c.oid pt).enc = SK.fromString E c (padLeft c skStr) ∧
    SK.fromDer E (oneAsymmetricKey skStr c.oid pt).enc = SK.fromString E c (padLeft c skStr) := by
  obtain ⟨e1, l1, e2, l2⟩ := sk_shape c hc skStr pt hs hpt
  constructor
  · rw [e1]
    exact sk_fromDer_ssleay_pieces E c _ _ _ (table_encodedOid _ hc) hfind (small_lt _ (by omega))
  · rw [e2]
    exact sk_fromDer_pkcs8_pieces E c 1 (Or.inr rfl) _ _ _ _ [] (by rw [encodeOid_ecPublicKey_spec])
      (table_encodedOid _ hc) hfind (small_lt _ (by omega))

theorem beVal_replicate_zero (n : Nat) (s : Bytes) : beVal (List.replicate n 0 ++ s) = beVal s := by
  induction n with
  | zero => simp
  | succ n ih =>
    rw [List.replicate_succ, List.cons_append]
    unfold beVal at ih ⊢
    simp only [List.foldl_cons]
    simpa using ih

/-- left padding changes neither the scalar nor (beyond reaching `baselen`) anything else -/
theorem padLeft_spec (c : Curve) (s : Bytes) :
    beVal (padLeft c s) = beVal s ∧ (padLeft c s).length = max s.length c.baselen := by
  unfold padLeft
  split
  · refine ⟨beVal_replicate_zero _ _, ?_⟩
    simp; omega
  · exact ⟨rfl, by omega⟩

/-- `SigningKey.from_der(sk.to_der(enc, fmt)) = sk` -/
theorem sk_fromDer_toDer (E : Ext) (k : SK) (hc : k.curve ∈ Gen.curveTable) (hfind : findCurve k.curve.oid = .ok k.curve)
    (hw : SK.WF E k) (enc : PointEnc) (henc : enc ≠ .raw) (fmt : PrivFmt) :
    ∃ bs, k.toDer enc fmt = .ok bs ∧ SK.fromDer E bs = .ok k := by
  obtain ⟨h1, h2, hvc, hx, hy, hpub⟩ := hw
  have hol := table_orderlen_le _ hc
  have hpt := encBytes_length_le k.vk enc (by rw [hvc]; exact hol.1)
  have hsl : (beFixed (Util.orderlen k.curve.n) k.d).length ≤ 66 := by rw [beFixed_length]; exact hol.2
  obtain ⟨r1, r2⟩ := sk_fromDer_spec E k.curve hc hfind _ _ hsl hpt
  have hpad : padLeft k.curve (beFixed (Util.orderlen k.curve.n) k.d) = beFixed (Util.orderlen k.curve.n) k.d := by
    unfold padLeft Curve.baselen
    rw [if_neg (by rw [beFixed_length]; omega)]
  obtain ⟨bs0, hts, hfs⟩ := sk_fromString_toString E k ⟨h1, h2, hvc, hx, hy, hpub⟩
  have hfs' : SK.fromString E k.curve (beFixed (Util.orderlen k.curve.n) k.d) = .ok k := by
    have hh := sk_toString_ok k h2
    rw [hh] at hts
    rw [ok_inj hts]; exact hfs
  cases fmt
  · exact ⟨_, sk_toDer_ssleay k hc h2 hvc hx hy enc henc, by rw [r1, hpad]; exact hfs'⟩
  · exact ⟨_, sk_toDer_pkcs8 k hc h2 hvc hx hy enc henc, by rw [r2, hpad]; exact hfs'⟩

end KeysP
