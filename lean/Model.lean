import Model.Basic
import Model.Der
import Model.Handlers
import Model.Util
import Model.UtilWire
import Model.Wire
