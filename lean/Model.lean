import Model.Basic
import Model.Wire
import Model.Der
import Model.Util
import Model.UtilWire
